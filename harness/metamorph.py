"""AST-level metamorphic transformations of generated programs (for C07, C08, C11) and the real-vs-real
comparison of their results."""
import copy
import json

import core
import gen_program as G
import semcheck

KEYWORD_VARS = ['select', 'from', 'where', 'group', 'table', 'index', 'union', 'values', 'primary', 'offset',
                'by', 'join', 'on', 'case', 'when', 'end', 'all', 'having', 'inner', 'outer', 'left', 'null_', 'true_']
TRICKY_VARS = ['a_b', 'ab', 'a_bc', 't_0_e', 'col0', 'col1', 'unused_singleton', 's', 'n', 'value', 'arg', 'json',
               'xy_', 'xx', 'z_1', 'logica_v']
KEYWORD_PREDS = ['Order', 'Select', 'Group', 'Table', 'Index', 'Where', 'From', 'Union', 'Values', 'Limit',
                 'Case', 'Distinct', 'All', 'Exists', 'Primary', 'Check', 'Default']
TRICKY_PREDS = ['Ab', 'Abc', 'A_b', 'T0e', 'Unused', 'Zzz', 'Q1', 'Json', 'Xx', 'Longpredicatename', 'E', 'T']


def walk_replace(x, f):
  """Bottom-up rewrite of every dict node with f."""
  if isinstance(x, dict):
    return f({k: walk_replace(v, f) for k, v in x.items()})
  if isinstance(x, list):
    return [walk_replace(v, f) for v in x]
  return x


def rule_vars(r):
  out = []

  def f(n):
    if 'var' in n and n['var'] not in out:
      out.append(n['var'])
    return n
  walk_replace(r, f)
  return out


# ---------------- C07 transformations ----------------

def permute_rules(prog, rng):
  p = copy.deepcopy(prog)
  rng.shuffle(p.rules)
  return p


def permute_conjuncts(prog, rng):
  p = copy.deepcopy(prog)

  def f(n):
    if 'and' in n and isinstance(n['and'], list):
      l = list(n['and'])
      rng.shuffle(l)
      n = dict(n, **{'and': l})
    if 'or' in n and isinstance(n['or'], list):
      l = list(n['or'])
      rng.shuffle(l)
      n = dict(n, **{'or': l})
    return n
  p.rules = walk_replace(p.rules, f)
  return p


def rename_variables(prog, rng, pool):
  p = copy.deepcopy(prog)
  new_rules = []
  for r in p.rules:
    vs = rule_vars(r)
    names = rng.sample(pool, min(len(pool), len(vs)))
    names += ['v%d' % i for i in range(len(vs) - len(names))]
    m = dict(zip(vs, names))

    def f(n, m=m):
      if 'var' in n:
        return dict(n, var=m[n['var']])
      return n
    new_rules.append(walk_replace(r, f))
  p.rules = new_rules
  return p


def rename_predicates(prog, rng, pool):
  """Returns (program, name map). Injectible helper predicates (extra_text) keep their names."""
  p = copy.deepcopy(prog)
  names = [q.name for q in p.preds]
  new = rng.sample(pool, min(len(pool), len(names)))
  new += ['Pz%d' % i for i in range(len(names) - len(new))]
  m = dict(zip(names, new))

  def f(n):
    if 'atom' in n and n['atom'] in m:
      return dict(n, atom=m[n['atom']])
    if 'call' in n and n['call'] in m:
      return dict(n, call=m[n['call']])
    if 'head' in n and n['head'] in m:
      return dict(n, head=m[n['head']])
    return n
  p.rules = walk_replace(p.rules, f)
  for q in p.preds:
    q.name = m[q.name]
  p.annotations = [a for a in p.annotations]
  return p, m


def direct_vars(x, acc=None):
  """Variables mentioned directly in a scope (not inside nested aggregating expressions / negations)."""
  acc = [] if acc is None else acc
  if isinstance(x, dict):
    if 'var' in x:
      if x['var'] not in acc:
        acc.append(x['var'])
      return acc
    if 'agg' in x or 'not' in x:
      return acc
    for v in x.values():
      direct_vars(v, acc)
  elif isinstance(x, list):
    for v in x:
      direct_vars(v, acc)
  return acc


def scope_children(x, out=None):
  """Nested aggregating expressions / negations directly below this scope."""
  out = [] if out is None else out
  if isinstance(x, dict):
    if 'agg' in x or 'not' in x:
      out.append(x)
      return out
    for v in x.values():
      scope_children(v, out)
  elif isinstance(x, list):
    for v in x:
      scope_children(v, out)
  return out


def rename_locals_apart(prog, rng):
  """Alpha-rename: every aggregating expression / negation gets its own spelling for its local variables."""
  p = copy.deepcopy(prog)
  counter = [0]

  def rename_in(node, m):
    def f(n):
      if 'var' in n and n['var'] in m:
        return dict(n, var=m[n['var']])
      return n
    return walk_replace(node, f)

  def process_scope(content, outer):
    """content: the AST of one scope (children not yet processed). Returns rewritten content."""
    here = set(direct_vars(content)) | outer

    def rec(x):
      if isinstance(x, dict):
        if 'agg' in x or 'not' in x:
          content2 = {'e': x['e'], 'body': x['body']} if 'agg' in x else {'p': x['not']}
          locs = [v for v in direct_vars(content2) if v not in here]
          m = {}
          for v in locs:
            counter[0] += 1
            m[v] = '%sr%d' % (v, counter[0])
          content2 = rename_in(content2, m)
          content2 = process_scope(content2, here)
          if 'agg' in x:
            return dict(x, e=content2['e'], body=content2['body'])
          return dict(x, **{'not': content2['p']})
        return {k: rec(v) for k, v in x.items()}
      if isinstance(x, list):
        return [rec(v) for v in x]
      return x
    return rec(content)

  p.rules = [process_scope(r, set()) for r in p.rules]
  return p


# ---------------- comparison ----------------

def job_variant(job):
  """job = (orig_text, [(vname, text, {orig_pred: variant_pred})], [orig preds]) -> results"""
  orig_text, variants, preds = job
  base = semcheck.job_real((orig_text, preds))
  out = []
  for vname, text, pmap in variants:
    res = semcheck.job_real((text, [pmap.get(p, p) for p in preds]))
    out.append((vname, {p: res[pmap.get(p, p)] for p in preds}))
  return base, out


def bag(res):
  if res['kind'] != 'ok':
    return None
  return sorted(json.dumps(r, sort_keys=True, default=str) for r in res['rows'])


def norm_bag(res, pred):
  """Bag of rows with List columns sorted (element order of List is excepted)."""
  if res['kind'] != 'ok':
    return None
  rows = []
  for r in res['rows']:
    rr = []
    for v, t in zip(r, pred.types + ['?'] * 10):
      rr.append(semcheck.norm(G.canon_value(v, t), t))
    rows.append(json.dumps(rr, sort_keys=True, default=str))
  return sorted(rows)
