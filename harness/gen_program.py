"""Type-directed generator of core-language Logica programs: produces the AST (JSON, what the Lean
reference evaluator `Sem.denote` receives) *and* the program text (what the real pipeline receives).

AST (JSON):
  expr: {"lit": v} | {"var": x} | {"op": f, "args": [e..]} | {"if": [[c, t]..], "else": e} | {"list": [e..]}
        | {"rec": [[f, e]..]} | {"sub": e, "field": f} | {"call": P, "args": [[f, e]..]}
        | {"agg": Op, "e": e, "body": prop}
  prop: {"atom": P, "args": [[f, e]..]} | {"eq": [a, b]} | {"test": e} | {"in": [x, l]} | {"and": [..]}
        | {"or": [..]} | {"not": p}
  rule: {"head": P, "args": [[f, e | {"aggop": Op, "e": e}]..], "distinct": bool, "body": prop|None}
Types: 'int' | 'str' | 'bool' | ('list', t) | ('rec', ((f, t)..))
"""
import json

INT_DOM = [0, 1, 2, 3, 4]
STR_DOM = ['a', 'b', 'c', 'ab']
NAMED_COLS = ['a', 'b', 'c', 'd']


class Pred:
  def __init__(self, name, cols, types, kind='concrete'):
    self.anycols = set()    # ArgMin/ArgMax columns: any admissible winner is accepted on ties
    self.name = name
    self.cols = cols        # column names: col0.. / names / logica_value
    self.types = types      # parallel list of types
    self.kind = kind        # 'facts' | 'concrete' | 'functional' | 'distinct'

  def positional(self):
    return all(c.startswith('col') or c == 'logica_value' for c in self.cols)


class Program:
  def __init__(self):
    self.preds = []         # Pred, in dependency order
    self.rules = []         # AST rules, in text order
    self.annotations = []   # text lines
    self.features = set()
    self.header = '@Engine("sqlite");'
    self.extra_text = []    # raw text lines (rules not in the AST, e.g. consumers)

  def pred(self, name):
    for p in self.preds:
      if p.name == name:
        return p
    raise KeyError(name)

  def strata(self):
    if getattr(self, 'custom_strata', None) is not None:
      return self.custom_strata
    return [{'pred': p.name} for p in self.preds]

  def text(self, printer=None):
    pr = printer or Printer()
    lines = [self.header] + list(self.annotations)
    lines += [pr.rule(r) for r in self.rules]
    lines += self.extra_text
    return '\n'.join(lines) + '\n'

  def ast(self):
    return {'rules': model_view(self.rules), 'strata': self.strata()}


# ------------------------------------------------------------------------------------------------
# printer
# ------------------------------------------------------------------------------------------------

INFIX = {'+', '-', '*', '/', '%', '++', '==', '!=', '<', '<=', '>', '>=', '&&', '||', '->'}
AGG_SYNTAX = {'Sum': 'Sum', 'Min': 'Min', 'Max': 'Max', 'Count': 'Count', 'List': 'List', 'Set': 'Set',
              'ArgMin': 'ArgMin', 'ArgMax': 'ArgMax', 'Array': 'Array'}


def lit_text(v):
  if v is None:
    return 'null'
  if isinstance(v, bool):
    return 'true' if v else 'false'
  if isinstance(v, int):
    return str(v) if v >= 0 else '(%d)' % v
  if isinstance(v, str):
    return json.dumps(v, ensure_ascii=False)
  if isinstance(v, list):
    return '[' + ', '.join(lit_text(x) for x in v) + ']'
  if isinstance(v, dict) and '$r' in v:
    return '{' + ', '.join('%s: %s' % (k, lit_text(x)) for k, x in v['$r']) + '}'
  raise AssertionError(v)


def kname(op):
  """'ArgMinK:2' -> 'ArgMin2' (helper aggregation defined by the program), other operators unchanged"""
  if ':' in op:
    base, k = op.split(':')
    return base[:-1] + k
  return op


class Printer:
  """Options select among equivalent surface forms (used by C11 / C15)."""

  def __init__(self, **opt):
    self.opt = opt

  def expr(self, e, top=False):
    s = self._expr(e, top)
    rng = self.opt.get('paren_rng')
    if rng is not None and rng.random() < self.opt.get('paren_prob', 0.2):
      return '(' + s + ')'
    return s

  def _expr(self, e, top=False):
    if 'lit' in e:
      return lit_text(e['lit'])
    if 'var' in e:
      return e['var']
    if 'op' in e:
      f, args = e['op'], e['args']
      if f in INFIX and len(args) == 2:
        s = '%s %s %s' % (self.expr(args[0]), f, self.expr(args[1]))
        return '(' + s + ')'
      if f == '-' and len(args) == 1:
        # `-3` is one number literal token: its digits are not an expression of their own
        inner = self._expr(args[0]) if 'lit' in args[0] else self.expr(args[0])
        # `-F(x)` is read by the parser as a call of a predicate named "-F" (known finding): parenthesise
        if 'op' in args[0] and args[0]['op'] not in INFIX and not self.opt.get('raw_unary_minus'):
          return '(-(%s))' % inner
        return '(-%s)' % inner
      if f == '!' and len(args) == 1:
        return '(!%s)' % self.expr(args[0])
      if f == 'IsNull':
        return '(%s is null)' % self.expr(args[0])
      if f == 'IsNotNull':
        return '(%s is not null)' % self.expr(args[0])
      return '%s(%s)' % (f, ', '.join(self.expr(a, True) for a in args))
    if 'if' in e:
      parts = []
      for i, (c, t) in enumerate(e['if']):
        parts.append('%s %s then %s' % ('if' if i == 0 else 'else if', self.expr(c, True), self.expr(t, True)))
      return '(' + ' '.join(parts) + ' else ' + self.expr(e['else'], True) + ')'
    if 'list' in e:
      return '[' + ', '.join(self.expr(x, True) for x in e['list']) + ']'
    if 'rec' in e:
      return '{' + ', '.join('%s: %s' % (f, self.expr(x, True)) for f, x in e['rec']) + '}'
    if 'sub' in e:
      return '%s.%s' % (self.expr(e['sub']), e['field'])
    if 'call' in e:
      return '%s(%s)' % (e['call'], self.args(e['args']))
    if 'agg' in e:
      op = e['agg']
      k = None
      if ':' in op:
        op, k = op.split(':')
      if k is not None:
        # ArgMinK:2 is written with the helper ArgMin2(x) = ArgMinK(x, 2) the program defines (templates.t_argmin_k)
        op = op[:-1] + k
      form = self.opt.get('agg_form', 'brace')
      if form == 'combine':
        return '(combine %s= %s :- %s)' % (op, self.expr(e['e'], True), self.prop(e['body']))
      return '%s{%s :- %s}' % (op, self.expr(e['e'], True), self.prop(e['body']))
    raise AssertionError(e)

  def args(self, args):
    out = []
    for i, (f, x) in enumerate(args):
      if f == 'col%d' % i and not self.opt.get('explicit_cols'):
        out.append(self.expr(x, True))
      elif f == 'logica_value':
        out.append('logica_value: ' + self.expr(x, True))
      elif self.opt.get('field_shorthand') and isinstance(x, dict) and x.get('var') == f:
        out.append('%s:' % f)
      else:
        out.append('%s: %s' % (f, self.expr(x, True)))
    return ', '.join(self.shuffle_named(out))

  def shuffle_named(self, parts):
    """option named_order_rng: named arguments (`f: e`, `f? Op= e`) are written in a random order, after the
    positional ones (their order is part of the meaning)"""
    rng = self.opt.get('named_order_rng')
    if rng is None:
      return parts
    import re as _re
    named = [p for p in parts if _re.match(r'^[a-z_][A-Za-z_0-9]*(\?|:)', p)]
    if len(named) < 2:
      return parts
    pos = [p for p in parts if p not in named]
    rng.shuffle(named)
    return pos + named

  def prop(self, p, top=False):
    s = self._prop(p, top)
    rng = self.opt.get('paren_rng')
    if rng is not None and not top and rng.random() < self.opt.get('paren_prob', 0.2) and 'and' not in p:
      return '(' + s + ')'
    return s

  def _prop(self, p, top=False):
    if 'atom' in p:
      return '%s(%s)' % (p['atom'], self.args(p['args']))
    if 'eq' in p:
      a, b = p['eq']
      if self.opt.get('agg_form') == 'opeq' and 'var' in a and isinstance(b, dict) and 'agg' in b and ':' not in b['agg']:
        return '%s %s= (%s :- %s)' % (a['var'], b['agg'], self.expr(b['e'], True), self.prop(b['body'], True))
      return '%s %s %s' % (self.expr(a, True), '=' if self.opt.get('single_eq') else '==', self.expr(b, True))
    if 'test' in p:
      s = self.expr(p['test'], True)
      if s.startswith('(') and s.endswith(')') and 'op' in p['test'] and p['test']['op'] in INFIX:
        s = s[1:-1]
      return s
    if 'in' in p:
      return '%s in %s' % (self.expr(p['in'][0], True), self.expr(p['in'][1], True))
    if 'and' in p:
      s = ', '.join(self.prop(q) for q in p['and'])
      return s if top else '(' + s + ')'
    if 'or' in p:
      s = ' | '.join(self.prop(q) for q in p['or'])
      return '(' + s + ')'
    if 'not' in p:
      q = p['not']
      if self.opt.get('implication') and 'and' in q and len(q['and']) >= 2 and 'not' in q['and'][-1]:
        ante = q['and'][:-1]
        a_txt = self.prop(ante[0]) if len(ante) == 1 else '(' + ', '.join(self.prop(x) for x in ante) + ')'
        cq = q['and'][-1]['not']
        c_txt = self.prop(cq) if 'atom' in cq else '(' + self.prop(cq, True) + ')'
        return '(%s => %s)' % (a_txt, c_txt)
      if self.opt.get('neg_as_agg'):
        return '(Max{1 :- %s} is null)' % self.prop(q, True)
      return '~' + (self.prop(q) if 'atom' in q else '(' + self.prop(q, True) + ')')
    raise AssertionError(p)

  def rule(self, r):
    plain, value = [], None
    for f, x in r['args']:
      if f == 'logica_value':
        value = x
        continue
      if isinstance(x, dict) and 'aggop' in x:
        plain.append('%s? %s= %s' % (f, kname(x['aggop']), self.expr(x['e'], True)))
      elif f.startswith('col') and f[3:].isdigit() and not self.opt.get('explicit_cols'):
        plain.append(self.expr(x, True))
      elif self.opt.get('field_shorthand') and isinstance(x, dict) and x.get('var') == f:
        plain.append('%s:' % f)
      else:
        plain.append('%s: %s' % (f, self.expr(x, True)))
    valagg = value is not None and isinstance(value, dict) and 'aggop' in value
    if value is not None and self.opt.get('explicit_value'):
      if valagg:
        plain.append('logica_value? %s= %s' % (value['aggop'], self.expr(value['e'], True)))
      else:
        plain.append('logica_value: %s' % self.expr(value, True))
    if (r.get('distinct') or any(isinstance(x, dict) and 'aggop' in x for _, x in r['args'])) and not self.opt.get('named_order_distinct'):
      # the rules of an aggregating predicate must spell their arguments in one order ("Signature differs" otherwise,
      # a documented restriction of multi-body aggregation): left as written
      head = '%s(%s)' % (r['head'], ', '.join(plain))
    else:
      head = '%s(%s)' % (r['head'], ', '.join(self.shuffle_named(plain)))
    if value is not None and not self.opt.get('explicit_value'):
      if valagg:
        op = value['aggop']
        head += (' += ' if op == 'Sum' else ' %s= ' % op) + self.expr(value['e'], True)
      else:
        head += ' = ' + self.expr(value, True)
    if r.get('distinct') and not (valagg and not self.opt.get('explicit_value')):
      head += ' distinct'
    elif valagg and self.opt.get('explicit_value'):
      head += ' distinct'
    body = r.get('body')
    if body is None:
      return head + ';'
    return head + ' :- ' + self.prop(body, top=True) + ';'


# ------------------------------------------------------------------------------------------------
# generator
# ------------------------------------------------------------------------------------------------

def V(x):
  return {'var': x}


def L(v):
  return {'lit': v}


def OP(f, *args):
  return {'op': f, 'args': list(args)}


class Gen:
  EMPTY_LISTS = True    # an empty list literal leaves its element type open (C05 switches it off)
  """One program. `mask` is a set of enabled features."""

  ALL = {'disj', 'named', 'arith', 'cmp', 'assign', 'in', 'lists', 'records', 'ite', 'functional',
         'injectible', 'agg', 'aggexpr', 'neg', 'multirule', 'strs', 'dupfacts', 'nested_agg', 'headexpr'}

  def __init__(self, rng, mask=None, n_facts=(2, 3), n_derived=(2, 5), max_rows=5):
    self.rng = rng
    self.mask = set(mask if mask is not None else self.ALL)
    self.prog = Program()
    self.n_facts = n_facts
    self.n_derived = n_derived
    self.max_rows = max_rows
    self.vcount = 0

  def on(self, f, p=0.5):
    return f in self.mask and self.rng.random() < p

  def fresh(self, prefix='x'):
    self.vcount += 1
    return '%s%d' % (prefix, self.vcount)

  def value(self, t):
    if t == 'int':
      return self.rng.choice(INT_DOM)
    if t == 'str':
      return self.rng.choice(STR_DOM)
    raise AssertionError(t)

  # ---------------- facts ----------------
  def gen_fact_pred(self, i):
    rng = self.rng
    arity = rng.randint(1, 3)
    named = self.on('named', 0.35)
    cols = NAMED_COLS[:arity] if named else ['col%d' % k for k in range(arity)]
    types = [('str' if self.on('strs', 0.3) else 'int') for _ in range(arity)]
    p = Pred('E%d' % i, cols, types, 'facts')
    nrows = rng.randint(1, self.max_rows)
    rows = [tuple(self.value(t) for t in types) for _ in range(nrows)]
    if 'dupfacts' in self.mask and nrows > 1 and rng.random() < 0.5:
      rows.append(rng.choice(rows))
    for row in rows:
      self.prog.rules.append({'head': p.name, 'args': [[c, L(v)] for c, v in zip(cols, row)], 'distinct': False,
                              'body': None})
    p.rows = rows
    self.prog.preds.append(p)
    return p

  # ---------------- bodies ----------------
  def gen_body(self, avail, depth=0):
    """Returns (prop, env) where env maps bound variable -> type."""
    rng = self.rng
    env = {}
    conj = []
    n_atoms = rng.randint(1, 2 if depth else 3)
    for _ in range(n_atoms):
      p = rng.choice(avail)
      args = []
      cols = list(zip(p.cols, p.types))
      if p.kind == 'functional' and rng.random() < 0.5:
        cols = [c for c in cols]   # include logica_value column explicitly
      for c, t in cols:
        r = rng.random()
        same = [v for v, vt in env.items() if vt == t]
        if same and r < 0.35:
          args.append([c, V(rng.choice(same))])          # join
        elif r < 0.42 and t in ('int', 'str') and getattr(p, 'rows', None):
          args.append([c, L(rng.choice(p.rows)[p.cols.index(c)])])   # constant selection (satisfiable)
        elif r < 0.55 and not p.positional():
          continue                                       # named column not mentioned
        elif r < 0.62 and t == 'int' and same and 'arith' in self.mask:
          args.append([c, OP('+', V(rng.choice(same)), L(1))])   # expression argument
        else:
          v = self.fresh()
          env[v] = t
          args.append([c, V(v)])
      if p.positional():
        # positional args cannot be skipped in the middle: keep a prefix
        keep = []
        for c, _ in zip(p.cols, p.types):
          m = [a for a in args if a[0] == c]
          if not m:
            break
          keep.append(m[0])
        args = keep
        if not args:
          v = self.fresh()
          env[v] = p.types[0]
          args = [[p.cols[0], V(v)]]
      conj.append({'atom': p.name, 'args': args})
    ints = [v for v, t in env.items() if t == 'int']
    strs = [v for v, t in env.items() if t == 'str']
    self._ints, self._strs = ints, strs
    # disjunction of atoms binding the same fresh variable in every branch
    if self.on('disj', 0.25) and depth == 0:
      t = rng.choice(['int', 'str'] if 'strs' in self.mask else ['int'])
      cands = [(p, c) for p in avail for c, ct in zip(p.cols, p.types) if ct == t]
      if len(cands) >= 1:
        v = self.fresh('u')
        alts = []
        for _ in range(rng.randint(2, 3)):
          p, c = rng.choice(cands)
          aa = []
          for c2, t2 in zip(p.cols, p.types):
            if c2 == c:
              aa.append([c2, V(v)])
            elif p.positional():
              aa.append([c2, V(self.fresh('n'))])
          alts.append({'atom': p.name, 'args': aa})
        conj.append({'or': alts})
        env[v] = t
        (ints if t == 'int' else strs).append(v)
    # typed assignments / tests built from recursive expressions
    for _ in range(rng.randint(0, 3)):
      r = rng.random()
      if r < 0.45 and self.on('assign', 0.9) and (ints or strs):
        t = rng.choice(['int', 'int', 'str'] if (strs and 'strs' in self.mask) else ['int'])
        if t == 'int' and not ints:
          continue
        v = self.fresh('y')
        conj.append({'eq': [V(v), self.expr(t, 2)]})
        env[v] = t
        (ints if t == 'int' else strs).append(v)
      elif r < 0.75 and self.on('cmp', 0.9) and ints:
        conj.append({'test': self.cond(2)})
      elif r < 0.85 and self.on('records', 0.9) and ints:
        rv = self.fresh('r')
        rexpr = self.rec_expr(2)
        if 'ite' in self.mask and rng.random() < 0.3:
          # multi-armed if mixing record literals and a record variable
          r0 = self.fresh('r')
          conj.append({'eq': [V(r0), self.rec_expr(0)]})
          arms = [[self.cond(1), self.rec_expr(0)], [self.cond(1), V(r0)]]
          rng.shuffle(arms)
          rexpr = {'if': arms, 'else': self.rec_expr(0) if rng.random() < 0.7 else V(r0)}
        conj.append({'eq': [V(rv), rexpr]})
        v = self.fresh('z')
        conj.append({'eq': [V(v), {'sub': V(rv), 'field': rng.choice(['p', 'q'])}]})
        env[v] = 'int'
        ints.append(v)
      elif self.on('lists', 0.9) and ints:
        lv = self.fresh('l')
        conj.append({'eq': [V(lv), self.list_expr(1)]})
        env[lv] = ('list', 'int')
        v = self.fresh('i')
        conj.append({'in': [V(v), V(lv)]})
        env[v] = 'int'
        ints.append(v)
    if getattr(self, 'inj', None) and ints and rng.random() < 0.6:
      v = self.fresh('j')
      t, m = self.inj_call(2)
      self._model_subst = getattr(self, '_model_subst', [])
      eq = {'eq': [V(v), t]}
      eq['$model'] = {'eq': [V(v), m]}
      conj.append(eq)
      env[v] = 'int'
      ints.append(v)
      self._prefer = v
    # in
    if self.on('in', 0.4):
      if ints and 'arith' in self.mask and rng.random() < 0.25:
        # a computed element tested against a list with repeated values: every occurrence counts
        xv = rng.choice(ints)
        vals = [rng.choice(INT_DOM) for _ in range(rng.randint(2, 4))]
        vals.append(rng.choice(vals))
        conj.append({'in': [OP(rng.choice(['+', '-', '*']), V(xv), L(rng.choice([0, 1, 2]))), L(vals)]})
      elif ints and rng.random() < 0.4:
        conj.append({'in': [V(rng.choice(ints)), L(sorted(rng.sample(INT_DOM, rng.randint(1, 3))) + ([rng.choice(INT_DOM)] if rng.random() < 0.3 else []))]})
      else:
        v = self.fresh('i')
        if rng.random() < 0.5 or not ints:
          conj.append({'in': [V(v), L([rng.choice(INT_DOM) for _ in range(rng.choice([0, 1, 2, 2, 3] if Gen.EMPTY_LISTS else [1, 2, 2, 3]))])]})
        else:
          conj.append({'in': [V(v), OP('Range', V(rng.choice(ints)))]})
        env[v] = 'int'
        ints.append(v)
    # functional call in expression
    funcs = [p for p in avail if p.kind == 'functional' and p.types[-1] == 'int']
    if self.on('functional', 0.5) and funcs:
      f = rng.choice(funcs)
      argexprs = []
      ok = True
      for c, t in zip(f.cols[:-1], f.types[:-1]):
        same = [v for v, vt in env.items() if vt == t and (t != 'int' or v in ints)]
        if same:
          argexprs.append([c, V(rng.choice(same))])
        elif t in ('int', 'str'):
          argexprs.append([c, L(self.value(t))])
        else:
          ok = False
      if ok:
        v = self.fresh('w')
        call = {'call': f.name, 'args': argexprs}
        conj.append({'eq': [V(v), OP('+', call, L(1)) if rng.random() < 0.5 else call]})
        env[v] = 'int'
        ints.append(v)
    # negation
    if self.on('neg', 0.35) and depth == 0:
      q = rng.choice(avail)
      nargs = []
      for c, t in zip(q.cols, q.types):
        same = [v for v, vt in env.items() if vt == t and v in ints + strs]
        if same and rng.random() < 0.7:
          nargs.append([c, V(rng.choice(same))])
        elif q.positional():
          nargs.append([c, V(self.fresh('n'))])
        # named: simply not mentioned
      if not nargs:
        nargs = [[q.cols[0], V(self.fresh('n'))]]
      neg = {'atom': q.name, 'args': nargs}
      if rng.random() < 0.3 and ints:
        neg = {'and': [neg, {'test': OP('>', V(rng.choice(ints)), L(rng.choice(INT_DOM)))}]}
      if rng.random() < 0.35:
        # nested negation: the inner one uses an outer (depth-0) variable and a variable of the outer negation
        q2 = rng.choice(avail)
        inner_args = []
        qtypes = dict(zip(q.cols, q.types))
        ntype = {a[1]['var']: qtypes[a[0]] for a in nargs if 'var' in a[1] and a[1]['var'].startswith('n')}
        for c, t in zip(q2.cols, q2.types):
          same = [v for v, vt in env.items() if vt == t and v in ints + strs]
          nvars = sorted(v for v, vt in ntype.items() if vt == t)     # only variables of the same type
          r2 = rng.random()
          if same and r2 < 0.5:
            inner_args.append([c, V(rng.choice(same))])
          elif nvars and r2 < 0.8:
            inner_args.append([c, V(rng.choice(nvars))])
          elif q2.positional():
            inner_args.append([c, V(self.fresh('n'))])
        if inner_args:
          neg = {'and': [neg if 'and' not in neg else neg, {'not': {'atom': q2.name, 'args': inner_args}}]}
      conj.append({'not': neg})
    # aggregating expression
    if self.on('aggexpr', 0.4) and depth == 0:
      q = rng.choice(avail)
      local = {}
      aargs = []
      for c, t in zip(q.cols, q.types):
        same = [v for v, vt in env.items() if vt == t and v in ints + strs]
        if same and rng.random() < 0.5:
          aargs.append([c, V(rng.choice(same))])
        else:
          lv = self.fresh('m')
          local[lv] = t
          aargs.append([c, V(lv)])
      lints = [v for v, t in local.items() if t == 'int']
      if lints or ints:
        op = rng.choice(['Sum', 'Min', 'Max', 'Count', 'List'] + (['Set'] if 'agg' in self.mask else []))
        src = lints + (ints if rng.random() < 0.3 else [])
        if not src or (ints and rng.random() < 0.25):
          src = ints          # aggregated value mentions outer variables only
        e = V(rng.choice(src))
        if rng.random() < 0.3 and lints and ints:
          e = OP('+', V(rng.choice(lints)), V(rng.choice(ints)))
        body = {'atom': q.name, 'args': aargs}
        if rng.random() < 0.3 and lints:
          body = {'and': [body, {'test': OP('<', V(rng.choice(lints)), L(rng.choice(INT_DOM)))}]}
        if self.on('nested_agg', 0.3) and lints:
          q2 = rng.choice(avail)
          a2 = []
          loc2 = []
          for c, t in zip(q2.cols, q2.types):
            cand = [v for v, vt in list(local.items()) + [(x, env[x]) for x in ints + strs] if vt == t]
            if cand and rng.random() < 0.5:
              a2.append([c, V(rng.choice(cand))])
            else:
              # deliberately reuse the *same spelling* of a local name in sibling combines
              lv = 'm_loc' if t == 'int' else 's_loc'
              loc2.append(lv)
              a2.append([c, V(lv)])
          if any(t == 'int' for t in q2.types) and 'm_loc' in loc2:
            inner = {'agg': rng.choice(['Sum', 'Max', 'Min']), 'e': V('m_loc'), 'body': {'atom': q2.name, 'args': a2}}
            vv = self.fresh('k')
            extra = [{'eq': [V(vv), inner]}]
            if rng.random() < 0.5:
              # a sibling combine spelling its local variable the same way and using the first one's value
              inner2 = {'agg': rng.choice(['Sum', 'Max', 'Min']), 'e': OP('+', V('m_loc'), V(vv)),
                        'body': {'in': [V('m_loc'), L([rng.choice(INT_DOM) for _ in range(rng.randint(1, 3))])]}}
              vv2 = self.fresh('k')
              extra.append({'eq': [V(vv2), inner2]})
              vv = vv2
            body = {'and': ([body] if 'and' not in body else list(body['and'])) + extra}
            if rng.random() < 0.6:
              e = OP('+', e, V(vv)) if op in ('Sum', 'Min', 'Max') else e
        v = self.fresh('g')
        conj.append({'eq': [V(v), {'agg': op, 'e': e, 'body': body}]})
        env[v] = 'int' if op in ('Sum', 'Min', 'Max', 'Count') else ('list', 'int')
        if env[v] == 'int':
          ints.append(v)
          self._prefer = v
          if rng.random() < 0.3:
            conj.append({'test': OP(rng.choice(['IsNull', 'IsNotNull']), V(v))} if rng.random() < 0.5 else
                        {'test': OP('>', V(v), L(rng.choice(INT_DOM)))})
        self.prog.features.add('aggexpr:' + op)
    # disjunction
    if self.on('disj', 0.3) and depth == 0 and ints:
      a = rng.choice(ints)
      alts = [{'test': OP('<', V(a), L(rng.choice(INT_DOM)))}, {'test': OP('>', V(a), L(rng.choice(INT_DOM)))}]
      if rng.random() < 0.4:
        alts.append({'and': [{'test': OP('==', V(a), L(rng.choice(INT_DOM)))}, {'test': OP('>=', V(rng.choice(ints)), L(0))}]})
      if rng.random() < 0.3:
        # nested disjunction
        alts[0] = {'and': [alts[0], {'or': [{'test': OP('!=', V(a), L(1))}, {'test': OP('==', V(a), L(1))}]}]}
      conj.append({'or': alts})
    return ({'and': conj} if len(conj) > 1 else conj[0]), env, ints, strs

  def int_expr(self, ints, env):
    self._ints = ints
    return self.expr('int', 1)

  def expr(self, t, depth):
    """Random expression of scalar type t over the bound variables (never null-producing at depth 0)."""
    rng = self.rng
    ints, strs = self._ints, self._strs
    if t == 'int':
      if depth <= 0 or not ints or rng.random() < 0.3:
        return V(rng.choice(ints)) if ints and rng.random() < 0.7 else L(rng.choice(INT_DOM))
      r = rng.random()
      if r < 0.35 and 'arith' in self.mask:
        return OP(rng.choice(['+', '-', '*']), self.expr('int', depth - 1), self.expr('int', depth - 1))
      if r < 0.42 and 'arith' in self.mask:
        return OP('%', self.expr('int', depth - 1), L(rng.choice([2, 3])))
      if r < 0.47 and 'arith' in self.mask:
        return OP('/', self.expr('int', depth - 1), L(rng.choice([1, 2, 3])))
      if r < 0.6 and 'ite' in self.mask:
        cases = [[self.cond(depth - 1), self.expr('int', depth - 1)] for _ in range(rng.randint(1, 2))]
        return {'if': cases, 'else': self.expr('int', depth - 1)}
      if r < 0.7 and 'lists' in self.mask:
        return OP('Size', self.list_expr(depth - 1))
      if r < 0.8 and 'records' in self.mask:
        return {'sub': self.rec_expr(depth - 1), 'field': rng.choice(['p', 'q'])}
      if r < 0.9 and 'arith' in self.mask:
        return OP(rng.choice(['Least', 'Greatest']), self.expr('int', depth - 1), self.expr('int', depth - 1))
      return OP('-', self.expr('int', depth - 1)) if 'arith' in self.mask else V(rng.choice(ints))
    if t == 'str':
      if depth <= 0 or rng.random() < 0.4:
        return V(rng.choice(strs)) if strs and rng.random() < 0.7 else L(rng.choice(STR_DOM))
      r = rng.random()
      if r < 0.5:
        return OP('++', self.expr('str', depth - 1), self.expr('str', depth - 1))
      if r < 0.7 and ints:
        return OP('ToString', self.expr('int', depth - 1))
      if 'ite' in self.mask and ints:
        return {'if': [[self.cond(depth - 1), self.expr('str', depth - 1)]], 'else': self.expr('str', depth - 1)}
      return L(rng.choice(STR_DOM))
    raise AssertionError(t)

  def cond(self, depth):
    rng = self.rng
    ints, strs = self._ints, self._strs
    r = rng.random()
    if depth > 0 and r < 0.2:
      return OP(rng.choice(['&&', '||']), self.cond(depth - 1), self.cond(depth - 1))
    if depth > 0 and r < 0.27:
      return OP('!', self.cond(depth - 1))
    if strs and r < 0.4 and 'strs' in self.mask:
      return OP(rng.choice(['==', '!=', '<', '>=']), self.expr('str', min(depth, 1)), self.expr('str', 0))
    return OP(rng.choice(['<', '<=', '>', '>=', '!=', '==']), self.expr('int', depth), self.expr('int', max(0, depth - 1)))

  def list_expr(self, depth):
    rng = self.rng
    r = rng.random()
    if r < 0.6 or depth <= 0:
      return {'list': [self.expr('int', depth) for _ in range(rng.randint(0 if Gen.EMPTY_LISTS else 1, 3))]}
    if r < 0.8:
      return OP('Range', OP('%', self.expr('int', depth - 1), L(4)))
    return OP('ArrayConcat', self.list_expr(depth - 1), self.list_expr(depth - 1))

  def rec_expr(self, depth):
    rng = self.rng
    if depth > 0 and 'ite' in self.mask and rng.random() < 0.45:
      cases = [[self.cond(depth - 1), self.rec_expr(0)] for _ in range(rng.randint(1, 2))]
      return {'if': cases, 'else': self.rec_expr(0)}
    return {'rec': [['p', self.expr('int', depth)], ['q', self.expr('int', max(0, depth - 1))]]}

  # ---------------- derived predicates ----------------
  def gen_derived(self, i, avail):
    rng = self.rng
    kind = 'concrete'
    r = rng.random()
    if self.on('agg', 0.3):
      kind = 'distinct'
    elif self.on('functional', 0.25):
      kind = 'functional'
    name = ('F%d' if kind == 'functional' else 'D%d') % i
    nrules = rng.randint(2, 3) if (self.on('multirule', 0.35) and kind != 'functional') else 1
    named = self.on('named', 0.3)
    # first rule fixes the signature
    rules = []
    sig = None
    for k in range(nrules):
      for _attempt in range(10):
        body, env, ints, strs = self.gen_body(avail)
        scal = [(v, t) for v, t in env.items() if t in ('int', 'str') and (v in ints or v in strs)]
        if sig is None:
          if not scal:
            continue
          arity = rng.randint(1, min(3, len(scal)))
          if kind == 'functional':
            arity = rng.randint(2, min(3, max(2, len(scal))))
            if len(scal) < 2:
              continue
          if kind == 'distinct' and not ints:
            continue
          chosen = rng.sample(scal, min(arity, len(scal)))
          pref = getattr(self, '_prefer', None)
          if pref and pref in env and env[pref] == 'int' and rng.random() < 0.7 and all(c[0] != pref for c in chosen):
            chosen[0] = (pref, 'int')
          self._prefer = None
          if kind == 'functional' and chosen[-1][1] != 'int':
            cands = [c for c in scal if c[1] == 'int']
            if not cands:
              continue
            chosen[-1] = rng.choice(cands)
          types = [t for _, t in chosen]
          cols = (NAMED_COLS[:len(chosen)] if named else ['col%d' % j for j in range(len(chosen))])
          if kind == 'functional':
            cols = cols[:-1] + ['logica_value']
          sig = (cols, types)
          args = []
          for (v, t), c in zip(chosen, cols):
            e = V(v)
            if t == 'int' and v in ints and self.on('headexpr', 0.25):
              e = OP('+', V(v), L(1))
            args.append([c, e])
          if kind == 'distinct':
            aggs = []
            for _ in range(rng.randint(1, 2)):
              op = rng.choice(['Sum', 'Min', 'Max', 'Count', 'List', 'Set', 'ArgMin', 'ArgMax'])
              src = rng.choice(ints)
              if op in ('ArgMin', 'ArgMax'):
                e = OP('->', V(rng.choice(ints)), V(src))
                ty = 'int'
              else:
                e = V(src) if rng.random() < 0.7 else OP('+', V(src), L(1))
                ty = 'int' if op in ('Sum', 'Min', 'Max', 'Count') else ('list', 'int')
              aggs.append((op, e, ty))
            self._anycols = {'ag%d' % j for j, (op, e, ty) in enumerate(aggs) if op in ('ArgMin', 'ArgMax')}
            for j, (op, e, ty) in enumerate(aggs):
              c = 'ag%d' % j
              sig[0].append(c)
              sig[1].append(ty)
              args.append([c, {'aggop': op, 'e': e}])
              self.prog.features.add('agg:' + op)
          rules.append({'head': name, 'args': args, 'distinct': kind == 'distinct', 'body': body})
          break
        else:
          # later rules must produce the same columns / types
          cols, types = sig
          args = []
          ok = True
          used = []
          plain_cols = [(c, t) for c, t in zip(cols, types) if not c.startswith('ag')]
          for c, t in plain_cols:
            cands = [v for v, vt in scal if vt == t]
            if not cands:
              ok = False
              break
            args.append([c, V(rng.choice(cands))])
          if not ok:
            continue
          if kind == 'distinct':
            if not ints:
              continue
            first = rules[0]['args']
            for c, x in first:
              if isinstance(x, dict) and 'aggop' in x:
                op = x['aggop']
                if op in ('ArgMin', 'ArgMax'):
                  e = OP('->', V(rng.choice(ints)), V(rng.choice(ints)))
                else:
                  e = V(rng.choice(ints))
                args.append([c, {'aggop': op, 'e': e}])
          rules.append({'head': name, 'args': args, 'distinct': kind == 'distinct', 'body': body})
          break
    if not rules:
      return None
    if kind == 'distinct' and len(rules) > 1:
      self.prog.features.add('multibody-agg')
    if len(rules) > 1:
      self.prog.features.add('multirule')
    p = Pred(name, list(sig[0]), list(sig[1]), kind)
    if kind == 'distinct':
      p.anycols = set(getattr(self, '_anycols', set()))
    self.prog.preds.append(p)
    self.prog.rules.extend(rules)
    return p

  def gen_injectibles(self):
    """Non-concrete (injectible-only) functional predicates; calls are hand-inlined in the model AST."""
    rng = self.rng
    self.inj = {}
    if 'injectible' not in self.mask:
      return
    for i in range(rng.randint(1, 3)):
      name = 'G%d' % i
      kind = rng.choice(['agg', 'arith', 'ite'])
      if kind == 'agg':
        value = {'agg': rng.choice(['Sum', 'Max', 'Min']), 'e': OP(rng.choice(['*', '+']), V('m_loc'), V('p0')),
                 'body': {'in': [V('m_loc'), L([rng.choice([1, 2, 3]) for _ in range(rng.randint(1, 3))])]}}
        params = ['p0']
      elif kind == 'arith':
        value = OP(rng.choice(['+', '*', '-']), V('p0'), L(rng.choice([1, 2, 3])))
        params = ['p0']
      else:
        value = {'if': [[OP('>', V('p0'), V('p1')), V('p0')]], 'else': OP('+', V('p1'), L(1))}
        params = ['p0', 'p1']
      self.inj[name] = (params, value)
      rule = {'head': name, 'args': [['col%d' % j, V(pn)] for j, pn in enumerate(params)] + [['logica_value', value]],
              'distinct': False, 'body': None}
      self.prog.extra_text.append(Printer().rule(rule))
      self.prog.features.add('injectible:' + kind)

  def inj_call(self, depth):
    """Returns (text-AST expression with calls, model-AST expression with the calls inlined by hand)."""
    rng = self.rng
    name = rng.choice(sorted(self.inj))
    params, value = self.inj[name]
    targs, margs = [], []
    for _ in params:
      if depth > 0 and rng.random() < 0.4:
        t, m = self.inj_call(depth - 1)
      else:
        t = m = self.expr('int', 0)
      targs.append(t)
      margs.append(m)
    call = {'call': name, 'args': [['col%d' % j, t] for j, t in enumerate(targs)]}
    self.vcount += 1
    inlined = subst(value, dict(zip(params, margs)), {'m_loc': 'm_inl%d' % self.vcount})
    return call, inlined

  def generate(self):
    rng = self.rng
    avail = []
    self.gen_injectibles()
    for i in range(rng.randint(*self.n_facts)):
      avail.append(self.gen_fact_pred(i))
    for i in range(rng.randint(*self.n_derived)):
      usable = [p for p in avail if all(t in ('int', 'str') for t in p.types)]
      p = self.gen_derived(i, usable)
      if p:
        avail.append(p)
    self.collect_features()
    return self.prog

  def collect_features(self):
    def walk(x):
      if isinstance(x, dict):
        for k in ('or', 'not', 'in', 'agg', 'if', 'rec', 'sub', 'list', 'call'):
          if k in x:
            self.prog.features.add(k)
        if 'op' in x:
          self.prog.features.add('op:' + x['op'])
        for v in x.values():
          walk(v)
      elif isinstance(x, list):
        for v in x:
          walk(v)
    for r in self.prog.rules:
      walk(r)
    for p in self.prog.preds:
      self.prog.features.add('kind:' + p.kind)
      if not p.positional():
        self.prog.features.add('named')


def subst(e, sub, rename):
  """Capture-free substitution of parameters in a (small) expression; `rename` renames local variables."""
  if isinstance(e, dict):
    if 'var' in e:
      if e['var'] in sub:
        return sub[e['var']]
      if e['var'] in rename:
        return {'var': rename[e['var']]}
      return e
    return {k: subst(v, sub, rename) for k, v in e.items()}
  if isinstance(e, list):
    return [subst(x, sub, rename) for x in e]
  return e


def model_view(x):
  """The AST the reference evaluator receives: `$model` alternatives replace their text-side node."""
  if isinstance(x, dict):
    if '$model' in x:
      return model_view(x['$model'])
    return {k: model_view(v) for k, v in x.items()}
  if isinstance(x, list):
    return [model_view(v) for v in x]
  return x


def canon_value(v, t):
  """Canonical form of a value returned by SQLite, given the column type."""
  if v is None:
    return None
  if isinstance(t, tuple) and t[0] in ('list', 'rec') and isinstance(v, str):
    try:
      return json.loads(v)
    except ValueError:
      return v
  if isinstance(v, float) and v == int(v):
    return int(v)
  return v


def canon_model_value(v):
  if isinstance(v, dict) and '$r' in v:
    return {k: canon_model_value(x) for k, x in v['$r']}
  if isinstance(v, list):
    return [canon_model_value(x) for x in v]
  return v
