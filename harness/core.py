"""Shared machinery of the /verif checks: Lean build + axiom audit, line-protocol driver client,
case accounting, violation / known-finding handling, evidence writer.

Run with /venv/bin/python (3.12). Stdlib only.
"""
import collections
import hashlib
import json
import os
import random
import re
import shutil
import subprocess
import sys
import tempfile
import time

VERIF = os.path.dirname(os.path.dirname(os.path.abspath(__file__)))
REPO = os.environ.get('LOGICA_REPO', '/repo')
LEAN_DIR = os.path.join(VERIF, 'lean')
DRIVER = os.path.join(LEAN_DIR, '.lake', 'build', 'bin', 'logica_model')
ALLOWED_AXIOMS = {'propext', 'Classical.choice', 'Quot.sound'}
FORBIDDEN_RE = re.compile(
    r'\bsorry\b|\badmit\b|^axiom |native_decide|bv_decide|implemented_by|\bunsafe |maxHeartbeats 0',
    re.M)

TRUSTED_BASE = [
    'Lean 4.33.0 kernel; axioms admitted: propext, Classical.choice, Quot.sound (audited by #print axioms each run)',
    'no sorry/admit/native_decide/bv_decide/own axioms (grep each run)',
    'hand-written Lean model tied to /repo by the correspondence harness in /verif/harness (differential runs on every check)',
    'CPython 3.12, SQLite 3.40.1 and the OS are modelled, not verified',
]


def repo_on_path():
  if REPO not in sys.path:
    sys.path.insert(0, REPO)


def canon(obj):
  return json.dumps(obj, sort_keys=True, ensure_ascii=False, default=str)


def scratch_dir(prefix='logica_verif_'):
  base = os.environ.get('VERIF_SCRATCH') or tempfile.gettempdir()
  return tempfile.mkdtemp(prefix=prefix, dir=base)


# ----------------------------------------------------------------------------------------------
# Lean side
# ----------------------------------------------------------------------------------------------

def run(cmd, cwd=None, timeout=3600, env=None, input=None):
  p = subprocess.run(cmd, cwd=cwd, stdout=subprocess.PIPE, stderr=subprocess.STDOUT,
                     timeout=timeout, env=env, input=input, text=True)
  return p.returncode, p.stdout


def registry():
  with open(os.path.join(LEAN_DIR, 'LogicaModel', 'Props', 'registry.json')) as f:
    return json.load(f)


_lake_lock = os.path.join(LEAN_DIR, '.verif_lake.lock')


class LakeLock:
  """Serialise lake invocations (several checks may run at once)."""

  def __enter__(self):
    import fcntl
    self.f = open(_lake_lock, 'w')
    fcntl.flock(self.f, fcntl.LOCK_EX)
    return self

  def __exit__(self, *a):
    import fcntl
    fcntl.flock(self.f, fcntl.LOCK_UN)
    self.f.close()


def lean_build(modules, exe=True):
  """lake build of the given modules (and the driver). Returns (ok, log)."""
  targets = list(modules) + (['logica_model'] if exe else [])
  with LakeLock():
    rc, out = run(['lake', 'build'] + targets, cwd=LEAN_DIR, timeout=3000)
  return rc == 0, out


def lean_forbidden_scan():
  """grep the whole Lean development for forbidden constructs (outside comments)."""
  hits = []
  for root, _, files in os.walk(LEAN_DIR):
    if '.lake' in root:
      continue
    for fn in files:
      if not fn.endswith('.lean'):
        continue
      p = os.path.join(root, fn)
      src = open(p, encoding='utf-8').read()
      # strip block comments and line comments
      src2 = re.sub(r'/-.*?-/', lambda m: '\n' * m.group(0).count('\n'), src, flags=re.S)
      src2 = re.sub(r'--[^\n]*', '', src2)
      src2 = re.sub(r'"(?:[^"\\\n]|\\.)*"', '""', src2)      # string literals are not code
      for m in FORBIDDEN_RE.finditer(src2):
        line = src2.count('\n', 0, m.start()) + 1
        hits.append('%s:%d:%s' % (os.path.relpath(p, LEAN_DIR), line, m.group(0).strip()))
  return hits


def lean_audit(pid, theorems, module):
  """#print axioms for every registered theorem. Returns dict theorem -> list of axioms or None if missing."""
  os.makedirs(os.path.join(LEAN_DIR, 'Audit'), exist_ok=True)
  path = os.path.join(LEAN_DIR, 'Audit', pid + '.lean')
  with open(path, 'w') as f:
    f.write('import %s\n' % module)
    for t in theorems:
      f.write('#print axioms %s\n' % t)
  with LakeLock():
    rc, out = run(['lake', 'env', 'lean', path], cwd=LEAN_DIR, timeout=1200)
  res = {}
  # messages: 'X' depends on axioms: [a, b]   |   'X' does not depend on any axioms
  flat = re.sub(r'\s+', ' ', out)
  for t in theorems:
    m = re.search(r"'%s' depends on axioms: \[([^\]]*)\]" % re.escape(t), flat)
    if m:
      res[t] = [a.strip() for a in m.group(1).split(',') if a.strip()]
      continue
    if re.search(r"'%s' does not depend on any axioms" % re.escape(t), flat):
      res[t] = []
      continue
    res[t] = None
  return res, out


class _Done:
  def __init__(self, returncode, stdout, stderr):
    self.returncode, self.stdout, self.stderr = returncode, stdout, stderr


def _big_stack():
  """The evaluator recurses on its fuel; give the driver process as much stack as the system allows."""
  import resource
  soft, hard = resource.getrlimit(resource.RLIMIT_STACK)
  want = 1 << 30
  try:
    resource.setrlimit(resource.RLIMIT_STACK, (want if hard == resource.RLIM_INFINITY else min(want, hard), hard))
  except (ValueError, OSError):
    pass


class Driver:
  """Client of the compiled Lean line-protocol driver."""

  def __init__(self):
    if not os.path.exists(DRIVER):
      raise RuntimeError('Lean driver not built: ' + DRIVER)

  def ask_many(self, reqs, timeout=None):
    """One answer per request. A request on which the driver process dies (stack overflow of the
    evaluator on a pathological input) is answered {'error': 'model-crash ...'} and the rest is retried."""
    out = []
    todo = list(reqs)
    timeout = timeout or int(os.environ.get('VERIF_DRIVER_TIMEOUT', '150')) + len(reqs) // 50
    while todo:
      data = '\n'.join(json.dumps(r, ensure_ascii=False) for r in todo) + '\n'
      proc = subprocess.Popen([DRIVER], stdin=subprocess.PIPE, stdout=subprocess.PIPE, stderr=subprocess.PIPE,
                              preexec_fn=_big_stack)
      try:
        so, se = proc.communicate(data.encode('utf-8'), timeout=timeout)
        p = _Done(proc.returncode, so, se)
      except subprocess.TimeoutExpired:
        proc.kill()
        so, se = proc.communicate()
        p = _Done(-9, so, b'timeout after %ds' % timeout)
      lines = p.stdout.decode('utf-8', 'replace').split('\n')
      if lines and lines[-1] == '':
        lines.pop()
      if p.returncode == 0:
        if len(lines) != len(todo):
          raise RuntimeError('driver returned %d lines for %d requests' % (len(lines), len(todo)))
        out += [json.loads(l) for l in lines]
        break
      good = []
      for l in lines[:len(todo)]:
        try:
          good.append(json.loads(l))
        except ValueError:
          break
      if len(good) >= len(todo):
        raise RuntimeError('driver failed: %s' % p.stderr.decode('utf-8', 'replace')[:2000])
      out += good
      out.append({'error': 'model-crash: ' + p.stderr.decode('utf-8', 'replace').strip()[:200]})
      todo = todo[len(good) + 1:]
    return out

  def ask(self, req):
    return self.ask_many([req])[0]

  def ask_parallel(self, reqs, procs=None):
    """Like ask_many, but spread over several driver processes (for expensive requests)."""
    procs = procs or int(os.environ.get('VERIF_PROCS', '16'))
    if len(reqs) < 2 * procs:
      chunks = [[r] for r in reqs]
    else:
      k = (len(reqs) + procs * 4 - 1) // (procs * 4)
      chunks = [reqs[i:i + k] for i in range(0, len(reqs), k)]
    outs = pmap(_ask_chunk, chunks, procs=procs, chunksize=1)
    return [x for c in outs for x in c]


def _ask_chunk(chunk):
  return Driver().ask_many(chunk)


class _Unused:
  pass


# ----------------------------------------------------------------------------------------------
# One check run
# ----------------------------------------------------------------------------------------------

# defects that surface through every oracle that compiles generated programs: recognised by their diagnostic
CROSS_CUTTING = [(r'circular dependency of (\x1b\[[0-9;]*m)?In', 'in-element-unified-with-its-list-source')]


class Check:

  def __init__(self, pid, tier, seed):
    self.pid = pid
    self.tier = tier
    self.seed = seed
    self.rng = random.Random((seed * 1000003) ^ int(hashlib.sha1(pid.encode()).hexdigest()[:8], 16))
    self.t0 = time.time()
    self.evaluations = 0
    self.distinct = set()
    self.features = collections.Counter()
    self.samples = []
    self.violations = []       # dicts: key, what, replay(obj)
    self.disagreements = []    # model vs implementation diffs (tie broken)
    self.traces_validated = 0
    self.corr_cases = collections.Counter()
    self.searching = False
    self.notes = []
    self.extra = {}
    self.obligations = []
    self.discharged = []
    self.broken = []           # names of theorems / build units that no longer check
    self.build_log = ''
    self._known = self._load_known()
    self.known_hits = collections.OrderedDict()

  # ---- budgets ----
  def budget(self, quick, thorough):
    n = thorough if self.tier == 'thorough' else quick
    if self.searching:
      n *= 3
    return n

  # ---- accounting ----
  def case(self, obj, nontrivial=True, features=()):
    """Register one explored case; obj must be canonicalisable."""
    self.evaluations += 1
    for f in features:
      self.features[f] += 1
    if nontrivial:
      h = hashlib.sha1(canon(obj).encode('utf-8', 'surrogatepass')).hexdigest()
      if h not in self.distinct:
        self.distinct.add(h)
        if len(self.samples) < 5:
          self.samples.append(obj)

  def corr(self, name, n=1):
    self.corr_cases[name] += n

  def corpus(self):
    """Regression corpus: minimised past failures and probes, replayed before the generated stream."""
    d = os.path.join(VERIF, 'corpus', self.pid)
    out = []
    if os.path.isdir(d):
      for fn in sorted(os.listdir(d)):
        if fn.endswith('.json'):
          with open(os.path.join(d, fn)) as f:
            obj = json.load(f)
          obj['_file'] = fn
          out.append(obj)
    return out

  # ---- results ----
  def _load_known(self):
    p = os.path.join(VERIF, 'known_findings.json')
    if not os.path.exists(p):
      return []
    with open(p) as f:
      data = json.load(f)
    return [e for e in data.get('findings', []) if e.get('property') == self.pid]

  def violation(self, key, what, replay):
    """A concrete input on which the real code violates the property."""
    for pat, canonical in CROSS_CUTTING:
      if re.search(pat, what):
        key = canonical       # one defect seen through the oracles of several properties keeps one key
    for e in self._known:
      if e['key'] == key:
        self.known_hits.setdefault(key, e)
        return
    for v in self.violations:
      if v['key'] == key:
        return
    self.violations.append({'key': key, 'what': what, 'replay': replay})

  def disagreement(self, name, inp, impl, model):
    """Model and implementation differ on inp (tie broken; not by itself a violation)."""
    if len(self.disagreements) < 50:
      self.disagreements.append({'correspondence': name, 'input': inp, 'impl': impl, 'model': model})
    else:
      self.disagreements.append(None)

  # ---- Lean obligations ----
  def lean(self):
    reg = registry().get(self.pid, {})
    module = reg.get('module', 'LogicaModel.Props.' + self.pid)
    theorems = reg.get('theorems', [])
    self.obligations = list(theorems)
    ok, log = lean_build([module])
    self.build_log = log[-4000:]
    if not ok:
      self.broken.append('lake build %s' % module)
      # which theorems survive? none can be audited if the module does not compile
      self.discharged = []
      self.broken.extend(theorems)
      return False
    hits = lean_forbidden_scan()
    if hits:
      self.broken.append('forbidden constructs: ' + '; '.join(hits[:10]))
    audit, out = lean_audit(self.pid, theorems, module)
    self.extra['axioms'] = {}
    for t in theorems:
      ax = audit.get(t)
      if ax is None:
        self.broken.append(t + ' (missing)')
        continue
      self.extra['axioms'][t] = ax
      bad = [a for a in ax if a not in ALLOWED_AXIOMS]
      if bad:
        self.broken.append(t + ' (axioms: %s)' % ','.join(bad))
        continue
      if not hits:
        self.discharged.append(t)
    if self.tier == 'thorough' and not self.broken:
      with LakeLock():
        rc, out = run(['lake', 'env', 'leanchecker', module], cwd=LEAN_DIR, timeout=3000)
      self.extra['leanchecker'] = 'ok' if rc == 0 else 'FAILED: ' + out[-500:]
      if rc != 0:
        self.broken.append('leanchecker ' + module)
    return not self.broken

  # ---- finish ----
  def finish(self, level='proof', rule='', assumptions=(), checker_cmd=None):
    wall = time.time() - self.t0
    lines = []
    rc = 0
    os.makedirs(os.path.join(VERIF, 'replays', self.pid), exist_ok=True)
    for key, e in self.known_hits.items():
      lines.append('KNOWN-FINDING: property=%s %s' % (self.pid, e.get('what', key)))
    n_viol = 0
    for i, v in enumerate(self.violations):
      path = os.path.join('replays', self.pid, 'violation_%d_%d.json' % (self.seed, i))
      with open(os.path.join(VERIF, path), 'w') as f:
        json.dump({'property': self.pid, 'key': v['key'], 'what': v['what'], 'replay': v['replay']},
                  f, indent=1, ensure_ascii=False, default=str)
      lines.append('VIOLATION property=%s replay=%s  # %s' % (self.pid, path, v['what'][:300].replace('\n', ' ')))
      n_viol += 1
      rc = 1
    real_dis = [d for d in self.disagreements if d]
    if (self.broken or self.disagreements) and not self.violations:
      path = os.path.join('replays', self.pid, 'unproved_%d.json' % self.seed)
      with open(os.path.join(VERIF, path), 'w') as f:
        json.dump({'property': self.pid,
                   'no_longer_checks': self.broken,
                   'correspondence_disagreements': real_dis[:20],
                   'n_disagreements': len(self.disagreements),
                   'build_log_tail': self.build_log},
                  f, indent=1, ensure_ascii=False, default=str)
      lines.append('VIOLATION property=%s replay=%s no-failing-input-found' % (self.pid, path))
      n_viol += 1
      rc = 1
    cov = {
        'obligations': len(self.obligations),
        'discharged': len(self.discharged),
        'checker_cmd': checker_cmd or ('cd lean && lake build LogicaModel.Props.%s && lake env lean Audit/%s.lean  (#print axioms per theorem)' % (self.pid, self.pid)),
        'trusted_base': TRUSTED_BASE + list(assumptions),
        'theorems': self.obligations,
        'broken': self.broken,
        'evaluations': self.evaluations,
        'distinct_nontrivial': len(self.distinct),
        'rule': rule,
        'samples': self.samples[:5] or ['(none)'],
        'features': dict(self.features.most_common(60)),
        'correspondence_cases': dict(self.corr_cases),
        'correspondence_disagreements': len(self.disagreements),
        'traces_validated_against_impl': self.traces_validated,
        'known_findings_hit': list(self.known_hits.keys()),
        'notes': self.notes,
    }
    cov.update(self.extra)
    ev = {
        'property_id': self.pid, 'tier': self.tier, 'seed': self.seed, 'level': level,
        'coverage': cov, 'assumptions': list(assumptions), 'wall_s': round(wall, 2),
        'violations': n_viol,
    }
    if getattr(self, 'debug_no_lean', False):
      # a debugging run without the Lean obligations is not evidence for a proof-level claim
      target = os.path.join(VERIF, 'replays', self.pid, 'debug_no_lean_evidence.json')
    else:
      os.makedirs(os.path.join(VERIF, 'evidence'), exist_ok=True)
      target = os.path.join(VERIF, 'evidence', self.pid + '.json')
    with open(target, 'w') as f:
      json.dump(ev, f, indent=1, ensure_ascii=False, default=str)
    for l in lines:
      print(l)
    print('%s tier=%s seed=%d evaluations=%d distinct=%d obligations=%d/%d disagreements=%d violations=%d known=%d wall=%.1fs' % (
        self.pid, self.tier, self.seed, self.evaluations, len(self.distinct), len(self.discharged),
        len(self.obligations), len(self.disagreements), n_viol, len(self.known_hits), wall))
    return rc


# ----------------------------------------------------------------------------------------------
# parallel map (fork pool; functions must be module-level and return picklable values)
# ----------------------------------------------------------------------------------------------

def pmap(func, items, procs=None, chunksize=None):
  items = list(items)
  if not items:
    return []
  procs = procs or int(os.environ.get('VERIF_PROCS', '16'))
  if procs <= 1 or len(items) < 8:
    return [func(x) for x in items]
  import multiprocessing as mp
  ctx = mp.get_context('fork')
  cs = chunksize or max(1, min(64, len(items) // (procs * 4)))
  with ctx.Pool(procs) as pool:
    return pool.map(func, items, chunksize=cs)
