"""Compiles a list of programs in this (fresh) process, in the given order, and prints what the compiler
produced for each (formatted SQL, export map, dependency edges). Used by C13 under different PYTHONHASHSEED
values and different histories.  stdin: JSON {"jobs": {id: {text, preds, import_root, user_flags}}, "order": [ids]}"""
import json
import os
import re
import sys

REPO = os.environ.get('LOGICA_REPO', '/repo')
sys.path.insert(0, REPO)
import io  # noqa: E402
import contextlib  # noqa: E402

from parser_py import parse  # noqa: E402
from compiler import universe  # noqa: E402

STOP_RE = re.compile(r'logical_stop_[0-9_.]+')


def mask(s):
  return STOP_RE.sub('logical_stop_<T>', s)


def compile_one(job, rules=None):
  out = {}
  try:
    if rules is None:
      rules = parse.ParseFile(job['text'], import_root=job.get('import_root'))['rule']
  except BaseException as e:  # noqa: BLE001
    return {'__parse__': {'error': type(e).__name__}}, None
  for p in job['preds']:
    try:
      prog = universe.LogicaProgram(rules, user_flags=job.get('user_flags') or {})
      sql = prog.FormattedPredicateSql(p)
      ex = prog.execution
      out[p] = {'sql': mask(sql),
                'exports': [[k, mask(v)] for k, v in ex.table_to_export_map.items()],
                'edges': sorted(map(list, ex.dependency_edges)),
                'data_edges': sorted(map(list, ex.data_dependency_edges)),
                'iterations': mask(json.dumps(ex.iterations, sort_keys=True, default=str))}
    except BaseException as e:  # noqa: BLE001
      out[p] = {'error': type(e).__name__, 'msg': mask(str(e))[:200]}
  return out, rules


def main():
  req = json.load(sys.stdin)
  res = {}
  with contextlib.redirect_stdout(io.StringIO()), contextlib.redirect_stderr(io.StringIO()):
    for jid in req['order']:
      job = req['jobs'][jid]
      out, rules = compile_one(job)
      if job.get('reuse') and rules is not None:
        again, _ = compile_one(job, rules=rules)
        out['__reuse_same__'] = (again == {k: v for k, v in out.items()})
      res.setdefault(jid, []).append(out)
  json.dump(res, sys.stdout)


if __name__ == '__main__':
  main()
