"""Correspondence for the verified conjunctive-query compiler (lean/LogicaModel/CQ.lean, C01).

Random conjunctive rules over raw tables a, b, c (so that FROM items are plain table names):
  (K1) the SELECT / FROM / WHERE the real compiler emits, parsed back, is literally `CQ.compile rule`
       (same FROM items in order, same WHERE equalities in the same order and orientation, same SELECT list);
  (K2) executing the real SQL on SQLite over random tables (with duplicate rows) returns the bag `CQ.denote`
       returns (this validates `CQ.evalSelect`, the model's semantics of that SQL shape, against the engine).
The theorem `compile_correct_partial` closes the triangle for every rule and every database.
"""
import json
import re
import sqlite3

import core
import realcode as R

TABLES = {'a': 2, 'b': 3, 'c': 1}


def gen_rule(rng, max_atoms=4):
  nat = rng.randint(1, max_atoms)
  nvars = rng.randint(1, 5)
  body = []
  for _ in range(nat):
    p = rng.choice(sorted(TABLES))
    args = []
    for _ in range(TABLES[p]):
      if rng.random() < 0.2:
        args.append({'const': rng.randint(0, 3)})
      else:
        args.append({'var': rng.randrange(nvars)})
    body.append({'pred': p, 'args': args})
  bound = sorted({t['var'] for a in body for t in a['args'] if 'var' in t})
  head = []
  for _ in range(rng.randint(1, 4)):
    if bound and rng.random() < 0.85:
      head.append({'var': rng.choice(bound)})
    else:
      head.append({'const': rng.randint(0, 9)})
  return {'head': head, 'body': body}


def term_text(t):
  return 'x%d' % t['var'] if 'var' in t else str(t['const'])


def rule_text(name, r):
  return '%s(%s) :- %s;' % (name, ', '.join(term_text(t) for t in r['head']),
                            ', '.join('%s(%s)' % (a['pred'], ', '.join(term_text(t) for t in a['args'])) for a in r['body']))


def gen_db(rng):
  db = {}
  for t, k in TABLES.items():
    rows = [[rng.randint(0, 3) for _ in range(k)] for _ in range(rng.randint(0, 5))]
    if rows and rng.random() < 0.5:
      rows.append(list(rng.choice(rows)))      # duplicate row
    db[t] = rows
  return db


SEL_RE = re.compile(r'^\s*SELECT\s+(.*?)\s+FROM\s+(.*?)(?:\s+WHERE\s+(.*?))?\s*;?\s*$', re.S)


def parse_expr(e, alias):
  e = e.strip()
  m = re.fullmatch(r'([A-Za-z_0-9]+)\.col(\d+)', e)
  if m:
    return [alias[m.group(1)], int(m.group(2))]
  if re.fullmatch(r'-?\d+', e):
    return int(e)
  raise ValueError('unexpected expression %r' % e)


def parse_select(sql):
  """The single-rule SELECT of the conjunctive fragment -> {'tables', 'conds', 'sel'} in the model's encoding."""
  m = SEL_RE.match(sql)
  if not m:
    raise ValueError('not a plain SELECT')
  sel_s, from_s, where_s = m.group(1), m.group(2), m.group(3)
  alias, tables = {}, []
  for i, item in enumerate(x.strip() for x in from_s.split(',')):
    mm = re.fullmatch(r'([A-Za-z_0-9]+)(?:\s+AS\s+([A-Za-z_0-9]+))?', item)
    if not mm:
      raise ValueError('unexpected FROM item %r' % item)
    tables.append(mm.group(1))
    alias[mm.group(2) or mm.group(1)] = i
  sel = []
  for i, item in enumerate(x.strip() for x in sel_s.split(',')):
    mm = re.fullmatch(r'(.*?)\s+AS\s+col(\d+)', item, re.S)
    if not mm or int(mm.group(2)) != i:
      raise ValueError('unexpected SELECT item %r' % item)
    sel.append(parse_expr(mm.group(1), alias))
  conds = []
  if where_s:
    for c in re.split(r'\s+AND\s+', where_s.strip()):
      mm = re.fullmatch(r'\((.*?) = (.*?)\)', c.strip())
      if not mm:
        raise ValueError('unexpected WHERE conjunct %r' % c)
      conds.append([parse_expr(mm.group(1), alias), parse_expr(mm.group(2), alias)])
  return {'tables': tables, 'conds': conds, 'sel': sel}


AGG_NAME = {'sum': 'Sum', 'min': 'Min', 'max': 'Max', 'count': 'Count'}


def agg_rule_text(name, r, op):
  """the last head term is aggregated: Q(k1, .., kn, v? Op= e) distinct :- body"""
  keys, val = r['head'][:-1], r['head'][-1]
  head = ', '.join([term_text(t) for t in keys] + ['v? %s= %s' % (AGG_NAME[op], term_text(val))])
  return '%s(%s) distinct :- %s;' % (name, head, ', '.join('%s(%s)' % (a['pred'], ', '.join(term_text(t) for t in a['args'])) for a in r['body']))


def job(j):
  """j = (rules, db[, aggregate op]) -> real observations"""
  rules, db = j[0], j[1]
  op = j[2] if len(j) > 2 else None
  if op:
    text = '@Engine("sqlite");\n' + '\n'.join(agg_rule_text('Q', r, op) for r in rules) + '\n'
  else:
    text = '@Engine("sqlite");\n' + '\n'.join(rule_text('Q', r) for r in rules) + '\n'
  c = R.compile_pred(text, 'Q')
  out = {'text': text, 'kind': c.kind, 'message': getattr(c, 'message', '')[:300]}
  if c.kind != 'ok':
    return out
  out['sql'] = c.main
  if len(rules) == 1 and not op:
    try:
      out['select'] = parse_select(c.main)
    except ValueError as e:
      out['select_error'] = str(e)
  con = sqlite3.connect(':memory:')
  try:
    for t, k in TABLES.items():
      con.execute('CREATE TABLE %s (%s)' % (t, ', '.join('col%d INTEGER' % i for i in range(k))))
      con.executemany('INSERT INTO %s VALUES (%s)' % (t, ', '.join('?' * k)), db[t])
    for s in [c.preamble] + c.defines:
      if s and s.strip():
        con.executescript(s)
    cur = con.execute(c.main)
    out['header'] = [d[0] for d in cur.description]
    out['rows'] = [list(r) for r in cur.fetchall()]
  except sqlite3.Error as e:
    out['kind'] = 'sql_error'
    out['message'] = str(e)
  finally:
    con.close()
  return out


def run(ck, n):
  cases = []
  for i in range(n):
    nr = 1 if ck.rng.random() < 0.7 else ck.rng.randint(2, 3)
    rules = [gen_rule(ck.rng) for _ in range(nr)]
    w = len(rules[0]['head'])
    for r in rules[1:]:          # same arity for all rules of the predicate
      r['head'] = (r['head'] + [{'const': 1}] * w)[:w]
    cases.append((rules, gen_db(ck.rng)))
  reals = core.pmap(job, cases)
  models = core.Driver().ask_many([{'op': 'cq', 'rules': rules, 'db': db} for rules, db in cases])
  for (rules, db), real, model in zip(cases, reals, models):
    rep = {'program': real['text'], 'tables': db, 'rules': rules}
    natoms = sum(len(r['body']) for r in rules)
    ck.case(['cq', rules, db], bool(model.get('denote')), ['cq:rules=%d' % len(rules), 'cq:atoms=%d' % min(natoms, 6)])
    if 'error' in model:
      ck.disagreement('cq-compile', rep, real.get('sql', '')[:300], model['error'])
      continue
    if real['kind'] != 'ok':
      ck.violation('c01:cq:%s' % real['kind'], 'conjunctive rule does not compile/run: %s %s' % (real['kind'], real['message'][:200]), rep)
      continue
    if len(rules) == 1:
      ck.corr('cq-select-structure')
      if 'select' not in real:
        ck.disagreement('cq-select-structure', rep, real.get('select_error'), model['selects'][0])
      elif real['select'] != model['selects'][0]:
        ck.disagreement('cq-select-structure', rep, real['select'], model['selects'][0])
    ck.corr('cq-denote-vs-sqlite')
    got = sorted(map(tuple, real['rows']))
    exp = sorted(map(tuple, model['denote']))
    if sorted(map(tuple, model['sql_rows'])) != exp:
      ck.disagreement('cq-model-internal', rep, model['sql_rows'], model['denote'])
    if got != exp or real['header'] != ['col%d' % i for i in range(len(rules[0]['head']))]:
      ck.violation('c01:cq:rows', 'conjunctive rule: SQLite returns %s (%s), the rule denotes %s' % (got[:4], real['header'], exp[:4]), rep)


def run_agg(ck, n):
  """aggregating rules of the conjunctive fragment (C02): SQLite's GROUP BY result vs CQ.denoteDistinct"""
  cases = []
  for i in range(n):
    nr = 1 if ck.rng.random() < 0.6 else 2
    rules = [gen_rule(ck.rng) for _ in range(nr)]
    w = ck.rng.randint(1, 3)
    for r in rules:
      bound = sorted({t['var'] for a in r['body'] for t in a['args'] if 'var' in t})
      r['head'] = (r['head'] + [{'const': 1}] * w)[:w]
      # the aggregated value is a variable where possible
      if bound:
        r['head'][-1] = {'var': ck.rng.choice(bound)}
    cases.append((rules, gen_db(ck.rng), ck.rng.choice(sorted(AGG_NAME))))
  reals = core.pmap(job, cases)
  models = core.Driver().ask_many([{'op': 'cq', 'rules': rules, 'db': db, 'agg': {'keys': len(rules[0]['head']) - 1, 'op': op}}
                                   for rules, db, op in cases])
  for (rules, db, op), real, model in zip(cases, reals, models):
    rep = {'program': real['text'], 'tables': db}
    ck.case(['cq-agg', rules, db, op], bool(model.get('group_denote')), ['cq-agg:' + op, 'cq-agg:rules=%d' % len(rules)])
    if 'error' in model:
      ck.disagreement('cq-aggregate', rep, real.get('sql', '')[:300], model['error'])
      continue
    if real['kind'] != 'ok':
      ck.violation('c02:cq:%s' % real['kind'], 'aggregating conjunctive rule does not compile/run: %s %s' % (real['kind'], real['message'][:200]), rep)
      continue
    ck.corr('cq-groupby-vs-sqlite')
    got = sorted(map(tuple, real['rows']))
    exp = sorted(map(tuple, model['group_denote']))
    if len(rules[0]['head']) == 1 and not exp:
      # no key columns and no solution: SQL answers one row holding null (0 for Count); the integer-valued
      # model has no null - this corner is decided by the Sem oracle and Agg.agg_empty_null
      ck.features['cq-agg:keyless-empty-skipped'] += 1
      continue
    if sorted(map(tuple, model['group_sql'])) != exp:
      ck.disagreement('cq-model-internal', rep, model['group_sql'], model['group_denote'])
    if got != exp:
      ck.violation('c02:cq:rows:%s' % op, 'aggregating rule (%s): SQLite returns %s, the rule denotes %s' % (op, got[:4], exp[:4]), rep)


# ---- arithmetic in heads, comparisons in bodies (CQ.xcompile) ----

def gen_expr(rng, bound, depth=2):
  if depth == 0 or rng.random() < 0.4:
    return {'var': rng.choice(bound)} if bound and rng.random() < 0.75 else {'const': rng.randint(0, 4)}
  return {'bin': [rng.choice(['+', '-', '*']), gen_expr(rng, bound, depth - 1), gen_expr(rng, bound, depth - 1)]}


def is_plain(e):
  return 'bin' not in e


def expr_text(e):
  if 'bin' in e:
    return '(%s %s %s)' % (expr_text(e['bin'][1]), e['bin'][0], expr_text(e['bin'][2]))
  return term_text(e)


def gen_xrule(rng):
  base = gen_rule(rng, max_atoms=3)
  bound = sorted({t['var'] for a in base['body'] for t in a['args'] if 'var' in t})
  head = [gen_expr(rng, bound) for _ in range(rng.randint(1, 3))]
  tests = []
  for _ in range(rng.randint(0, 3)):
    op = rng.choice(['<', '<=', '>', '>=', '!=', '=='])
    a, b = gen_expr(rng, bound), gen_expr(rng, bound)
    if op == '==' and is_plain(a):
      a = {'bin': ['+', a, {'const': 0}]}     # `x == e` with a plain variable on a side is a unification (the
    if op == '==' and is_plain(b):            # variable becomes the expression), not a comparison
      b = {'bin': ['+', b, {'const': 0}]}
    if a == b:
      continue          # `e == e` is dropped by the compiler as trivially true
    if 'const' in a and 'const' in b:
      a = {'bin': ['+', a, {'var': bound[0]}]} if bound else a
    tests.append([op, a, b])
  return {'head': head, 'body': base['body'], 'tests': tests}


def xrule_text(name, r):
  body = ['%s(%s)' % (a['pred'], ', '.join(term_text(t) for t in a['args'])) for a in r['body']]
  # comparisons are spread between the atoms: their position in the body must not matter
  for i, t in enumerate(r['tests']):
    body.insert(min(len(body), 1 + i), '%s %s %s' % (expr_text(t[1]), t[0], expr_text(t[2])))
  return '%s(%s) :- %s;' % (name, ', '.join(expr_text(e) for e in r['head']), ', '.join(body))


def strip_parens(e):
  e = e.strip()
  while e.startswith('(') and e.endswith(')'):
    depth = 0
    for i, ch in enumerate(e):
      depth += ch == '('
      depth -= ch == ')'
      if depth == 0 and i < len(e) - 1:
        return e
    e = e[1:-1].strip()
  return e


def parse_sexpr(e, alias):
  """((a.col0) + (1)) -> {'bin': ['+', [0, 0], 1]}"""
  e = strip_parens(e)
  depth = 0
  for i, ch in enumerate(e):
    depth += ch == '('
    depth -= ch == ')'
    if depth == 0 and ch in '+-*' and i > 0 and e[i - 1] == ' ' and i + 1 < len(e) and e[i + 1] == ' ':
      return {'bin': [ch, parse_sexpr(e[:i], alias), parse_sexpr(e[i + 1:], alias)]}
  return parse_expr(e, alias)


CMP_RE = re.compile(r'^(.*?) (<=|>=|!=|<|>|=) (.*)$', re.S)


def split_cmp(c):
  c = strip_parens(c)
  depth = 0
  for i, ch in enumerate(c):
    depth += ch == '('
    depth -= ch == ')'
    if depth == 0 and ch == ' ':
      m = re.match(r' (<=|>=|!=|<|>|=) ', c[i:])
      if m:
        return c[:i], m.group(1), c[i + len(m.group(0)):]
  raise ValueError('no comparison in %r' % c)


def parse_xselect(sql):
  m = SEL_RE.match(sql)
  if not m:
    raise ValueError('not a plain SELECT')
  sel_s, from_s, where_s = m.group(1), m.group(2), m.group(3)
  alias, tables = {}, []
  for i, item in enumerate(x.strip() for x in from_s.split(',')):
    mm = re.fullmatch(r'([A-Za-z_0-9]+)(?:\s+AS\s+([A-Za-z_0-9]+))?', item)
    if not mm:
      raise ValueError('unexpected FROM item %r' % item)
    tables.append(mm.group(1))
    alias[mm.group(2) or mm.group(1)] = i
  sel = []
  for i, item in enumerate(re.split(r',\n', sel_s)):
    mm = re.fullmatch(r'(.*?)\s+AS\s+col(\d+)', item.strip(), re.S)
    if not mm or int(mm.group(2)) != i:
      raise ValueError('unexpected SELECT item %r' % item)
    sel.append(parse_sexpr(mm.group(1), alias))
  tests, conds = [], []
  if where_s:
    for c in re.split(r'\s+AND\n', where_s.strip()):
      a, op, b = split_cmp(c)
      pa, pb = parse_sexpr(a, alias), parse_sexpr(b, alias)
      if op == '=' and isinstance(pa, list) and not isinstance(pb, dict):
        conds.append([pa, pb])
      else:
        tests.append([op, pa, pb])
  return {'tables': tables, 'tests': tests, 'conds': conds, 'sel': sel}


def xjob(j):
  r, db = j
  text = '@Engine("sqlite");\n' + xrule_text('Q', r) + '\n'
  c = R.compile_pred(text, 'Q')
  out = {'text': text, 'kind': c.kind, 'message': getattr(c, 'message', '')[:300]}
  if c.kind != 'ok':
    return out
  out['sql'] = c.main
  try:
    out['select'] = parse_xselect(c.main)
  except ValueError as e:
    out['select_error'] = str(e)
  con = sqlite3.connect(':memory:')
  try:
    for t, k in TABLES.items():
      con.execute('CREATE TABLE %s (%s)' % (t, ', '.join('col%d INTEGER' % i for i in range(k))))
      con.executemany('INSERT INTO %s VALUES (%s)' % (t, ', '.join('?' * k)), db[t])
    cur = con.execute(c.main)
    out['rows'] = [list(r_) for r_ in cur.fetchall()]
  except sqlite3.Error as e:
    out['kind'] = 'sql_error'
    out['message'] = str(e)
  finally:
    con.close()
  return out


def run_x(ck, n):
  cases = [(gen_xrule(ck.rng), gen_db(ck.rng)) for _ in range(n)]
  reals = core.pmap(xjob, cases)
  models = core.Driver().ask_many([{'op': 'cqx', 'rule': r, 'db': db} for r, db in cases])
  for (r, db), real, model in zip(cases, reals, models):
    rep = {'program': real['text'], 'tables': db, 'rule': r}
    ck.case(['cqx', r, db], bool(model.get('denote')), ['cqx:tests=%d' % len(r['tests']), 'cqx:atoms=%d' % len(r['body'])])
    if 'error' in model:
      ck.disagreement('cqx-compile', rep, real.get('sql', '')[:300], model['error'])
      continue
    if real['kind'] != 'ok':
      ck.violation('c01:cqx:%s' % real['kind'], 'rule with arithmetic / comparisons does not compile/run: %s %s' % (real['kind'], real['message'][:200]), rep)
      continue
    ck.corr('cqx-select-structure')
    if 'select' not in real:
      ck.disagreement('cqx-select-structure', rep, real.get('select_error'), model['select'])
    elif real['select'] != model['select']:
      # an `==` comparison is emitted among the equalities of the atoms (in body order), not with the other
      # comparisons: with one present the WHERE clause is compared as a set of conjuncts
      def conj(sel):
        return sorted(json.dumps(x, sort_keys=True) for x in sel['tests'] + [['=', a, b] for a, b in sel['conds']])
      same = (any(t[0] == '==' for t in r['tests']) and conj(real['select']) == conj(model['select']) and
              real['select']['tables'] == model['select']['tables'] and real['select']['sel'] == model['select']['sel'])
      if not same:
        ck.disagreement('cqx-select-structure', rep, real['select'], model['select'])
    ck.corr('cqx-denote-vs-sqlite')
    got = sorted(map(tuple, real['rows']))
    exp = sorted(map(tuple, model['denote']))
    if sorted(map(tuple, model['sql_rows'])) != exp:
      ck.disagreement('cq-model-internal', rep, model['sql_rows'], model['denote'])
    if got != exp:
      ck.violation('c01:cqx:rows', 'rule with arithmetic / comparisons: SQLite returns %s, the rule denotes %s' % (got[:4], exp[:4]), rep)
