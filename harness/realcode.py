"""Runners for the real code of /repo (in-process): parse, compile, execute on SQLite.

All functions import /repo's modules freshly relative to core.REPO; diagnostics are classified into
the four documented classes, everything else is 'internal'.
"""
import contextlib
import io
import json
import os
import sys

import core

core.repo_on_path()

from parser_py import parse  # noqa: E402
from compiler import universe  # noqa: E402
from compiler import rule_translate  # noqa: E402
from compiler import functors  # noqa: E402
from compiler import expr_translate  # noqa: E402
from compiler import dialects  # noqa: E402
from common import sqlite3_logica  # noqa: E402
from type_inference.research import infer  # noqa: E402

DIAG_CLASSES = (
    (parse.ParsingException, 'parsing'),
    (rule_translate.RuleCompileException, 'rule_compile'),
    (functors.FunctorError, 'functor'),
    (infer.TypeErrorCaughtException, 'type'),
)


class Outcome:
  """Result of a compile / run: kind in ok|parsing|rule_compile|functor|type|internal|sql_error."""

  def __init__(self, kind, **kw):
    self.kind = kind
    self.__dict__.update(kw)

  def __repr__(self):
    return 'Outcome(%s)' % ', '.join('%s=%r' % kv for kv in self.__dict__.items())


def classify(e):
  for cls, name in DIAG_CLASSES:
    if isinstance(e, cls):
      return name
  return 'internal'


def diag_text(e):
  parts = [str(e)]
  for a in ('rule_str', 'location', 'functor_name', 'message'):
    v = getattr(e, a, None)
    if v is not None:
      parts.append(str(v))
  return '\n'.join(parts)


@contextlib.contextmanager
def quiet():
  old_out, old_err = sys.stdout, sys.stderr
  sys.stdout, sys.stderr = io.StringIO(), io.StringIO()
  try:
    yield
  finally:
    sys.stdout, sys.stderr = old_out, old_err


def parse_text(text, import_root=None):
  with quiet():
    return parse.ParseFile(text, import_root=import_root)['rule']


def compile_pred(text, pred, user_flags=None, import_root=None, rules=None):  # noqa: E302
  """Returns Outcome(ok, sql=formatted, preamble, defines, main, program) or a diagnostic outcome."""
  try:
    with quiet():
      if rules is None:
        rules = parse.ParseFile(text, import_root=import_root)['rule']
      prog = universe.LogicaProgram(rules, user_flags=user_flags or {})
      sql = prog.FormattedPredicateSql(pred)
      ex = prog.execution
    return Outcome('ok', sql=sql, preamble=ex.preamble, defines=list(ex.defines_and_exports),
                   main=ex.main_predicate_sql, program=prog)
  except Exception as e:  # noqa: BLE001
    return Outcome(classify(e), error=e, message=diag_text(e), exc_type=type(e).__name__)
  except SystemExit as e:  # some paths call sys.exit
    return Outcome('internal', error=e, message='SystemExit', exc_type='SystemExit')


MAX_ROWS = 20000


def run_sqlite(text, pred, user_flags=None, import_root=None, database=':memory:', rules=None):
  """The `logica.py <file> run <pred>` path on SQLite. Outcome(ok, header, rows, sql...)."""
  c = compile_pred(text, pred, user_flags, import_root, rules=rules)
  if c.kind != 'ok':
    return c
  try:
    con = sqlite3_logica.SqliteConnect(database)
    # capacity guard of the harness: a generated program whose plan explodes is abandoned, not judged
    budget = [int(os.environ.get('VERIF_SQLITE_STEPS', '400'))]

    def tick():
      budget[0] -= 1
      return 1 if budget[0] < 0 else 0
    con.set_progress_handler(tick, 1000000)
    cur = con.cursor()
    for s in [c.preamble] + c.defines:
      cur.executescript(s)
    cur.execute(c.main)
    rows = cur.fetchmany(MAX_ROWS + 1)
    if len(rows) > MAX_ROWS:
      con.close()
      return Outcome('too_big', message='more than %d rows' % MAX_ROWS, sql=c.sql)
    header = [d[0] for d in cur.description]
    con.commit()
    con.close()
  except Exception as e:  # noqa: BLE001
    if 'interrupted' in str(e):
      return Outcome('too_big', message='SQLite step budget of the harness exhausted', sql=c.sql)
    if 'parser stack overflow' in str(e) or 'at most 64 tables' in str(e):
      # capacity limits of the engine (nesting depth of the statement, width of a join), not properties of the text
      return Outcome('too_big', message='SQLite capacity limit: %s' % e, sql=c.sql)
    return Outcome('sql_error', error=e, message='%s: %s' % (type(e).__name__, e), sql=c.sql)
  return Outcome('ok', header=header, rows=[list(r) for r in rows], sql=c.sql, defines=c.defines,
                 main=c.main, preamble=c.preamble, program=c.program)


def ql_for(dialect_name, flag_values=None):
  """A QL instance for direct calls of StrLiteral etc."""
  d = dialects.Get(dialect_name)

  class _Exc(Exception):
    pass
  return expr_translate.QL({}, None, _Exc, flag_values or {}, dialect=d)


ENGINES = ['sqlite', 'duckdb', 'psql', 'bigquery', 'trino', 'presto', 'clickhouse', 'databricks']
ENGINE_DIALECT_NAME = {
    'sqlite': 'SqLite', 'duckdb': 'DuckDB', 'psql': 'PostgreSQL', 'bigquery': 'BigQuery',
    'trino': 'Trino', 'presto': 'Presto', 'clickhouse': 'ClickHouse', 'databricks': 'Databricks'}


def logica_str(s, rng=None):
  """Write s as a Logica string literal: returns list of admissible literal texts."""
  forms = []
  if '"' not in s and '\n' not in s:
    forms.append('"' + s + '"')
  # python-escaped single-quote form
  out = []
  for ch in s:
    if ch == '\\':
      out.append('\\\\')
    elif ch == "'":
      out.append("\\'")
    elif ch == '\n':
      out.append('\\n')
    elif ch == '\t':
      out.append('\\t')
    elif ch == '\r':
      out.append('\\r')
    elif ord(ch) < 32 or ord(ch) == 127:
      out.append('\\x%02x' % ord(ch))
    else:
      out.append(ch)
  forms.append("'" + ''.join(out) + "'")
  if '"""' not in s and not s.endswith('"') and '\\' not in s:
    forms.append('"""' + s + '"""')
  return forms


# ---------------- picklable job wrappers (for core.pmap) ----------------

def _plain(o):
  d = {'kind': o.kind}
  for k in ('header', 'rows', 'sql', 'message', 'exc_type', 'defines', 'main', 'preamble'):
    if hasattr(o, k):
      d[k] = getattr(o, k)
  return d


def job_run_sqlite(job):
  """job = (text, pred, user_flags or None[, import_root])"""
  text, pred, uf = job[0], job[1], job[2]
  root = job[3] if len(job) > 3 else None
  return _plain(run_sqlite(text, pred, uf, root))


def job_compile(job):
  text, pred, uf = job[0], job[1], job[2]
  root = job[3] if len(job) > 3 else None
  return _plain(compile_pred(text, pred, uf, root))


# ---------------- C++ parser (shared object rebuilt from the current parser_cpp/logica_parse.cpp) ----------------

def cpp_cache_home():
  """A verif-owned cache directory keyed by the *content* of the C++ source, so that the shared object is
  rebuilt whenever the source changes and never reused across different sources."""
  import hashlib
  src = os.path.join(core.REPO, 'parser_cpp', 'logica_parse.cpp')
  h = hashlib.sha256(open(src, 'rb').read()).hexdigest()[:16]
  root = os.path.join(core.VERIF, '.cache_cpp')
  d = os.path.join(root, h)
  os.makedirs(d, exist_ok=True)
  # keep the cache small: drop versions of other sources, but never one that a concurrent run may be using
  import shutil
  import time
  for other in os.listdir(root):
    po = os.path.join(root, other)
    try:
      if other != h and time.time() - os.path.getmtime(po) > 6 * 3600:
        shutil.rmtree(po, ignore_errors=True)
    except OSError:
      pass
  try:
    os.utime(d, None)
  except OSError:
    pass
  return d


@contextlib.contextmanager
def parser_mode(mode):
  """mode 'PY' or 'CPP' for parse.ParseFile in this process."""
  old = os.environ.get('LOGICA_PARSER')
  old_x = os.environ.get('XDG_CACHE_HOME')
  os.environ['LOGICA_PARSER'] = mode
  if mode == 'CPP':
    os.environ['XDG_CACHE_HOME'] = cpp_cache_home()
  try:
    yield
  finally:
    if old is None:
      os.environ.pop('LOGICA_PARSER', None)
    else:
      os.environ['LOGICA_PARSER'] = old
    if old_x is None:
      os.environ.pop('XDG_CACHE_HOME', None)
    else:
      os.environ['XDG_CACHE_HOME'] = old_x


def ensure_cpp_built():
  """Build (once, before forking workers) the shared object for the current source. Returns error text or None."""
  try:
    with parser_mode('CPP'):
      with quiet():
        parse.ParseFile('A(1);')
    return None
  except Exception as e:  # noqa: BLE001
    return '%s: %s' % (type(e).__name__, str(e)[:500])
