"""Parser-level machinery shared by C06 (PY vs CPP parsers) and C15 (layout / comments / parentheses):
tokeniser of Logica text, noise insertion at token boundaries, single-token corruptions, canonical rule
trees modulo heritage, span checks."""
import json
import re

import core
import realcode as R

TOKEN_RE = re.compile(r'''
    """(?:(?!""")[\s\S])*"""  |   # """multi-line string"""
    "(?:[^"\n])*"            |   # "string"
    '(?:[^'\\\n]|\\.)*'      |   # 'string'
    [A-Za-z_@`][A-Za-z_0-9.`]* |   # identifiers / predicates / keywords / dotted paths
    \d+(?:\.\d+)?            |   # numbers
    :-|:=|==|<=|>=|!=|\+\+|&&|\|\||->|=>|\+=|\.\.  |
    [-+*/%<>=!~|,;:(){}\[\]?.]
''', re.X)

KEYWORDS = {'in', 'is', 'not', 'as', 'if', 'then', 'else', 'combine', 'distinct', 'import', 'order_by', 'limit', 'null'}


def tokenize(text):
  """-> list of (token, start, end); whitespace between tokens is dropped."""
  out = []
  pos = 0
  while pos < len(text):
    if text[pos].isspace():
      pos += 1
      continue
    m = TOKEN_RE.match(text, pos)
    if not m:
      out.append((text[pos], pos, pos + 1))
      pos += 1
      continue
    out.append((m.group(0), m.start(), m.end()))
    pos = m.end()
  return out


def boundaries(text):
  """Positions where layout noise may be inserted: between two tokens that are already separated by white
  space or where both neighbours are symbolic (no new adjacency of identifier characters is created and no
  token is split). Returns list of (pos, left token, right token)."""
  toks = tokenize(text)
  out = []
  for (a, s1, e1), (b, s2, e2) in zip(toks, toks[1:]):
    out.append((e1, a, b, s2))
  return out


NOISES = [' ', '  ', '\n', '\n  ', ' \n', '\t', ' /* c */ ', '/**/', ' # note\n', '\n# full line comment ; , ( "\n',
          ' /* ; , ) ] } " :- */ ', '\n\n']


def random_comment(rng):
  alpha = ['/', '*', '#', ' ', 'a', '"', "'", ';', ',', ')', ':-', '\n', '//', '**', '/ ', ' /', '\\']
  body = ''.join(rng.choice(alpha) for _ in range(rng.randint(0, 8)))
  if rng.random() < 0.6:
    body = body.replace('*/', '* /')
    return '/*' + body + '*/'
  return '#' + body.replace('\n', ' ') + '\n'


def add_noise(text, rng, n_sites, allow_keyword_adjacent=False, kinds=None):
  """Insert layout noise at up to n_sites token boundaries. Boundaries inside a call `Name(` are kept
  intact (the grammar forbids a space between a predicate name and its parenthesis), and so are unary
  minus / number and `?` / `Op=` groups."""
  bs = boundaries(text)
  ok = []
  for pos, a, b, nxt in bs:
    if b == '(' and re.match(r'^[A-Za-z_@`]', a or '') and a not in KEYWORDS:
      continue                      # Name( : no space allowed
    if b == '[' and (re.match(r'^[A-Za-z_0-9]', a or '') or a in (')', ']')) and a not in KEYWORDS:
      continue                      # l[i] : array subscript glued to the array expression
    if b == '{' and re.match(r'^[A-Za-z_]', a or '') and a not in KEYWORDS:
      continue                      # Aggr{ : aggregating operator glued to its brace
    if a in ('-', '!', '~') :
      continue                      # unary operators stay glued
    if b in ('=',) and re.match(r'^[A-Za-z+]', a or ''):
      continue                      # Op= aggregating assignment
    if a == '?' or b == '?':
      continue
    if a == '.' or b == '.':
      continue                      # record subscripts / dotted paths
    if a == '..' or b == '..':
      continue
    if b == ':' and re.match(r'^[A-Za-z_0-9]', a or ''):
      continue                      # field: (keep the field name glued to its colon)
    if not allow_keyword_adjacent and (a in KEYWORDS or b in KEYWORDS):
      continue
    if pos != nxt and '\n' not in text[pos:nxt] and False:
      continue
    ok.append((pos, a, b))
  if not ok:
    return text, []
  sites = sorted(rng.sample(ok, min(n_sites, len(ok))), reverse=True)
  used = []
  for pos, a, b in sites:
    nz = rng.choice(kinds or NOISES) if rng.random() < 0.7 else ' ' + random_comment(rng) + ' '
    text = text[:pos] + nz + text[pos:]
    used.append((a, nz, b))
  return text, used


def corrupt(text, rng):
  """Single-token corruption: delete, duplicate, replace by another token, swap neighbours."""
  toks = tokenize(text)
  # never touch the engine annotation
  cand = [i for i, (t, s, e) in enumerate(toks) if s > text.find('\n')]
  if not cand:
    return text, 'none'
  i = rng.choice(cand)
  t, s, e = toks[i]
  kind = rng.choice(['delete', 'duplicate', 'replace', 'swap'])
  if kind == 'delete':
    return text[:s] + text[e:], 'delete:' + t
  if kind == 'duplicate':
    return text[:e] + t + text[e:], 'duplicate:' + t
  if kind == 'replace':
    r = rng.choice(['(', ')', '[', ']', '{', '}', ',', ';', ':-', '|', '"', "'", ':', '==', 'in', '~', '=', 'x', 'P'])
    return text[:s] + r + text[e:], 'replace:%s->%s' % (t, r)
  if i + 1 < len(toks):
    t2, s2, e2 = toks[i + 1]
    return text[:s] + t2 + text[e:s2] + t + text[e2:], 'swap:%s<->%s' % (t, t2)
  return text[:s] + text[e:], 'delete:' + t


# ---------------- canonical trees ----------------

def strip_heritage(x):
  if isinstance(x, dict):
    return {k: strip_heritage(v) for k, v in x.items() if k not in ('expression_heritage', 'full_text')}
  if isinstance(x, list):
    return [strip_heritage(v) for v in x]
  if isinstance(x, str):
    return str(x)
  return x


def span_texts(x):
  """the tree with every span kept as the plain text it stands for (full_text of rules, expression_heritage of
  nodes): what a span *says* must not depend on the parser"""
  if isinstance(x, dict):
    return {k: span_texts(v) for k, v in x.items()}
  if isinstance(x, list):
    return [span_texts(v) for v in x]
  if isinstance(x, str):
    return str(x)
  return x


def span_errors(x, out, path=''):
  """Every heritage-aware string must literally be the text at its span of the statement it belongs to."""
  HAS = R.parse.HeritageAwareString
  if isinstance(x, dict):
    for k, v in x.items():
      span_errors(v, out, path + '/' + str(k))
  elif isinstance(x, list):
    for i, v in enumerate(x):
      span_errors(v, out, path + '/%d' % i)
  elif isinstance(x, HAS):
    her = getattr(x, 'heritage', None)
    if her is not None:
      seg = str(her)[x.start:x.stop]
      if seg != str(x):
        out.append((path, str(x)[:60], seg[:60]))


def parse_job(job):
  """job = (text, mode) -> {'ok': canonical json, 'spans': [...]} or {'error': kind}"""
  text, mode = job
  with R.parser_mode(mode):
    try:
      with R.quiet():
        rules = R.parse.ParseFile(text)['rule']
    except Exception as e:  # noqa: BLE001
      return {'error': R.classify(e), 'exc': type(e).__name__, 'msg': str(e)[:200]}
  spans = []
  span_errors(rules, spans)
  return {'ok': json.dumps(strip_heritage(rules), sort_keys=True, default=str), 'spans': spans[:5],
          'texts': json.dumps(span_texts(rules), sort_keys=True, default=str)}


def first_diff(a, b):
  """Short description of where two canonical json trees differ."""
  try:
    x, y = json.loads(a), json.loads(b)
  except Exception:  # noqa: BLE001
    return 'unparsable'

  def rec(p, q, path):
    if type(p) != type(q):
      return '%s: %r vs %r' % (path, str(p)[:80], str(q)[:80])
    if isinstance(p, dict):
      for k in sorted(set(p) | set(q)):
        if k not in p or k not in q:
          return '%s/%s: only on one side' % (path, k)
        d = rec(p[k], q[k], path + '/' + k)
        if d:
          return d
      return None
    if isinstance(p, list):
      if len(p) != len(q):
        return '%s: %d vs %d elements' % (path, len(p), len(q))
      for i, (u, v) in enumerate(zip(p, q)):
        d = rec(u, v, path + '/%d' % i)
        if d:
          return d
      return None
    if p != q:
      return '%s: %r vs %r' % (path, str(p)[:80], str(q)[:80])
    return None
  return rec(x, y, '') or 'equal'
