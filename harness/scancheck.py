"""Correspondence for lean/LogicaModel/Scan.lean (C06, C15).

(K1) parse.Traverse(s) — every (idx, state, status) it yields — and parse.RemoveComments(s) against
     Scan.Py.traverse / Scan.Py.removeComments, on program texts, their noisy and corrupted variants, and
     on random strings over the scanner's special characters;
(K2) the C++ Traverser is not reachable through the C ABI; its model Scan.Cpp is tied through the first thing
     ParseFile does with a file: when the model's RemoveComments raises, the real C++ parser must raise the same
     error, and when it does not, the real C++ parser must not raise it.
"""
import core
import realcode as R

ALPHABET = list('()[]{}"\'`#/*\\\n a;,:3|\t ') + ['"""', '/*', '*/', '# c\n', '""', "\\'", 'x == "a"', '\x01']


def random_string(rng):
  return ''.join(rng.choice(ALPHABET) for _ in range(rng.randint(0, 14)))


def real_py(s):
  evs = []
  try:
    for idx, state, status in R.parse.Traverse(s):
      evs.append([idx, state, status])
  except Exception as e:  # noqa: BLE001
    evs.append(['exception', type(e).__name__, str(e)[:80]])
  try:
    rc = {'ok': R.parse.RemoveComments(s)}
  except R.parse.ParsingException as e:
    msg = str(e)
    rc = {'error': 'EOL in string' if 'End of line in string' in msg else 'Unmatched' if 'matches nothing' in msg else msg[:60]}
  return {'events': evs, 'rc': rc}


def real_cpp_job(s):
  """outcome class of the real C++ parser on the file s with respect to the two scanner errors"""
  with R.parser_mode('CPP'):
    try:
      with R.quiet():
        R.parse.ParseFile(s)
      return 'no-scanner-error'
    except R.parse.ParsingException as e:
      msg = str(e) + ' ' + getattr(e, '_formatted_error_text', '')
      if 'End of line in string' in msg:
        return 'EOL in string'
      if 'matches nothing' in msg:
        return 'Unmatched'
      return 'no-scanner-error'
    except Exception as e:  # noqa: BLE001
      return 'exception:' + type(e).__name__


def run(ck, texts, n_random, cpp=True):
  cases = [t for t in texts] + [random_string(ck.rng) for _ in range(n_random)]
  cases = [t for t in cases if len(t) < 4000]
  models = core.Driver().ask_many([{'op': 'scan', 'text': t} for t in cases])
  cpps = core.pmap(real_cpp_job, cases) if cpp else [None] * len(cases)
  for t, m, cppr in zip(cases, models, cpps):
    real = real_py(t)
    ck.corr('traverse-vs-model')
    kind = 'ok' if 'ok' in real['rc'] else real['rc']['error']
    ck.case(['scan', t], True, ['scan:' + kind])
    inp = {'text': t}
    if 'error' in m and 'py' not in m:
      ck.disagreement('traverse-vs-model', inp, real['events'][:5], m)
      continue
    if real['events'] != m['py']:
      k = next((i for i, (a, b) in enumerate(zip(real['events'], m['py'])) if a != b), min(len(real['events']), len(m['py'])))
      ck.disagreement('traverse-vs-model', inp, real['events'][k:k + 2], m['py'][k:k + 2])
    if not any(ch.isspace() and ch not in ' \n\t\r\x0b\x0c' for ch in t):
      ck.corr('stripspaces-vs-model')
      if str(R.parse.StripSpaces(t)) != m['strip_spaces']:
        ck.disagreement('stripspaces-vs-model', inp, str(R.parse.StripSpaces(t)), m['strip_spaces'])
    mrc = {k: v for k, v in m['py_rc'].items() if k != 'idx'}
    if real['rc'] != mrc:
      ck.disagreement('removecomments-vs-model', inp, real['rc'], mrc)
    if cpp:
      ck.corr('cpp-scanner-errors-vs-model')
      want = m['cpp_rc'].get('error', 'no-scanner-error')
      if cppr != want:
        ck.disagreement('cpp-scanner-errors-vs-model', inp, cppr, want)
      # property level (C06): the two real parsers agree on the scanner errors of this file
      pyk = real['rc'].get('error', 'no-scanner-error')
      if cppr != pyk and not cppr.startswith('exception'):
        ck.violation('c06:scanner-error-differs', 'file %r: Python parser: %s, C++ parser: %s' % (t[:60], pyk, cppr), inp)
