"""Parametrised program shapes for constructs that need something specific to manifest (nested / sibling
aggregating expressions, relational division, outer-only aggregated values, injectible functions applied
to themselves, multi-valued functional calls, nested disjunctions ...). Same AST + text interface as
gen_program.Gen, evaluated by the same oracle."""
import gen_program as G
from gen_program import V, L, OP, Pred, Program


def atom(p, *args):
  return {'atom': p, 'args': [['col%d' % i, a] for i, a in enumerate(args)]}


def agg(op, e, body):
  return {'agg': op, 'e': e, 'body': body}


def AND(*ps):
  return {'and': list(ps)}


def fact_pred(prog, rng, name, arity, nrows, dom=(0, 1, 2, 3, 4)):
  p = Pred(name, ['col%d' % i for i in range(arity)], ['int'] * arity, 'facts')
  rows = [tuple(rng.choice(dom) for _ in range(arity)) for _ in range(nrows)]
  for r in rows:
    prog.rules.append({'head': name, 'args': [[c, L(v)] for c, v in zip(p.cols, r)], 'distinct': False, 'body': None})
  p.rows = rows
  prog.preds.append(p)
  return p


def derived(prog, name, cols, types, rules, kind='concrete'):
  p = Pred(name, cols, types, kind)
  prog.preds.append(p)
  prog.rules.extend(rules)
  return p


def rule(head, args, body, distinct=False):
  return {'head': head, 'args': args, 'distinct': distinct, 'body': body}


def t_sibling_combines(rng):
  """r Sum= (b :- a Max= (x :- T(x)), b Min= (x + a :- S(x))) with equal / different local spellings."""
  prog = Program()
  fact_pred(prog, rng, 'T', 1, rng.randint(1, 4), (1, 5, 9, 3))
  fact_pred(prog, rng, 'S', 1, rng.randint(1, 3), (2, 4, 6))
  fact_pred(prog, rng, 'A', 1, rng.randint(1, 3))
  v1 = 'x'
  v2 = rng.choice(['x', 'x', 'z'])
  op0, op1, op2 = rng.choice(['Sum', 'Max', 'Min']), rng.choice(['Max', 'Min', 'Sum']), rng.choice(['Min', 'Max', 'Sum'])
  inner = AND({'eq': [V('a'), agg(op1, V(v1), atom('T', V(v1)))]},
              {'eq': [V('b'), agg(op2, OP('+', V(v2), V('a')), atom('S', V(v2)))]})
  if rng.random() < 0.5:
    body = {'eq': [V('r'), agg(op0, V('b'), inner)]}
    derived(prog, 'Q', ['r'], ['int'], [rule('Q', [['r', V('r')]], body)])
  else:
    body = AND(atom('A', V('k')), {'eq': [V('r'), agg(op0, OP('+', V('b'), V('k')), inner)]})
    derived(prog, 'Q', ['k', 'r'], ['int', 'int'], [rule('Q', [['k', V('k')], ['r', V('r')]], body)])
  prog.features |= {'tpl:sibling-combines', 'same-spelling' if v1 == v2 else 'different-spelling'}
  return prog


def t_division(rng):
  """Covers(x) :- A(x), ~(C(z), ~B(x, z))  and the aggregate / nested-sum variants."""
  prog = Program()
  fact_pred(prog, rng, 'A', 1, rng.randint(2, 4), (1, 2, 3))
  fact_pred(prog, rng, 'C', 1, rng.randint(1, 3), (1, 2))
  fact_pred(prog, rng, 'B', 2, rng.randint(2, 6), (1, 2, 3))
  kind = rng.choice(['division', 'count-missing', 'nested-sum', 'division-with-test'])
  if kind == 'division':
    body = AND(atom('A', V('x')), {'not': AND(atom('C', V('z')), {'not': atom('B', V('x'), V('z'))})})
    derived(prog, 'Covers', ['col0'], ['int'], [rule('Covers', [['col0', V('x')]], body)])
  elif kind == 'division-with-test':
    body = AND(atom('A', V('x')), {'not': AND(atom('C', V('z')), {'test': OP('>', V('z'), L(0))},
                                              {'not': AND(atom('B', V('x'), V('w')), {'test': OP('==', V('w'), V('z'))})})})
    derived(prog, 'Covers', ['col0'], ['int'], [rule('Covers', [['col0', V('x')]], body)])
  elif kind == 'count-missing':
    body = AND(atom('A', V('x')), {'eq': [V('n'), agg('Sum', L(1), AND(atom('C', V('z')), {'not': atom('B', V('x'), V('z'))}))]})
    derived(prog, 'Missing', ['col0', 'col1'], ['int', 'int'], [rule('Missing', [['col0', V('x')], ['col1', V('n')]], body)])
  else:
    body = AND(atom('A', V('x')),
               {'eq': [V('t'), agg('Sum', OP('*', V('z'), V('s')),
                                   AND(atom('C', V('z')), {'eq': [V('s'), agg('Sum', V('u'), atom('B', V('x'), V('u')))]}))]})
    derived(prog, 'W', ['col0', 'col1'], ['int', 'int'], [rule('W', [['col0', V('x')], ['col1', V('t')]], body)])
  prog.features.add('tpl:' + kind)
  return prog


def t_outer_only_value(rng):
  """s = Sum{w :- B(x, z)} where the aggregated value mentions outer variables only."""
  prog = Program()
  fact_pred(prog, rng, 'A', 2, rng.randint(2, 4), (1, 2, 3, 4))
  fact_pred(prog, rng, 'B', 2, rng.randint(2, 5), (1, 2, 3))
  op = rng.choice(['Sum', 'Max', 'Min', 'Count', 'List'])
  val = rng.choice([V('w'), OP('+', V('w'), V('x')), OP('*', V('w'), L(10))])
  body = AND(atom('A', V('x'), V('w')), {'eq': [V('s'), agg(op, val, atom('B', V('x'), V('z')))]})
  ty = 'int' if op != 'List' else ('list', 'int')
  derived(prog, 'P', ['col0', 'col1'], ['int', ty], [rule('P', [['col0', V('x')], ['col1', V('s')]], body)])
  prog.features.add('tpl:outer-only-value')
  return prog


def t_multivalued_calls(rng):
  """P(x, F(x) + F(x)) with a multi-valued F; the same call twice in one rule."""
  prog = Program()
  fact_pred(prog, rng, 'A', 1, rng.randint(1, 3), (1, 2))
  fact_pred(prog, rng, 'T', 2, rng.randint(2, 5), (1, 2, 3))
  derived(prog, 'F', ['col0', 'logica_value'], ['int', 'int'],
          [rule('F', [['col0', V('x')], ['logica_value', V('y')]], atom('T', V('x'), V('y')))], 'functional')
  call = {'call': 'F', 'args': [['col0', V('x')]]}
  e = rng.choice([OP('+', call, call), OP('*', call, OP('+', call, L(1))), OP('-', call, call)])
  derived(prog, 'P', ['col0', 'col1'], ['int', 'int'],
          [rule('P', [['col0', V('x')], ['col1', e]], atom('A', V('x')))])
  prog.features.add('tpl:multivalued-calls')
  return prog


def t_nested_disjunction(rng):
  prog = Program()
  for n in 'ABCD':
    fact_pred(prog, rng, n, 1, rng.randint(1, 3), (1, 2, 3, 4))
  x = V('x')
  shapes = [
      {'or': [atom('A', x), AND(atom('B', x), {'or': [atom('C', x), atom('D', x)]})]},
      {'or': [AND(atom('A', x), {'or': [atom('B', x), AND(atom('C', x), {'or': [atom('D', x), atom('A', x)]})]}), atom('D', x)]},
      AND({'or': [atom('A', x), atom('B', x)]}, {'or': [atom('C', x), AND(atom('D', x), {'or': [atom('A', x), atom('C', x)]})]}),
  ]
  derived(prog, 'P', ['col0'], ['int'], [rule('P', [['col0', x]], rng.choice(shapes))])
  prog.features.add('tpl:nested-disjunction')
  return prog


def t_no_table_rule(rng):
  """rules whose constraints mention no table after injection: R(10) :- Threshold() > 5"""
  prog = Program()
  t = rng.choice([3, 5, 7])
  derived(prog, 'Threshold', ['logica_value'], ['int'], [rule('Threshold', [['logica_value', L(t)]], None)], 'functional')
  c = rng.choice([4, 5, 6])
  call = {'call': 'Threshold', 'args': []}
  rules = [rule('R', [['col0', L(10)]], {'test': OP('>', call, L(c))}),
           rule('R', [['col0', L(20)]], AND({'eq': [V('x'), L(1)]}, {'eq': [V('x'), L(rng.choice([1, 2]))]}))]
  derived(prog, 'R', ['col0'], ['int'], rules)
  prog.features.add('tpl:no-table-rule')
  return prog


def t_record_if(rng):
  prog = Program()
  fact_pred(prog, rng, 'A', 1, rng.randint(2, 4), (1, 2, 3))
  rec = lambda a, b: {'rec': [['a', a], ['b', b]]}
  x = V('x')
  cases = [[OP('==', x, L(1)), rec(L(5), L(50))]]
  if rng.random() < 0.6:
    cases.append([OP('==', x, L(2)), rec(OP('*', x, L(10)), L(60))])
  e = {'if': cases, 'else': rec(L(0), L(70))}
  if rng.random() < 0.4:
    # arms mixing record literals and a record read from a table column
    tp = Pred('TR', ['col0', 'col1'], ['int', ('rec', (('a', 'int'), ('b', 'int')))], 'facts')
    for k in (1, 2, 3):
      prog.rules.append({'head': 'TR', 'args': [['col0', L(k)], ['col1', L({'$r': [['a', k * 10], ['b', k * 7]]})]], 'distinct': False, 'body': None})
    prog.preds.append(tp)
    arms = [[OP('==', x, L(1)), rec(L(5), L(50))], [OP('==', x, L(2)), V('r0')]]
    rng.shuffle(arms)
    e = {'if': arms, 'else': rec(L(0), L(70))}
    body = AND(atom('TR', x, V('r0')), {'eq': [V('y'), e]},
               {'eq': [V('v'), {'sub': V('y'), 'field': rng.choice(['a', 'b'])}]})
    derived(prog, 'P', ['col0', 'col1'], ['int', 'int'], [rule('P', [['col0', x], ['col1', V('v')]], body)])
    prog.features.add('tpl:record-if-mixed')
    return prog
  body = AND(atom('A', x), {'eq': [V('r'), e]}, {'eq': [V('v'), {'sub': V('r'), 'field': rng.choice(['a', 'b'])}]})
  if rng.random() < 0.5:
    body = AND(atom('A', x), {'eq': [V('v'), {'sub': e, 'field': rng.choice(['a', 'b'])}]})
  derived(prog, 'P', ['col0', 'col1'], ['int', 'int'], [rule('P', [['col0', x], ['col1', V('v')]], body)])
  prog.features.add('tpl:record-if')
  return prog


def t_injectible_self_application(rng):
  """Non-concrete F(x) = Op{y * x :- y in [..]} applied to its own result: F(F(a)), F(a) + F(F(a)) ..."""
  prog = Program()
  fact_pred(prog, rng, 'A', 1, rng.randint(1, 3), (1, 2, 3))
  # Sum shows a captured local variable for every list; Max / Min need a list of mixed signs under `*`
  op = rng.choice(['Sum', 'Sum', 'Max', 'Min'])
  lst = [rng.choice([1, 2, 3]) for _ in range(rng.randint(2, 3))]
  arith = rng.choice(['*', '+'])
  if op != 'Sum':
    lst = [-2, rng.choice([1, 3])] + lst[:1]
    arith = '*'

  def f_model(arg, k):
    y = 'yinl%d' % k
    return agg(op, OP(arith, V(y), arg), {'in': [V(y), L(lst)]})

  def f_text(arg):
    return {'call': 'F', 'args': [['col0', arg]]}
  a = V('a')
  shape = rng.choice(['ff', 'fff', 'f+ff', 'ff*ff'])
  if shape == 'ff':
    t, m = f_text(f_text(a)), f_model(f_model(a, 1), 2)
  elif shape == 'fff':
    t, m = f_text(f_text(f_text(a))), f_model(f_model(f_model(a, 1), 2), 3)
  elif shape == 'f+ff':
    t, m = OP('+', f_text(a), f_text(f_text(a))), OP('+', f_model(a, 1), f_model(f_model(a, 2), 3))
  else:
    t, m = OP('*', f_text(f_text(a)), f_text(f_text(a))), OP('*', f_model(f_model(a, 1), 2), f_model(f_model(a, 3), 4))
  eq = {'eq': [V('v'), t], '$model': {'eq': [V('v'), m]}}
  derived(prog, 'P', ['col0', 'col1'], ['int', 'int'], [rule('P', [['col0', a], ['col1', V('v')]], AND(atom('A', a), eq))])
  frule = {'head': 'F', 'args': [['col0', V('x')], ['logica_value', agg(op, OP(arith, V('y'), V('x')), {'in': [V('y'), L(lst)]})]],
           'distinct': False, 'body': None}
  prog.extra_text.append(G.Printer().rule(frule))
  prog.features.add('tpl:injectible-self-application')
  return prog


def t_unary_minus(rng):
  """unary minus applied to parenthesised sums / differences / products, in heads, assignments and comparisons."""
  prog = Program()
  fact_pred(prog, rng, 'T', 2, rng.randint(2, 5), (0, 1, 2, 3, 5))
  x, y = V('x'), V('y')
  ops = ['+', '-', '*']
  o1, o2, o3 = rng.choice(ops), rng.choice(ops), rng.choice(['+', '-'])
  inner = OP(o1, x, y)
  derived(prog, 'NegHead', ['col0', 'col1'], ['int', 'int'],
          [rule('NegHead', [['col0', x], ['col1', OP('-', inner)]], atom('T', x, y))])
  derived(prog, 'NegAssign', ['col0', 'col1'], ['int', 'int'],
          [rule('NegAssign', [['col0', x], ['col1', V('v')]], AND(atom('T', x, y), {'eq': [V('v'), OP(o3, L(10), OP('-', OP(o2, x, y)))]}))])
  derived(prog, 'NegCmp', ['col0'], ['int'],
          [rule('NegCmp', [['col0', x]], AND(atom('T', x, y), {'test': OP('<', OP('-', OP('+', x, y)), OP('-', L(rng.choice([1, 3, 4]))))}))])
  derived(prog, 'NegNested', ['col0', 'col1'], ['int', 'int'],
          [rule('NegNested', [['col0', x], ['col1', OP('*', OP('-', OP('+', x, L(1))), OP('-', OP('-', y, L(2))))]], atom('T', x, y))])
  prog.features.add('tpl:unary-minus')
  return prog


def t_pure_distinct(rng):
  """a distinct predicate without aggregated columns over a body with duplicates, read by aggregating callers."""
  prog = Program()
  fact_pred(prog, rng, 'E', 2, rng.randint(3, 7), (1, 2, 3))
  fact_pred(prog, rng, 'A', 1, rng.randint(1, 3), (1, 2, 3))
  x, y, z = V('x'), V('y'), V('z')
  derived(prog, 'Src', ['col0'], ['int'], [rule('Src', [['col0', x]], atom('E', x, y), distinct=True)], kind='distinct')
  op = rng.choice(['Sum', 'Count', 'List'])
  val = L(1) if op == 'Sum' else x
  ty = 'int' if op != 'List' else ('list', 'int')
  derived(prog, 'NumSrc', ['logica_value'], [ty],
          [rule('NumSrc', [['logica_value', {'aggop': op, 'e': val}]], atom('Src', x), distinct=True)], kind='distinct')
  derived(prog, 'SumSrc', ['logica_value'], ['int'],
          [rule('SumSrc', [['logica_value', {'aggop': 'Sum', 'e': x}]], atom('Src', x), distinct=True)], kind='distinct')
  derived(prog, 'Deg', ['col0', 'n'], ['int', 'int'],
          [rule('Deg', [['col0', x], ['n', {'aggop': rng.choice(['Sum', 'Count']), 'e': y}]], AND(atom('Src', x), atom('E', x, y)), distinct=True)],
          kind='distinct')
  derived(prog, 'Sub', ['col0', 'col1'], ['int', 'int'],
          [rule('Sub', [['col0', x], ['col1', V('s')]],
                AND(atom('A', x), {'eq': [V('s'), agg('Sum', L(1), AND(atom('Src', z), {'test': OP('>=', z, x)}))]}))])
  derived(prog, 'Plain', ['col0'], ['int'], [rule('Plain', [['col0', x]], AND(atom('Src', x), atom('A', x)))])
  prog.features.add('tpl:pure-distinct')
  return prog


def t_mixed_head(rng):
  """heads mixing positional and named arguments, with and without aggregation, and their consumers."""
  prog = Program()
  fact_pred(prog, rng, 'T', 3, rng.randint(2, 6), (1, 2, 3))
  x, k, v, t = V('x'), V('k'), V('v'), V('t')
  op = rng.choice(['Sum', 'Max', 'Min', 'Count'])
  derived(prog, 'Q', ['col0', 'kind', 'total'], ['int', 'int', 'int'],
          [rule('Q', [['col0', x], ['kind', k], ['total', {'aggop': op, 'e': v}]], atom('T', x, k, v), distinct=True)], kind='distinct')
  derived(prog, 'R', ['col0', 'kind'], ['int', 'int'], [rule('R', [['col0', x], ['kind', OP('+', k, L(1))]], atom('T', x, k, v))])
  derived(prog, 'S', ['col0', 'col1'], ['int', 'int'],
          [rule('S', [['col0', x], ['col1', t]], AND({'atom': 'Q', 'args': [['col0', x], ['kind', k], ['total', t]]},
                                                    {'atom': 'R', 'args': [['col0', x], ['kind', V('k2')]]}, {'test': OP('>=', t, L(1))}))])
  derived(prog, 'D', ['col0', 'kind'], ['int', 'int'],
          [rule('D', [['col0', x], ['kind', k]], atom('T', x, k, v), distinct=True)], kind='distinct')
  prog.features.add('tpl:mixed-head')
  return prog


def t_argmin_k(rng):
  """ArgMinK / ArgMaxK (K = 2, 3) over groups of at least K + 2 rows without value ties, in a random arrival
  order, as predicate-level aggregation and as aggregating expression."""
  prog = Program()
  p = Pred('T', ['col0', 'col1', 'col2'], ['int', 'int', 'int'], 'facts')
  rows = []
  for g in (1, 2):
    n = rng.randint(4, 6)
    vals = rng.sample(range(1, 30), n)
    for i, v in enumerate(vals):
      rows.append((g, 10 * g + i, v))
  rng.shuffle(rows)
  for r in rows:
    prog.rules.append({'head': 'T', 'args': [[c, L(v)] for c, v in zip(p.cols, r)], 'distinct': False, 'body': None})
  p.rows = rows
  prog.preds.append(p)
  fact_pred(prog, rng, 'Gs', 1, 2, (1, 2))
  g, n, v = V('g'), V('n'), V('v')
  k1, k2 = rng.choice([2, 3]), rng.choice([2, 3])
  prog.extra_text += ['ArgMin%d(x) = ArgMinK(x, %d);' % (k, k) for k in sorted({k1, k2})] + ['ArgMax%d(x) = ArgMaxK(x, %d);' % (k, k) for k in sorted({k1, k2})]
  lt = ('list', 'int')
  derived(prog, 'LowP', ['col0', 'low'], ['int', lt],
          [rule('LowP', [['col0', g], ['low', {'aggop': 'ArgMinK:%d' % k1, 'e': OP('->', n, v)}]], atom('T', g, n, v), distinct=True)], kind='distinct')
  derived(prog, 'HighP', ['col0', 'high'], ['int', lt],
          [rule('HighP', [['col0', g], ['high', {'aggop': 'ArgMaxK:%d' % k2, 'e': OP('->', n, v)}]], atom('T', g, n, v), distinct=True)], kind='distinct')
  derived(prog, 'LowE', ['col0', 'col1'], ['int', lt],
          [rule('LowE', [['col0', g], ['col1', V('l')]],
                AND(atom('Gs', g), {'eq': [V('l'), agg('ArgMinK:%d' % k2, OP('->', n, v), atom('T', g, n, v))]}))])
  prog.features.add('tpl:argmin-k')
  return prog


def t_named_multibody(rng):
  """several rules of one predicate with named arguments (aggregating and not), read back by name."""
  prog = Program()
  fact_pred(prog, rng, 'T', 3, rng.randint(2, 5), (1, 2, 3))
  fact_pred(prog, rng, 'U', 3, rng.randint(2, 5), (1, 2, 3, 4))
  x, k, v = V('x'), V('k'), V('v')
  op = rng.choice(['Sum', 'Max', 'Min', 'Count'])
  derived(prog, 'Q', ['k', 'm', 's'], ['int', 'int', 'int'],
          [rule('Q', [['k', x], ['m', k], ['s', {'aggop': op, 'e': v}]], atom('T', x, k, v), distinct=True),
           rule('Q', [['k', x], ['m', OP('+', k, L(10))], ['s', {'aggop': op, 'e': v}]], atom('U', x, k, v), distinct=True)], kind='distinct')
  derived(prog, 'N', ['k', 'm'], ['int', 'int'],
          [rule('N', [['k', x], ['m', k]], atom('T', x, k, v)),
           rule('N', [['k', OP('+', x, L(20))], ['m', k]], atom('U', x, k, v))])
  derived(prog, 'R', ['col0', 'col1', 'col2'], ['int', 'int', 'int'],
          [rule('R', [['col0', V('a')], ['col1', V('b')], ['col2', V('c')]], {'atom': 'Q', 'args': [['k', V('a')], ['m', V('b')], ['s', V('c')]]})])
  derived(prog, 'RN', ['col0', 'col1'], ['int', 'int'],
          [rule('RN', [['col0', V('a')], ['col1', V('b')]], {'atom': 'N', 'args': [['k', V('a')], ['m', V('b')]]})])
  prog.features.add('tpl:named-multibody')
  return prog


def t_implication(rng):
  """~(A, ~B) in the shapes `A => B` is sugar for: conjunctive consequences, conjunctive antecedents, under a
  negation and inside an aggregating expression."""
  prog = Program()
  fact_pred(prog, rng, 'T', 1, rng.randint(3, 5), (1, 2, 3, 4))
  fact_pred(prog, rng, 'U', 1, rng.randint(2, 4), (1, 2, 3, 4))
  fact_pred(prog, rng, 'Vv', 1, rng.randint(1, 3), (1, 2, 3, 4))
  fact_pred(prog, rng, 'W', 1, rng.randint(1, 3), (1, 2, 3, 4))
  x = V('x')
  imp = lambda a, b: {'not': AND(a, {'not': b})}
  derived(prog, 'Q', ['col0'], ['int'], [rule('Q', [['col0', x]], AND(atom('T', x), imp(atom('U', x), AND(atom('Vv', x), atom('W', x)))))])
  derived(prog, 'Q2', ['col0'], ['int'], [rule('Q2', [['col0', x]], AND(atom('T', x), {'not': AND(atom('U', x), {'test': OP('>', x, L(1))}, {'not': atom('Vv', x)})}))])
  derived(prog, 'N', ['col0'], ['int'], [rule('N', [['col0', x]], AND(atom('T', x), {'not': imp(atom('U', x), AND(atom('Vv', x), atom('W', x)))}))])
  derived(prog, 'S', ['col0'], ['int'],
          [rule('S', [['col0', V('s')]], {'eq': [V('s'), agg('Sum', x, AND(atom('T', x), imp(atom('U', x), AND(atom('Vv', x), atom('W', x)))))]})])
  prog.features.add('tpl:implication')
  return prog


TEMPLATES = [t_injectible_self_application, t_sibling_combines, t_division, t_outer_only_value, t_multivalued_calls, t_nested_disjunction,
             t_no_table_rule, t_record_if, t_unary_minus, t_pure_distinct, t_mixed_head, t_argmin_k, t_named_multibody, t_implication]


def build(rng, mask, kwargs):
  """builder for semcheck.make_programs"""
  names = kwargs.get('templates')
  pool = [t for t in TEMPLATES if names is None or t.__name__ in names]
  if '_seed' in kwargs:
    return pool[kwargs['_seed'] % len(pool)](rng)    # round robin over the shapes
  return rng.choice(pool)(rng)
