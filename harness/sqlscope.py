"""Static structural checker for the SQL text emitted by the compiler (C09): lexing aware of string
literals and comments per dialect, bracket balance, alias scoping, WITH order, placeholder leaks.
Independent of the compiler and of the Lean model; calibrated on SQLite by executing what it accepts."""
import re

KEYWORDS_END_FROM = {'WHERE', 'GROUP', 'ORDER', 'LIMIT', 'UNION', 'HAVING', 'WINDOW', 'QUALIFY'}
SCHEMAS = {'logica_test', 'logica_home', 'default', 'information_schema', 'pg_catalog', 'main'}


class SqlError(Exception):
  pass


def lex(sql, dialect):
  """-> list of (kind, text) with kind in ident, num, str, punct, op. Raises SqlError on unterminated literal."""
  toks = []
  i, n = 0, len(sql)
  bslash = dialect in ('BigQuery', 'Databricks', 'ClickHouse')
  while i < n:
    c = sql[i]
    if c.isspace():
      i += 1
      continue
    if sql.startswith('--', i):
      j = sql.find('\n', i)
      toks.append(('comment', sql[i:j if j >= 0 else n]))
      i = j if j >= 0 else n
      continue
    if sql.startswith('/*', i):
      j = sql.find('*/', i + 2)
      if j < 0:
        raise SqlError('unterminated block comment')
      i = j + 2
      continue
    if c in '\'"' or (c in 'Ee' and i + 1 < n and sql[i + 1] == "'" and (i == 0 or not (sql[i - 1].isalnum() or sql[i - 1] == '_'))):
      estr = c in 'Ee'
      q = "'" if estr else c
      j = i + (2 if estr else 1)
      esc = estr or bslash or (c == '"' and dialect in ('BigQuery', 'Databricks'))
      while True:
        if j >= n:
          raise SqlError('unterminated string literal starting at %d: %s' % (i, sql[i:i + 40]))
        if esc and sql[j] == '\\':
          j += 2
          continue
        if sql[j] == q:
          if j + 1 < n and sql[j + 1] == q and q == "'":
            j += 2
            continue
          break
        j += 1
      toks.append(('str', sql[i:j + 1]))
      i = j + 1
      continue
    if c == '`':
      j = sql.find('`', i + 1)
      if j < 0:
        raise SqlError('unterminated backquote')
      toks.append(('ident', sql[i:j + 1]))
      i = j + 1
      continue
    m = re.match(r'[A-Za-z_][A-Za-z_0-9]*', sql[i:])
    if m:
      toks.append(('ident', m.group(0)))
      i += len(m.group(0))
      continue
    m = re.match(r'\d+(\.\d+)?([eE][-+]?\d+)?', sql[i:])
    if m:
      toks.append(('num', m.group(0)))
      i += len(m.group(0))
      continue
    if c in '()[]{}':
      toks.append(('br', c))
      i += 1
      continue
    if c in ',;.':
      toks.append(('punct', c))
      i += 1
      continue
    m = re.match(r'::|\|\||<=|>=|<>|!=|->>|->|[-+*/%<>=!~^|&:?@#$]', sql[i:])
    if m:
      toks.append(('op', m.group(0)))
      i += len(m.group(0))
      continue
    raise SqlError('unexpected character %r at %d' % (c, i))
  return toks


def check_balance(toks):
  stack = []
  pairs = {')': '(', ']': '[', '}': '{'}
  for k, t in toks:
    if k != 'br':
      continue
    if t in '([{':
      stack.append(t)
    else:
      if not stack or stack[-1] != pairs[t]:
        raise SqlError('bracket %s matches nothing' % t)
      stack.pop()
  if stack:
    raise SqlError('unclosed bracket %s' % stack[-1])


def tree(toks):
  """Nest tokens by round brackets: list of tokens / sub-lists."""
  root = []
  stack = [root]
  for k, t in toks:
    if k == 'comment':
      continue
    if (k, t) == ('br', '('):
      new = []
      stack[-1].append(new)
      stack.append(new)
    elif (k, t) == ('br', ')'):
      stack.pop()
    else:
      stack[-1].append((k, t))
  return root


def up(tok):
  return tok[1].upper() if isinstance(tok, tuple) and tok[0] == 'ident' else None


def check_scope(node, outer_aliases, with_names, errors, dialect):
  """node: token list of one parenthesis level (possibly several UNION-ed selects)."""
  # split into statements/selects at this level: collect aliases from every FROM clause at this level
  aliases = set()
  i = 0
  n = len(node)
  local_with = set(with_names)
  # WITH name AS ( ... ), name AS (...)
  j = 0
  while j < n:
    if up(node[j]) == 'WITH':
      k = j + 1
      while k < n:
        if isinstance(node[k], tuple) and node[k][0] == 'ident' and k + 2 < n and up(node[k + 1]) == 'AS' and isinstance(node[k + 2], list):
          name = node[k][1]
          check_scope(node[k + 2], set(), set(local_with), errors, dialect)
          # a WITH table may only read WITH tables defined before it
          used = from_tables(node[k + 2])
          for u in used:
            if u.startswith('t_') and u not in local_with and u != name:
              errors.append('WITH table %s reads %s before it is defined' % (name, u))
          local_with.add(name)
          k += 3
          if k < n and node[k] == ('punct', ','):
            k += 1
            continue
        break
      j = k
    else:
      j += 1
  # FROM clauses
  j = 0
  while j < n:
    if up(node[j]) == 'FROM':
      k = j + 1
      while k < n and not (up(node[k]) in KEYWORDS_END_FROM) and node[k] != ('punct', ';'):
        if isinstance(node[k], tuple) and node[k][0] == 'ident' and (node[k - 1] == ('punct', ',') or up(node[k - 1]) in ('FROM', 'JOIN')) \
            and not (k + 1 < n and node[k + 1] == ('punct', '.')):
          aliases.add(node[k][1])        # a bare table name qualifies its own columns
        if up(node[k]) == 'AS' and k + 1 < n and isinstance(node[k + 1], tuple) and node[k + 1][0] == 'ident':
          aliases.add(node[k + 1][1])
        elif isinstance(node[k], tuple) and node[k][0] == 'ident' and k + 1 < n and isinstance(node[k + 1], tuple) \
            and node[k + 1][0] == 'ident' and up(node[k + 1]) not in ('AS', 'ON', 'JOIN', 'CROSS', 'LEFT', 'INNER', 'WITH', 'OFFSET') \
            and up(node[k]) not in ('AS', 'JOIN', 'CROSS', 'LEFT', 'INNER', 'ON', 'UNNEST', 'WITH', 'OFFSET', 'ARRAY', 'SELECT'):
          aliases.add(node[k + 1][1])      # implicit alias: table alias
        k += 1
      j = k
    else:
      j += 1
  scope = outer_aliases | aliases
  # references alias.column
  j = 0
  while j < n:
    t = node[j]
    if isinstance(t, list):
      check_scope(t, scope, local_with, errors, dialect)
    elif t[0] == 'ident' and j + 2 < n and node[j + 1] == ('punct', '.') and isinstance(node[j + 2], tuple) and node[j + 2][0] == 'ident':
      prev = node[j - 1] if j > 0 else None
      if prev == ('punct', '.'):
        pass      # a.b.c : middle part
      elif t[1] in SCHEMAS or t[1].lower() in SCHEMAS:
        pass      # schema.table
      elif t[1].upper() == 'END':
        pass      # CASE ... END.field : field of an expression, not of an alias
      elif t[1] not in scope and t[1].lower() not in {a.lower() for a in scope}:
        # table reference in a FROM item (dataset.table) is not an alias use
        if not in_from_item(node, j):
          errors.append('reference %s.%s: alias %s is not introduced by an enclosing FROM' % (t[1], node[j + 2][1], t[1]))
      j += 2
    j += 1


def in_from_item(node, j):
  k = j - 1
  while k >= 0:
    u = up(node[k])
    if u == 'FROM' or u == 'JOIN' or u == 'TABLE' or u == 'INTO' or u == 'EXISTS':
      return True
    if u in ('SELECT', 'WHERE', 'ON', 'BY', 'AS') or isinstance(node[k], list):
      return u == 'AS' and False
    if node[k] == ('punct', ','):
      # comma inside a FROM clause keeps us in FROM; inside SELECT list not: look further back
      pass
    k -= 1
  return False


def from_tables(node):
  out = set()
  n = len(node)
  for j in range(n):
    if up(node[j]) == 'FROM':
      k = j + 1
      while k < n and not (up(node[k]) in KEYWORDS_END_FROM):
        if isinstance(node[k], tuple) and node[k][0] == 'ident' and (k == j + 1 or node[k - 1] == ('punct', ',')):
          out.add(node[k][1])
        k += 1
    elif isinstance(node[j], list):
      out |= from_tables(node[j])
  return out


PLACEHOLDERS = [r'\{[A-Za-z_][A-Za-z_0-9]*\}', r'%s', r'/\* nil \*/', r'# disambiguated', r'\$\{[A-Za-z_0-9]+\}', r'\bUNUSED\b(?!_)']


def check(sql, dialect):
  """Returns list of structural errors (empty = well-formed by the property's notion)."""
  errors = []
  try:
    toks = lex(sql, dialect)
    check_balance(toks)
  except SqlError as e:
    return ['lexical/balance: %s' % e]
  outside = ' '.join(t for k, t in toks if k not in ('str', 'comment'))
  for pat in PLACEHOLDERS:
    m = re.search(pat, outside)
    if m:
      errors.append('placeholder leak: %s' % m.group(0))
  try:
    check_scope(tree(toks), set(), set(), errors, dialect)
  except RecursionError:
    errors.append('checker recursion limit')
  return errors
