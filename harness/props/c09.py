"""C09 — every dialect compiles the core language into well-scoped SQL.

(T) lean/LogicaModel/Props/C09.lean over lean/LogicaModel/Generated/Templates.lean, regenerated from the live
    dialect tables by tools/gen_templates.py on every run (translator tie): every template is well-formed,
    formatting balanced arguments into a well-formed template gives balanced text or the arity diagnostic
(K) QL.Function / QL.Infix on every live template x argument texts vs Format.function / Format.infixOp
(S) generated typed programs x the eight engines: compilation must succeed or fail with one of the four
    diagnostics (never an internal error), and the emitted SQL must pass an independent static checker
    (brackets and string literals balance with comment-aware lexing, every alias.column refers to an alias
    of an enclosing FROM, WITH tables defined before use, no compiler placeholder in the text). For SQLite
    the statements are also executed: what the checker accepts must run (calibration of the checker).
"""
import core
import gen_program as G
import realcode as R
import semcheck
import sqlscope
import templates

RULE = ('generated programs (full feature mask incl. unary minus chains, mixed record/if shapes, aggregation, '
        'negation, functional and injectible predicates; lists/records typed where the dialect needs it) x '
        '{sqlite, duckdb, psql, bigquery, trino, presto, clickhouse, databricks}, every derived predicate compiled; '
        'non-trivial = SQL produced; distinct by (engine, program, predicate)')
ASSUMPTIONS = ('no engine but SQLite exists offline: well-formed is the structural notion of the property',)


def job(j):
  text, preds, eng = j
  out = {}
  try:
    with R.quiet():
      rules = R.parse.ParseFile(text)['rule']
  except Exception as e:  # noqa: BLE001
    return {p: {'kind': R.classify(e), 'exc': type(e).__name__, 'msg': str(e)[:200]} for p in preds}
  for p in preds:
    c = R.compile_pred(text, p, rules=rules)
    d = {'kind': c.kind, 'exc': getattr(c, 'exc_type', ''), 'msg': getattr(c, 'message', '')[:300]}
    if c.kind == 'ok':
      stmts = [c.preamble] + c.defines + [c.main]
      errs = []
      for s in stmts:
        errs += sqlscope.check(s, R.ENGINE_DIALECT_NAME[eng])
      d['errors'] = errs[:4]
      d['sql'] = c.sql[:3000]
      if eng == 'sqlite':
        r = R.run_sqlite(text, p, rules=rules)
        d['exec'] = r.kind
        d['exec_msg'] = getattr(r, 'message', '')[:200]
    out[p] = d
  return out


def translate(ck):
  import importlib.util
  import os
  spec = importlib.util.spec_from_file_location('gen_templates', os.path.join(core.VERIF, 'tools', 'gen_templates.py'))
  mod = importlib.util.module_from_spec(spec)
  spec.loader.exec_module(mod)
  mod.main()
  ck.notes.append('Generated/Templates.lean regenerated from the dialect tables of /repo')


ARG_TEXTS = ['t_0.col1', '(a + 1)', "'x(y'", 'JSON_ARRAY(1, 2)', '"q]"', 'x', "CAST(v AS STRING)", "'it''s'", '[1, 2][OFFSET(0)]', '']


def run_templates(ck):
  """(K) the real formatting functions against the Lean model on every live template."""
  reqs, meta = [], []
  seen = set()
  for eng in R.ENGINES:
    ql = R.ql_for(eng)
    for kind, table in (('fmt_function', ql.built_in_functions), ('fmt_infix', ql.built_in_infix_operators)):
      for name, t in sorted(table.items()):
        if t is None or (kind, t) in seen:
          continue
        seen.add((kind, t))
        for n in ([0, 1, 2, 3] if kind == 'fmt_function' else [2]):
          for _ in range(2):
            args = [ck.rng.choice(ARG_TEXTS) for _ in range(n)]
            try:
              if kind == 'fmt_function':
                real = ql.Function(t, dict(enumerate(args)))
              else:
                real = '(' + ql.Infix(t, {'left': args[0], 'right': args[1]}) + ')'
            except (IndexError, TypeError, ValueError, KeyError):
              real = None
            reqs.append({'op': kind, 'template': t, 'args': args})
            meta.append((eng, name, t, args, real))
  for (eng, name, t, args, real), resp in zip(meta, core.Driver().ask_many(reqs)):
    ck.corr('format-vs-model')
    ck.case(['template', t, args], real is not None, ['template:' + ('pct' if '%s' in t else 'brace'), 'template-args:%d' % len(args)])
    inp = {'engine': eng, 'function': name, 'template': t, 'args': args}
    if 'error' in resp or resp['out'] != real:
      ck.disagreement('format-vs-model', inp, real, resp)
    if not resp.get('template_ok'):
      ck.disagreement('live-template-check', inp, 'template of the live table', 'fails functionTemplateOK / infixTemplateOK')
    if real is not None:
      errs = sqlscope.check('SELECT ' + real, R.ENGINE_DIALECT_NAME[eng])
      errs = [e for e in errs if e.startswith('lexical/balance') or (e.startswith('placeholder') and 'UNUSED' not in e)]
      if errs and all(not sqlscope.check('SELECT ' + a, R.ENGINE_DIALECT_NAME[eng]) for a in args if a):
        ck.violation('c09:template-unbalanced:%s' % name, 'engine %s: built-in %s renders balanced arguments %s as %r: %s' % (eng, name, args, real, errs[0]), inp)


SWEEP_ARGS = {'num': '1', 'str': '"a"', 'list': '[1, 2]', 'strlist': '["a", "b"]', 'bool': 'true'}


def sweep_job(j):
  eng, name, args = j
  text = '@Engine("%s");\nQ(x) :- x == %s(%s);\n' % (eng, name, ', '.join(SWEEP_ARGS[a] for a in args))
  c = R.compile_pred(text, 'Q')
  d = {'text': text, 'kind': c.kind, 'exc': getattr(c, 'exc_type', ''), 'msg': getattr(c, 'message', '')[:300]}
  if c.kind == 'ok':
    errs = []
    for st in [c.preamble] + c.defines + [c.main]:
      errs += sqlscope.check(st, R.ENGINE_DIALECT_NAME[eng])
    d['errors'] = errs[:3]
    d['sql'] = c.main[:1500]
  return d


def run_builtin_sweep(ck):
  """(S) every non-bulk built-in function of every dialect called with 1..3 literal arguments of several types:
  compiles or is diagnosed, never an internal error; what compiles passes the static checker."""
  jobs = []
  for eng in R.ENGINES:
    ql = R.ql_for(eng)
    for name, t in sorted(ql.built_in_functions.items()):
      if not name[:1].isupper() or not name.isalnum():
        continue
      if name in ql.BULK_FUNCTIONS and t == ql.BULK_FUNCTIONS[name]:
        continue
      if name in ('FlagValue', 'Cast', 'TryCast', 'SqlExpr', 'TypeRepr', 'If', 'Aggr', 'Container', 'Constraint', 'ValueOfUnnested'):
        continue     # special forms with their own syntax
      for n in (1, 2, 3):
        for _ in range(2):
          jobs.append((eng, name, tuple(ck.rng.choice(sorted(SWEEP_ARGS)) for _ in range(n))))
  jobs = sorted(set(jobs))
  ck.rng.shuffle(jobs)
  jobs = jobs[:ck.budget(500, 8000)]
  for (eng, name, args), d in zip(jobs, core.pmap(sweep_job, jobs)):
    ck.case(['sweep', eng, name, args], d['kind'] == 'ok', ['sweep:' + eng, 'sweep-outcome:' + d['kind']])
    rp = {'engine': eng, 'program': d['text'], 'message': d['msg']}
    if d['kind'] == 'internal':
      ck.violation('c09:builtin-internal:%s:%s' % (d['exc'], name), 'engine %s: %s(%s) fails with internal error %s: %s' % (
          eng, name, ', '.join(args), d['exc'], d['msg'][:120]), rp)
    elif d['kind'] == 'ok' and d['errors']:
      rp['sql'] = d['sql']
      ck.violation('c09:builtin-malformed:%s:%s' % (eng, name), 'engine %s: %s(%s) compiles to SQL that is not well-formed: %s' % (
          eng, name, ', '.join(args), d['errors'][:2]), rp)


def run(ck):
  run_templates(ck)
  run_builtin_sweep(ck)
  n = ck.budget(16, 160)
  # records / lists of the generator are untyped literals: dialects that need element types reject them with a
  # diagnostic, which is an allowed outcome; keep a typed-friendly mask for half of the programs
  made = semcheck.make_programs(ck, n // 2, G.Gen.ALL)
  made += semcheck.make_programs(ck, n - n // 2, G.Gen.ALL - {'lists', 'records'})
  made += semcheck.make_programs(ck, ck.budget(24, 120), None, {}, builder=templates.build)
  # unary-minus chains (a negation whose operand renders with a leading minus)
  neg_progs = []
  for i in range(ck.budget(4, 40)):
    k = ck.rng.choice([-3, -1, 2])
    neg_progs.append('@Engine("sqlite");\nT(1, %d);\nT(2, 5);\nNeg(x, y) :- T(x, v), y == -v;\nBack(x, b, c) :- Neg(x, y), b == -y, k == %d, c == 10 - (-k);\n' % (k, k))
  jobs, meta = [], []
  for pr, model in made:
    text = pr.text()
    preds = [p.name for p in pr.preds if p.kind != 'facts'][:4]
    for eng in R.ENGINES:
      jobs.append((text.replace('@Engine("sqlite");', '@Engine("%s");' % eng), preds, eng))
      meta.append((text, eng))
  for t in neg_progs:
    for eng in R.ENGINES:
      jobs.append((t.replace('@Engine("sqlite");', '@Engine("%s");' % eng), ['Neg', 'Back'], eng))
      meta.append((t, eng))
  for (text, eng), res in zip(meta, core.pmap(job, jobs)):
    for p, d in res.items():
      ck.case([eng, text, p], d['kind'] == 'ok', ['engine:' + eng, 'outcome:' + d['kind']])
      rp = {'engine': eng, 'program': text, 'pred': p, 'message': d.get('msg', '')[:300]}
      if d['kind'] == 'internal':
        key = 'c09:internal-error:%s:%s' % (eng, d.get('exc'))
        if eng == 'databricks' and 'Subscript' in d.get('msg', ''):
          key = 'databricks-subscript-arity'
        ck.violation(key, 'engine %s, predicate %s: internal error %s: %s' % (eng, p, d.get('exc'), d.get('msg', '')[:160]), rp)
      elif d['kind'] == 'ok':
        if d['errors']:
          rp['sql'] = d['sql']
          ck.violation('c09:malformed-sql:%s:%s' % (eng, d['errors'][0].split(':')[0]),
                       'engine %s, predicate %s: emitted SQL is not well-formed: %s' % (eng, p, d['errors'][:2]), rp)
        elif eng == 'sqlite' and (d.get('exec') == 'too_big' or 'parser stack overflow' in d.get('exec_msg', '') or 'at most 64 tables' in d.get('exec_msg', '')):
          ck.features['sqlite-capacity-limit-skipped'] += 1      # engine capacity, not a property of the text
        elif eng == 'sqlite' and d.get('exec') != 'ok':
          rp['sql'] = d['sql']
          ck.violation('c09:checker-accepts-but-sqlite-rejects', 'SQLite rejects SQL that the static checker accepts: %s' % d.get('exec_msg'), rp)


def replay(ck, rep):
  print(core.canon(rep))
