"""C09 — every dialect compiles the core language into well-scoped SQL.

(T) lean/LogicaModel/Props/C09.lean (templates regenerated from the live dialect classes; balance / arity theorems)
(S) generated typed programs x the eight engines: compilation must succeed or fail with one of the four
    diagnostics (never an internal error), and the emitted SQL must pass an independent static checker
    (brackets and string literals balance with comment-aware lexing, every alias.column refers to an alias
    of an enclosing FROM, WITH tables defined before use, no compiler placeholder in the text). For SQLite
    the statements are also executed: what the checker accepts must run (calibration of the checker).
"""
import core
import gen_program as G
import realcode as R
import semcheck
import sqlscope
import templates

RULE = ('generated programs (full feature mask incl. unary minus chains, mixed record/if shapes, aggregation, '
        'negation, functional and injectible predicates; lists/records typed where the dialect needs it) x '
        '{sqlite, duckdb, psql, bigquery, trino, presto, clickhouse, databricks}, every derived predicate compiled; '
        'non-trivial = SQL produced; distinct by (engine, program, predicate)')
ASSUMPTIONS = ('no engine but SQLite exists offline: well-formed is the structural notion of the property',)


def job(j):
  text, preds, eng = j
  out = {}
  try:
    with R.quiet():
      rules = R.parse.ParseFile(text)['rule']
  except Exception as e:  # noqa: BLE001
    return {p: {'kind': R.classify(e), 'exc': type(e).__name__, 'msg': str(e)[:200]} for p in preds}
  for p in preds:
    c = R.compile_pred(text, p, rules=rules)
    d = {'kind': c.kind, 'exc': getattr(c, 'exc_type', ''), 'msg': getattr(c, 'message', '')[:300]}
    if c.kind == 'ok':
      stmts = [c.preamble] + c.defines + [c.main]
      errs = []
      for s in stmts:
        errs += sqlscope.check(s, R.ENGINE_DIALECT_NAME[eng])
      d['errors'] = errs[:4]
      d['sql'] = c.sql[:3000]
      if eng == 'sqlite':
        r = R.run_sqlite(text, p, rules=rules)
        d['exec'] = r.kind
        d['exec_msg'] = getattr(r, 'message', '')[:200]
    out[p] = d
  return out


def run(ck):
  n = ck.budget(16, 300)
  # records / lists of the generator are untyped literals: dialects that need element types reject them with a
  # diagnostic, which is an allowed outcome; keep a typed-friendly mask for half of the programs
  made = semcheck.make_programs(ck, n // 2, G.Gen.ALL)
  made += semcheck.make_programs(ck, n - n // 2, G.Gen.ALL - {'lists', 'records'})
  made += semcheck.make_programs(ck, ck.budget(24, 200), None, {}, builder=templates.build)
  # unary-minus chains (a negation whose operand renders with a leading minus)
  neg_progs = []
  for i in range(ck.budget(4, 40)):
    k = ck.rng.choice([-3, -1, 2])
    neg_progs.append('@Engine("sqlite");\nT(1, %d);\nT(2, 5);\nNeg(x, y) :- T(x, v), y == -v;\nBack(x, b, c) :- Neg(x, y), b == -y, k == %d, c == 10 - (-k);\n' % (k, k))
  jobs, meta = [], []
  for pr, model in made:
    text = pr.text()
    preds = [p.name for p in pr.preds if p.kind != 'facts'][:4]
    for eng in R.ENGINES:
      jobs.append((text.replace('@Engine("sqlite");', '@Engine("%s");' % eng), preds, eng))
      meta.append((text, eng))
  for t in neg_progs:
    for eng in R.ENGINES:
      jobs.append((t.replace('@Engine("sqlite");', '@Engine("%s");' % eng), ['Neg', 'Back'], eng))
      meta.append((t, eng))
  for (text, eng), res in zip(meta, core.pmap(job, jobs)):
    for p, d in res.items():
      ck.case([eng, text, p], d['kind'] == 'ok', ['engine:' + eng, 'outcome:' + d['kind']])
      rp = {'engine': eng, 'program': text, 'pred': p, 'message': d.get('msg', '')[:300]}
      if d['kind'] == 'internal':
        key = 'c09:internal-error:%s:%s' % (eng, d.get('exc'))
        if eng == 'databricks' and 'Subscript' in d.get('msg', ''):
          key = 'databricks-subscript-arity'
        ck.violation(key, 'engine %s, predicate %s: internal error %s: %s' % (eng, p, d.get('exc'), d.get('msg', '')[:160]), rp)
      elif d['kind'] == 'ok':
        if d['errors']:
          rp['sql'] = d['sql']
          ck.violation('c09:malformed-sql:%s:%s' % (eng, d['errors'][0].split(':')[0]),
                       'engine %s, predicate %s: emitted SQL is not well-formed: %s' % (eng, p, d['errors'][:2]), rp)
        elif eng == 'sqlite' and d.get('exec') != 'ok':
          rp['sql'] = d['sql']
          ck.violation('c09:checker-accepts-but-sqlite-rejects', 'SQLite rejects SQL that the static checker accepts: %s' % d.get('exec_msg'), rp)


def replay(ck, rep):
  print(core.canon(rep))
