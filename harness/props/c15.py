"""C15 — layout, comments and string contents never change what is parsed.

(T) lean/LogicaModel/Props/C15.lean (scanner algebra: comments removed, string content opaque)
(S) the property itself, both parsers: a program and its variants (white space, newlines, # and /* */
    comments at token boundaries, redundant parentheses around expressions and propositions, trailing
    semicolon; string literals containing separators, brackets, comment markers and keywords) parse to the
    same rules modulo source spans; every span attached to a node is literally the text at that position.
"""
import core
import gen_program as G
import parsecheck as PC
import realcode as R
import scancheck
import templates
from props import c06

RULE = ('generated programs and statement templates x 8 noised variants (1-8 noise sites from 12 noise kinds at '
        'token boundaries not adjacent to keyword separators; 2 with redundant parentheses; trailing semicolon) x '
        '2 parsers; string-literal stress statements over the C10 alphabet in all three literal forms; spans of '
        'every node checked; keyword-adjacent non-blank layout is replayed from the corpus (known finding); '
        'non-trivial = variant text differs from the original; distinct by variant text')
ASSUMPTIONS = ()

STR_ALPHABET = ['a', ' ', "'", '"', '\\', '#', '/', '*', ',', ';', ':', '-', '(', ')', '[', ']', '{', '}', '|', '~', '=',
                'in', ' in ', ' is ', 'if ', ':-', '/*', '*/', '\\\\', "\\'", '%s', '${', 'é']


def string_statements(rng, n, with_values=False):
  out = []
  for _ in range(n):
    k = rng.randint(1, 3)
    lits = []
    vals = []
    for _ in range(k):
      s = ''.join(rng.choice(STR_ALPHABET) for _ in range(rng.randint(0, 6)))
      if '${' in s:
        s = s.replace('${', '$ {')
      lits.append(rng.choice(R.logica_str(s)))
      vals.append(s)
    shape = rng.choice(['fact', 'list', 'rule', 'record'])
    if shape == 'fact':
      st, vs = 'S(%s);' % ', '.join(lits), list(vals)
    elif shape == 'list':
      st, vs = 'S(x) :- x in [%s];' % ', '.join(lits), list(vals)
    elif shape == 'rule':
      st, vs = 'S(%s) :- T(%s), x == %s;' % (lits[0], lits[-1], lits[0]), [vals[0], vals[-1], vals[0]]
    else:
      st, vs = 'S({a: %s, b: [%s]});' % (lits[0], ', '.join(lits)), [vals[0]] + list(vals)
    out.append((st, vs) if with_values else st)
  return out


def strings_in(tree, out):
  if isinstance(tree, dict):
    if 'the_string' in tree and isinstance(tree['the_string'], str):
      out.append(tree['the_string'])
      return out
    for k in tree:
      strings_in(tree[k], out)
  elif isinstance(tree, list):
    for v in tree:
      strings_in(v, out)
  return out


def run(ck):
  err = R.ensure_cpp_built()
  modes = ['PY'] if err else ['PY', 'CPP']
  if err:
    ck.violation('cpp-parser-does-not-build', 'the C++ parser cannot be built from the current source: ' + err, {})
  rng = ck.rng
  originals = []
  for i in range(ck.budget(30, 500)):
    pr = G.Gen(rng).generate() if rng.random() < 0.7 else templates.build(rng, None, {})
    originals.append(('generated', pr))
  texts = []     # (kind, base_text, variant_text, what)
  for kind, pr in originals:
    base = pr.text()
    for v in range(6):
      t, used = PC.add_noise(base, rng, rng.randint(1, 8))
      texts.append((kind, base, t, 'noise'))
    for v in range(2):
      t = pr.text(G.Printer(paren_rng=rng, paren_prob=rng.choice([0.1, 0.3])))
      texts.append((kind, base, t, 'parens'))
      # layout noise on top of the redundant parentheses (blanks and newlines between nested parentheses)
      t2, used = PC.add_noise(t, rng, rng.randint(2, 10))
      texts.append((kind, base, t2, 'parens+noise'))
    texts.append((kind, base, base.rstrip('\n') + ';\n', 'trailing-semicolon'))
    texts.append((kind, base, base.replace(';\n', ';;\n', 1), 'empty-statement'))
  sv = string_statements(rng, ck.budget(80, 1000), with_values=True)
  stmts = list(c06.STATEMENTS) + [st for st, _ in sv]
  # string literals are data: the statement parses, and the parsed strings are exactly the intended ones
  import json as _json
  jobs = [(st + '\n', m) for st, _ in sv for m in modes]
  for (st, vals), m, r in zip([x for x in sv for _ in modes], [m for _ in sv for m in modes], core.pmap(PC.parse_job, jobs)):
    ck.case(['string-statement', st, m], True, ['string-statement', 'parser:' + m])
    if 'ok' not in r:
      ck.violation('c15:string-content-treated-as-syntax:%s' % m, 'parser %s rejects %s (%s %s): string content was treated as syntax' % (
          m, st, r.get('exc'), r.get('msg', '')[:80]), {'text': st, 'parser': m})
    else:
      got = strings_in(_json.loads(r['ok']), [])
      # the statement's first rule carries the strings in textual order (head first)
      if sorted(got) != sorted(vals):
        ck.violation('c15:string-value-changed:%s' % m, 'parser %s reads the literals of %s as %r, intended %r' % (m, st, got, vals),
                     {'text': st, 'parser': m})
  for s in stmts:
    for v in range(3):
      t, used = PC.add_noise(s + '\n', rng, rng.randint(1, 6))
      texts.append(('statement', s + '\n', t, 'noise'))
  # corpus: keyword-adjacent layout (known finding) and past failures
  for c in ck.corpus():
    texts.append(('corpus:' + c.get('key', c['_file']), c['base'], c['variant'], 'corpus'))
  # (K) the scanner model against the real Traverse / RemoveComments on the noisy texts and random strings
  scancheck.run(ck, [t for _, _, t, _ in texts][:ck.budget(200, 2000)], ck.budget(600, 20000), cpp='CPP' in modes)
  uniq = {}
  for kind, b, t, what in texts:
    for m in modes:
      uniq[(b, m)] = None
      uniq[(t, m)] = None
  keys = list(uniq)
  for k, r in zip(keys, core.pmap(PC.parse_job, keys)):
    uniq[k] = r
  # what the spans say must be the same under both parsers (each span being self-consistent is not enough)
  if len(modes) == 2:
    seen_t = set()
    for kind, b, t, what in texts:
      for x in (b, t):
        if x in seen_t:
          continue
        seen_t.add(x)
        rp_, rc_ = uniq[(x, 'PY')], uniq[(x, 'CPP')]
        if 'ok' in rp_ and 'ok' in rc_ and rp_['ok'] == rc_['ok'] and rp_.get('texts') != rc_.get('texts'):
          ck.violation('c15:span-text-differs-between-parsers',
                       'the two parsers attach different source text to a node: %s' % PC.first_diff(rp_['texts'], rc_['texts']),
                       {'text': x})
  for kind, b, t, what in texts:
    for m in modes:
      rb, rt = uniq[(b, m)], uniq[(t, m)]
      ck.case([t, m], t != b, ['variant:' + what, 'parser:' + m, 'source:' + kind.split(':')[0]])
      rp = {'base': b, 'variant': t, 'parser': m, 'what': what}
      corpus_key = kind.split(':', 1)[1] if kind.startswith('corpus:') else None
      if 'ok' not in rb:
        continue      # the original itself is rejected (e.g. a template that needs context)
      if rb['spans']:
        ck.violation('c15:span-not-literal:%s' % m, 'parser %s: a node span is not the text at its position: %s' % (m, rb['spans'][:2]), rp)
      if 'ok' not in rt:
        ck.violation(corpus_key or 'c15:%s:rejected:%s' % (what, m),
                     'parser %s: the %s variant is rejected (%s %s) while the original parses' % (m, what, rt.get('exc'), rt.get('msg', '')[:100]), rp)
      elif rt['ok'] != rb['ok']:
        ck.violation(corpus_key or 'c15:%s:tree-changed:%s' % (what, m),
                     'parser %s: the %s variant parses to different rules: %s' % (m, what, PC.first_diff(rb['ok'], rt['ok'])), rp)
      elif rt['spans']:
        ck.violation('c15:span-not-literal:%s' % m, 'parser %s: a node span is not the text at its position: %s' % (m, rt['spans'][:2]), rp)


def replay(ck, rep):
  print(core.canon(rep))
