"""C13 — compilation is a deterministic, history-free function of the program.

(T) lean/LogicaModel/Props/C13.lean (module state threaded through compile sequences; set-order independence)
(S) the same programs compiled in fresh subprocesses under several PYTHONHASHSEED values, and in one
    process after different histories (other programs first, incl. ones that switch on the experimental
    syntax, failing compiles, and re-use of the same parsed rules object): FormattedPredicateSql text,
    table_to_export_map, dependency edges and iterations must be byte-identical after masking the
    time-stamped stop-signal file name.
"""
import glob
import json
import os
import subprocess
import sys

import core
import gen_program as G
import realcode as R
import templates
from props import c03, c04

RULE = ('corpus: integration tests compiling offline (sqlite_*, duckdb_*, psql_*), generated programs (full mask), '
        'functor programs, every recursion shape incl. depth > 20 (iterative plans) and requests for internal '
        '_ifr predicates, type-checked dialect variants; each compiled under 6 hash seeds (quick) in fresh '
        'subprocesses, and under 4 histories in one process; non-trivial = compile succeeds with non-empty SQL; '
        'distinct by (program, predicate)')
ASSUMPTIONS = ('that str-keyed set/dict iteration is the only hash-dependent order in CPython is established by the seed exploration, not by proof',)

INCANTATION = 'Signa inter verba conjugo, symbolum infixus evoco!'


def programs(ck):
  jobs = {}
  rng = ck.rng

  def add(kind, text, preds, **kw):
    jid = '%s#%d' % (kind, len(jobs))
    jobs[jid] = dict(text=text, preds=preds, kind=kind, **kw)
  # history-sensitive probes (F1): infix-heavy expression and an incantation program
  add('probe', '@Engine("sqlite");\nT(1, 2, 3);\nR(a*(b+c)) :- T(a, b, c);\nS(x) :- T(a, b, c), x == a%(b/c), a^2 > 0;\n', ['R', 'S'])
  add('incantation', '@Engine("sqlite");\n# %s\nT(1, 2, 3);\nR(a * (b + c)) :- T(a, b, c);\n' % INCANTATION, ['R'])
  add('failing', '@Engine("sqlite");\nR(x) :- T(x;\n', ['R'])
  # a program that switches the experimental syntax on and is then rejected (by the parser / by the compiler)
  add('failing', '@Engine("sqlite");\n# %s\nT(1, 2, 3);\nR(a * (b + c) :- T(a, b, c);\n' % INCANTATION, ['R'])
  add('failing', '@Engine("sqlite");\n# %s\nT(1, 2, 3);\nR(a * (b + z)) :- T(a, b, c);\n' % INCANTATION, ['R'])
  for i in range(ck.budget(9, 200)):
    pr = G.Gen(rng).generate()
    add('generated', pr.text(), [p.name for p in pr.preds if p.kind != 'facts'][:3], reuse=True)
  for i in range(ck.budget(6, 80)):
    pr = G.Gen(rng, G.Gen.ALL - {'lists', 'records'}).generate()
    eng = rng.choice(['duckdb', 'psql', 'bigquery'])
    add('typed-' + eng, pr.text().replace('@Engine("sqlite");', '@Engine("%s");' % eng), [p.name for p in pr.preds if p.kind != 'facts'][:2])
  for i in range(ck.budget(8, 120)):
    pr = c03.gen_case(rng)
    preds = list(pr.query)
    add('recursion:' + pr.info['shape'], pr.text(), preds)
  # F2-style: request an internal predicate of an iterative plan
  add('iterative-internal', '@Engine("sqlite");\n@Recursive(A, 30);\nA(0);\nA(x + 1) :- B(x), x < 50;\nB(x) :- A(x);\n', ['A', 'B', 'A_ifr5', 'B_ifr4'])
  # diamond-mode recursion (DuckDB dialect, compile only): components of 3-4 members with symmetric reads
  for i in range(ck.budget(10, 80)):
    members = ['A', 'B', 'C', 'D'][:rng.choice([3, 3, 4])]
    main = rng.choice(members)
    lines = ['@Engine("duckdb");', '@Recursive(%s, %d, mode: "diamond");' % (main, rng.choice([3, 5, 10])), '%s() Max= 0;' % main]
    for m in members:
      others = [o for o in members if o != m]
      reads = rng.sample(others, rng.randint(1, len(others)))
      for o in reads:
        lines.append('%s() Max= %s() + %d;' % (m, o, rng.randint(1, 3)))
    lines.append('Test() Max= %s;' % ' + '.join('%s()' % m for m in rng.sample(members, rng.randint(1, len(members)))))
    add('diamond', '\n'.join(lines) + '\n', ['Test', rng.choice(members)])
  for i in range(ck.budget(8, 100)):
    pr = c04.gen_case(rng)
    add('functors', pr.text(), pr.query[:4])
  files = sorted(glob.glob(os.path.join(core.REPO, 'integration_tests', 'sqlite_*.l')) +
                 glob.glob(os.path.join(core.REPO, 'integration_tests', 'duckdb_*.l')) +
                 glob.glob(os.path.join(core.REPO, 'integration_tests', 'psql_*.l')))
  if ck.tier != 'thorough':
    files = rng.sample(files, min(len(files), 14))
  for f in files:
    add('integration:' + os.path.basename(f), open(f).read(), ['Test'], import_root=core.REPO)
  return jobs


def run_proc(args):
  seed, req = args
  env = dict(os.environ, PYTHONHASHSEED=str(seed), LOGICA_REPO=core.REPO)
  env.pop('LOGICA_PARSER', None)
  p = subprocess.run([sys.executable, os.path.join(core.VERIF, 'harness', 'seed_runner.py')], input=json.dumps(req).encode(),
                     stdout=subprocess.PIPE, stderr=subprocess.PIPE, env=env, cwd=core.REPO, timeout=3000)
  if p.returncode != 0:
    return {'__crash__': p.stderr.decode('utf-8', 'replace')[-500:]}
  return json.loads(p.stdout.decode('utf-8'))


def run(ck):
  jobs = programs(ck)
  ids = list(jobs)
  # split the corpus into shards so that 16 processes are busy; every shard is compiled under every seed
  nshards = 4
  shards = [ids[i::nshards] for i in range(nshards)]
  seeds = [0, 1, 2, 3, 1234] if ck.tier != 'thorough' else list(range(16))
  tasks = []
  for si, shard in enumerate(shards):
    for seed in seeds:
      tasks.append(('seed', si, seed, {'jobs': {j: jobs[j] for j in shard}, 'order': shard}))
    # histories (all under hash seed 0): reversed order; incantation first; failing compiles first; each twice
    special = {j: jobs[j] for j in ids if jobs[j]['kind'] in ('incantation', 'failing')}
    h1 = list(reversed(shard))
    inc = [j for j in special if jobs[j]['kind'] == 'incantation']
    fail = [j for j in special if jobs[j]['kind'] == 'failing']
    h2 = inc + shard
    h3 = fail + shard + shard
    hs = [('reversed', h1), ('after-incantation', h2), ('after-failure-twice', h3)]
    # each rejected program on its own right before the shard (a later successful parse may undo what it left behind)
    hs += [('after-failure-%d' % k, [f] + shard) for k, f in enumerate(fail)]
    for hn, order in hs:
      tasks.append(('history:' + hn, si, 0, {'jobs': dict({j: jobs[j] for j in shard}, **special), 'order': order}))
  outs = core.pmap(run_proc, [(t[2], t[3]) for t in tasks], chunksize=1)
  base = {}
  for (kind, si, seed, req), out in zip(tasks, outs):
    if '__crash__' in out:
      ck.violation('c13:runner-crash', 'compile subprocess crashed: ' + out['__crash__'][-300:], {'kind': kind})
      continue
    if kind == 'seed' and seed == seeds[0]:
      for j in req['order']:
        base[j] = out[j][0]
  for (kind, si, seed, req), out in zip(tasks, outs):
    if '__crash__' in out:
      continue
    for j in req['order']:
      if j not in base or jobs[j]['kind'] in ('failing',):
        continue
      for occ in out[j]:
        for p in jobs[j]['preds']:
          a, b = base[j].get(p), occ.get(p)
          ok_nonempty = bool(a and 'sql' in a and a['sql'].strip())
          ck.case([j, p, kind, seed], ok_nonempty, ['kind:' + jobs[j]['kind'].split(':')[0], 'run:' + kind.split(':')[0]])
          if a != b:
            what = 'hash-seed' if kind == 'seed' else kind
            field = next((f for f in ('sql', 'exports', 'edges', 'data_edges', 'iterations', 'error') if (a or {}).get(f) != (b or {}).get(f)), '?')
            ck.violation('c13:%s:%s:%s' % (what, jobs[j]['kind'].split(':')[0].split('#')[0], field),
                         'program %s predicate %s: %s differs between PYTHONHASHSEED=%s in a fresh process and %s (seed %s)' % (
                             j, p, field, seeds[0], kind, seed),
                         {'program': jobs[j]['text'], 'pred': p, 'run': kind, 'seed': seed,
                          'a': str((a or {}).get(field))[:1500], 'b': str((b or {}).get(field))[:1500]})
        if occ.get('__reuse_same__') is False:
          ck.violation('c13:parsed-rules-reuse', 'program %s: compiling twice from the same parsed rules object gives different output' % j,
                       {'program': jobs[j]['text']})


def replay(ck, rep):
  print(core.canon(rep))
