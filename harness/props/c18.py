"""C18 — order_by and limit select the first K rows in the given order.

(T) lean/LogicaModel/Props/C18.lean  (result determined under a total order, every K honoured incl. 0,
    kept rows precede dropped rows, consumer sees the truncated rows, never injected)
(K) real Annotations.OrderByClause / LimitClause / OkInjection  vs  the Lean model; SQLite row order
    vs OrderLimit.evalOrdered
(S) ordered rows from SQLite vs an independent sort/take of the known rows; consumer multisets
    (single read, self-join, via injectible intermediates, under disjunction).
"""
import itertools

import core
import realcode as R

RULE = ('programs: fact table T(a,b,c) with 4-7 rows (ties in single columns, total order over the chosen key '
        'list), ordered predicate P in 4 shapes (single rule, named columns, two rules/UNION ALL, aggregated), '
        'annotation and denotation syntax, 1-3 keys with every DESC placement, K from 0 to rows+1 or absent, '
        'P queried directly and through 4 consumers; non-trivial = K < rows or order differs from insertion '
        'order; distinct by program text')
ASSUMPTIONS = ('SQLite ORDER BY / LIMIT are validated by execution only',)


def mk_rows(rng):
  n = rng.randint(4, 7)
  rows = set()
  while len(rows) < n:
    rows.add((rng.randint(0, 3), rng.randint(0, 4), rng.randint(-3, 9)))
  rows = list(rows)
  # make column c unique so that any key list can be completed to a total order
  cs = rng.sample(range(-5, 15), n)
  rows = [(a, b, c) for (a, b, _), c in zip(rows, cs)]
  rng.shuffle(rows)
  return rows


def sort_take(rows, keys, k):
  """Independent reference: stable sorts from the last key to the first."""
  out = list(rows)
  for col, desc in reversed(keys):
    out.sort(key=lambda r: r[col], reverse=bool(desc))
  if k is not None and k >= 0:
    out = out[:k]
  return out


def total(rows, keys):
  ks = [tuple(r[c] for c, _ in keys) for r in rows]
  return len(set(ks)) == len(ks)


def gen_case(rng):
  rows = mk_rows(rng)
  shape = rng.choice(['single', 'named', 'union', 'agg'])
  facts = ' '.join('T(%d, %d, %d);' % r for r in rows)
  colnames = ['col0', 'col1', 'col2']
  if shape == 'single':
    rules = 'P(x, y, z) :- T(x, y, z);'
    prow = rows
  elif shape == 'named':
    rules = 'P(a: x, b: y, c: z) :- T(x, y, z);'
    colnames = ['a', 'b', 'c']
    prow = rows
  elif shape == 'union':
    m = rng.randint(0, 3)
    rules = 'P(x, y, z) :- T(x, y, z), x < %d;\nP(x, y, z) :- T(x, y, z), x >= %d;' % (m, m)
    prow = rows
  else:
    rules = 'P(x, y? Max= y, z? += z) distinct :- T(x, y, z);'
    colnames = ['col0', 'y', 'z']
    g = {}
    for a, b, c in rows:
      g.setdefault(a, []).append((b, c))
    prow = [(a, max(b for b, _ in v), sum(c for _, c in v)) for a, v in g.items()]
  # keys
  for _ in range(20):
    nk = rng.randint(1, 3)
    cols = rng.sample([0, 1, 2], nk)
    keys = [(c, rng.random() < 0.5) for c in cols]
    if total(prow, keys):
      break
  else:
    keys = [(0, False), (1, True), (2, False)]
  n = len(prow)
  k = rng.choice([None, 0, 1, 2, n - 1, n, n + 1, rng.randint(0, n)])
  # annotation text
  style = rng.choice(['annotation', 'annotation_inline_desc', 'denotation'])
  args = []
  for c, d in keys:
    if style == 'annotation_inline_desc' and d:
      args.append('"%s desc"' % colnames[c])
    else:
      args.append('"%s"' % colnames[c])
      if d:
        args.append('"DESC"')
  if style == 'denotation' and shape in ('single', 'named'):
    head, body = rules[:-1].split(' :- ')
    den = ' order_by(%s)' % ', '.join(args)
    if k is not None:
      den += ' limit(%d)' % k
    rules = head + den + ' :- ' + body + ';'
    ann = ''
  else:
    style = 'annotation' if style == 'denotation' else style
    ann = '@OrderBy(P, %s);\n' % ', '.join(args)
    if k is not None:
      ann += '@Limit(P, %d);\n' % k
  c0, c1, c2 = colnames
  consumers = {
      'Q1': 'Q1(x, z) :- P(%s: x, %s: z);' % (c0, c2) if shape != 'single' and shape != 'union' else 'Q1(x, z) :- P(x, y, z);',
      'Q2': ('Q2(z1, z2) :- P(%s: z1), P(%s: z2);' % (c2, c2)) if shape in ('named', 'agg') else 'Q2(z1, z2) :- P(x1, y1, z1), P(x2, y2, z2);',
      'Q3': ('A(z) :- P(%s: z);\nB(z) :- P(%s: z);\nQ3(u, v) :- A(u), B(v);' % (c2, c2)) if shape in ('named', 'agg') else 'A(z) :- P(x, y, z);\nB(z) :- P(x, y, z);\nQ3(u, v) :- A(u), B(v);',
      'Q4': ('Q4(z) :- P(%s: z) | P(%s: z);' % (c2, c2)) if shape in ('named', 'agg') else 'Q4(z) :- P(x, y, z) | P(x, y, z);',
  }
  prog = '@Engine("sqlite");\n%s\n%s%s\n%s\n' % (facts, ann, rules, '\n'.join(consumers.values()))
  exp_p = sort_take(prow, keys, k)
  zs = [r[2] for r in exp_p]
  exp = {
      'P': [list(r) for r in exp_p],
      'Q1': sorted([r[0], r[2]] for r in exp_p),
      'Q2': sorted([a, b] for a in zs for b in zs),
      'Q3': sorted([a, b] for a in zs for b in zs),
      'Q4': sorted([z] for z in zs + zs),
  }
  return {'program': prog, 'expected': exp, 'shape': shape, 'style': style, 'keys': keys, 'k': k,
          'prow': [list(r) for r in prow], 'nrows': n}


def job(case):
  out = {}
  for pred in ['P', 'Q1', 'Q2', 'Q3', 'Q4']:
    o = R.job_run_sqlite((case['program'], pred, None))
    out[pred] = {'kind': o['kind'], 'rows': o.get('rows'), 'message': o.get('message', '')[:300],
                 'sql': o.get('sql', '') if pred == 'P' else ''}
  return out


def run(ck):
  drv = core.Driver()
  # ---------------- K: clause text and injection decision ----------------
  reqs, meta = [], []
  pool = ['col0', 'col1', 'a', 'b desc', 'DESC', 'x asc', 'logica_value']
  for _ in range(ck.budget(600, 6000)):
    ob = None if ck.rng.random() < 0.2 else [ck.rng.choice(pool) for _ in range(ck.rng.randint(1, 4))]
    lim = ck.rng.choice([None, 0, 0, 1, 2, 10, -1, 1000000])
    g, n, w = (ck.rng.random() < 0.15, ck.rng.random() < 0.15, ck.rng.random() < 0.15)
    text = '@Engine("sqlite");\nP(1);\n'
    if ob is not None:
      text += '@OrderBy(P, %s);\n' % ', '.join('"%s"' % x for x in ob)
    if lim is not None:
      text += '@Limit(P, %d);\n' % lim
    if g:
      text += '@Ground(P);\n'
    if n:
      text += '@NoInject(P);\n'
    if w:
      text += '@With(P);\n'
    try:
      with R.quiet():
        an = R.universe.Annotations(R.parse.ParseFile(text)['rule'], {})
      real = {'order_by': an.OrderByClause('P'), 'limit': an.LimitClause('P'),
              'ok_injection': bool(an.OkInjection('P'))}
    except Exception as e:  # noqa: BLE001
      real = {'exception': '%s: %s' % (type(e).__name__, e)}
    req = {'op': 'clauses', 'ground': g, 'noinject': n, 'with': w}
    if ob is not None:
      req['order_by'] = ob
    if lim is not None:
      req['limit'] = lim
    reqs.append(req)
    meta.append((req, real))
  for (req, real), resp in zip(meta, drv.ask_many(reqs)):
    ck.corr('clauses')
    ck.case(['clauses', req], 'order_by' in req or 'limit' in req, ['clauses'])
    if resp != real:
      ck.disagreement('OrderByClause/LimitClause/OkInjection vs OrderLimit model', req, real, resp)
    # (S) decision logic stated outright: ordered or limited (every k) predicates are never injectible
    if ('limit' in req or req.get('order_by')) and real.get('ok_injection'):
      ck.violation('ordered-or-limited-injectible:limit=%s' % req.get('limit'),
                   'a predicate with @OrderBy %r / @Limit %r is considered injectible' % (req.get('order_by'), req.get('limit')), req)
    if 'limit' in req and real.get('limit') != ' LIMIT %d' % req['limit']:
      ck.violation('limit-clause-lost:limit=%s' % req.get('limit'),
                   '@Limit(P, %r) yields clause %r' % (req['limit'], real.get('limit')), req)

  # ---------------- S: ordered rows on SQLite; consumers ----------------
  cases = [dict(c) for c in ck.corpus()]
  seen = set()
  while len(cases) < ck.budget(70, 1200):
    c = gen_case(ck.rng)
    if c['program'] in seen:
      continue
    seen.add(c['program'])
    cases.append(c)
  results = core.pmap(job, cases)
  reqs, meta = [], []
  for c, res in zip(cases, results):
    exp = c['expected']
    nontriv = (c['k'] is not None and c['k'] < c['nrows']) or exp['P'] != c['prow'][:len(exp['P'])]
    ck.case(c['program'], nontriv, ['shape:' + c['shape'], 'style:' + c['style'], 'keys:%d' % len(c['keys']),
                                    'k:' + ('none' if c['k'] is None else 'zero' if c['k'] == 0 else 'lt' if c['k'] < c['nrows'] else 'ge')])
    kk = 'k=%s' % ('0' if c['k'] == 0 else 'none' if c['k'] is None else 'pos')
    p = res['P']
    if p['kind'] != 'ok' or p['rows'] != exp['P']:
      ck.violation('ordered-rows-wrong:%s:%s' % (c['shape'], kk),
                   'P returned %r (%s %s), expected %r' % (p['rows'], p['kind'], p['message'], exp['P']),
                   {'program': c['program'], 'pred': 'P', 'expected': exp['P'], 'got': p['rows']})
    for q in ['Q1', 'Q2', 'Q3', 'Q4']:
      r = res[q]
      got = sorted(r['rows']) if r['kind'] == 'ok' else None
      if got != exp[q]:
        ck.violation('consumer-rows-wrong:%s:%s:%s' % (q, c['shape'], kk),
                     'consumer %s returned %r (%s %s), expected %r' % (q, got, r['kind'], r['message'], exp[q]),
                     {'program': c['program'], 'pred': q, 'expected': exp[q], 'got': got})
    reqs.append({'op': 'eval_ordered', 'rows': c['prow'], 'keys': [[col, 1 if d else 0] for col, d in c['keys']],
                 **({'limit': c['k']} if c['k'] is not None else {})})
    meta.append((c, p))
  for (c, p), resp in zip(meta, drv.ask_many(reqs)):
    ck.corr('evalOrdered-vs-sqlite')
    ck.traces_validated += 1
    if p['kind'] == 'ok' and resp.get('rows') != p['rows']:
      ck.disagreement('SQLite ORDER BY/LIMIT vs OrderLimit.evalOrdered', {'program': c['program']}, p['rows'], resp.get('rows'))


def replay(ck, rep):
  print(core.canon(rep))
