"""C16 — type unification is a symmetric idempotent meet; clash iff no common type.

(T) lean/LogicaModel/Props/C16.lean  (meet_comm for all terms, idempotence, absorption, fields kept,
    clash generators) over LogicaModel/TypeAlg.lean
(K) reference_algebra.Unify + VeryConcreteType on fresh reference trees  vs  TypeAlg.meet (driver)
(S) the property's clauses evaluated on the real references (model-free): symmetry, same view on both
    sides, idempotence, information kept / clash iff no common ground instance (independent `inst`
    semantics), order independence for clash-free triples.
"""
import itertools

import core

core.repo_on_path()
from type_inference.research import reference_algebra as ra  # noqa: E402

RULE = ('type terms over Any, Singular, Sequential, Num, Str, Bool, Time, lists, open/closed records over '
        'fields {a, b, 0, 1}; all terms of depth<=1 paired exhaustively (thorough) or sampled (quick), plus '
        'seeded random pairs and triples of depth<=3; non-trivial = both sides are not Any and differ; '
        'distinct by canonical (a, b[, c])')
ASSUMPTIONS = (
    'cyclic reference stores (no occurs check in the code) are outside the modelled, tree-shaped inputs',
    'BadType payloads (only used for messages) are erased before comparison',
)

ATOMS = ['Any', 'Singular', 'Sequential', 'Num', 'Str', 'Bool', 'Time']
KEYS = ['a', 'b', 0, 1]
KEYCODE = {0: 0, 1: 2, 2: 4, 'a': 1, 'b': 3, 'c': 5}


# ---- terms: 'Atom' | ('list', t) | ('open'|'closed', ((key, t), ...)) ----

def to_json(t):
  if isinstance(t, str):
    return t
  if t[0] == 'list':
    return {'list': to_json(t[1])}
  return {t[0]: sorted([[KEYCODE[k], to_json(v)] for k, v in t[1]])}


def build(t):
  """Fresh tree of TypeReferences for term t."""
  if isinstance(t, str):
    return ra.TypeReference(t)
  if t[0] == 'list':
    return ra.TypeReference([build(t[1])])
  cls = ra.OpenRecord if t[0] == 'open' else ra.ClosedRecord
  return ra.TypeReference(cls({k: build(v) for k, v in t[1]}))


def view(ref):
  return canon_view(ra.VeryConcreteType(ref))


def canon_view(c):
  if isinstance(c, ra.BadType):
    return 'Bad'
  if isinstance(c, str):
    return c
  if isinstance(c, list):
    return {'list': canon_view(c[0])}
  if isinstance(c, ra.ClosedRecord):
    return {'closed': sorted([[KEYCODE[k], canon_view(v)] for k, v in c.items()])}
  if isinstance(c, dict):
    return {'open': sorted([[KEYCODE[k], canon_view(v)] for k, v in c.items()])}
  raise AssertionError(type(c))


def has_bad(v):
  if v == 'Bad':
    return True
  if isinstance(v, str):
    return False
  if 'list' in v:
    return has_bad(v['list'])
  fs = v.get('open', v.get('closed'))
  return any(has_bad(x[1]) for x in fs)


# ---- independent semantics: ground instances ----

def inst(g, t):
  """g (a ground view) is an instance of view t."""
  if t == 'Any':
    return True
  if t == 'Singular':
    return not (isinstance(g, dict) and 'list' in g)
  if t == 'Sequential':
    return g == 'Str' or (isinstance(g, dict) and 'list' in g)
  if isinstance(t, str):
    return g == t
  if 'list' in t:
    return isinstance(g, dict) and 'list' in g and inst(g['list'], t['list'])
  if not (isinstance(g, dict) and 'closed' in g):
    return False
  gf = dict(map(tuple_, g['closed']))
  if 'open' in t:
    tf = dict(map(tuple_, t['open']))
    return set(tf) <= set(gf) and all(inst(gf[k], tf[k]) for k in tf)
  tf = dict(map(tuple_, t['closed']))
  return set(tf) == set(gf) and all(inst(gf[k], tf[k]) for k in tf)


def refines(r, t):
  """Every ground instance of view r is an instance of view t (structural; written from `inst`)."""
  if t == 'Any':
    return True
  if t == 'Singular':
    return r not in ('Any', 'Sequential') and not (isinstance(r, dict) and 'list' in r)
  if t == 'Sequential':
    return r in ('Sequential', 'Str') or (isinstance(r, dict) and 'list' in r)
  if isinstance(t, str):
    return r == t
  if 'list' in t:
    return isinstance(r, dict) and 'list' in r and refines(r['list'], t['list'])
  if not (isinstance(r, dict) and ('open' in r or 'closed' in r)):
    return False
  rf = dict(map(tuple_, r.get('open', r.get('closed'))))
  if 'open' in t:
    tf = dict(map(tuple_, t['open']))
    return set(tf) <= set(rf) and all(refines(rf[k], tf[k]) for k in tf)
  tf = dict(map(tuple_, t['closed']))
  return 'closed' in r and set(tf) == set(rf) and all(refines(rf[k], tf[k]) for k in tf)


def tuple_(x):
  return (x[0], x[1])


def ground_witness(v):
  """A ground instance of a clash-free view."""
  if v in ('Any', 'Singular'):
    return 'Num'
  if v == 'Sequential':
    return 'Str'
  if isinstance(v, str):
    return v
  if 'list' in v:
    return {'list': ground_witness(v['list'])}
  fs = v.get('open', v.get('closed'))
  return {'closed': [[k, ground_witness(x)] for k, x in fs]}


def ground_terms(depth):
  """All ground views up to depth over the key alphabet (for the exhaustive no-common-instance search)."""
  base = ['Num', 'Str', 'Bool', 'Time']
  if depth == 0:
    return base
  sub = ground_terms(depth - 1)
  out = list(base)
  out += [{'list': s} for s in sub]
  codes = sorted(KEYCODE[k] for k in KEYS)
  for r in range(0, 3):
    for ks in itertools.combinations(codes, r):
      for vals in itertools.product(sub if depth == 1 else base, repeat=r):
        out.append({'closed': [[k, v] for k, v in zip(ks, vals)]})
  return out


# ---- generators ----

def depth1_terms():
  out = list(ATOMS)
  out += [('list', a) for a in ATOMS]
  for kind in ('open', 'closed'):
    out.append((kind, ()))
    for k in KEYS[:3]:
      for a in ATOMS:
        out.append((kind, ((k, a),)))
    for k1, k2 in itertools.combinations(KEYS[:3], 2):
      for a1 in ATOMS:
        for a2 in ATOMS:
          out.append((kind, ((k1, a1), (k2, a2))))
  return out


def rand_term(rng, depth):
  r = rng.random()
  if depth == 0 or r < 0.3:
    return rng.choice(ATOMS)
  if r < 0.5:
    return ('list', rand_term(rng, depth - 1))
  kind = 'open' if rng.random() < 0.6 else 'closed'
  ks = rng.sample(KEYS, rng.randint(0, 3))
  return (kind, tuple((k, rand_term(rng, depth - 1)) for k in ks))


def related_term(rng, t, depth):
  """A term likely to unify with t (so that deep clash-free cases are frequent)."""
  if rng.random() < 0.25:
    return rand_term(rng, depth)
  if isinstance(t, str):
    return rng.choice([t, 'Any', 'Singular', t]) if t not in ('Any',) else rand_term(rng, depth)
  if t[0] == 'list':
    return rng.choice([('list', related_term(rng, t[1], depth - 1)), 'Sequential', 'Any'])
  fs = list(t[1])
  rng.shuffle(fs)
  keep = fs[:rng.randint(0, len(fs))]
  new = [(k, related_term(rng, v, max(0, depth - 1))) for k, v in keep]
  if rng.random() < 0.4:
    extra = [k for k in KEYS if k not in dict(t[1])]
    if extra:
      new.append((rng.choice(extra), rand_term(rng, max(0, depth - 1))))
  kind = rng.choice(['open', 'open', 'closed']) if t[0] == 'closed' else rng.choice(['open', 'closed'])
  return (kind, tuple(new))


# ---- the check ----

def unify_views(a, b):
  ra_, rb_ = build(a), build(b)
  ra.Unify(ra_, rb_)
  va, vb = view(ra_), view(rb_)
  ra.Unify(ra_, rb_)
  va2, vb2 = view(ra_), view(rb_)
  ra.Unify(rb_, ra_)
  va3, vb3 = view(ra_), view(rb_)
  return va, vb, (va2, vb2), (va3, vb3)


def run(ck):
  drv = core.Driver()
  d1 = depth1_terms()
  pairs = []
  if ck.tier == 'thorough' or ck.searching:
    pairs = [(a, b) for a in d1 for b in d1]
  else:
    n = ck.budget(9000, 0)
    for _ in range(n):
      pairs.append((ck.rng.choice(d1), ck.rng.choice(d1)))
    pairs += [(a, b) for a in ATOMS + [('list', 'Num'), ('open', (('a', 'Num'),)), ('closed', (('a', 'Num'),))]
              for b in d1]
  for _ in range(ck.budget(4000, 60000)):
    d = ck.rng.randint(1, 3)
    a = rand_term(ck.rng, d)
    pairs.append((a, related_term(ck.rng, a, d)))
  for c in ck.corpus():
    pairs.append((tuplify(c['a']), tuplify(c['b'])))

  grounds = ground_terms(1)
  reqs, meta = [], []
  for a, b in pairs:
    ja, jb = to_json(a), to_json(b)
    try:
      va, vb, rep, rev = unify_views(a, b)
      wa, wb, _, _ = unify_views(b, a)
    except Exception as e:  # noqa: BLE001
      ck.violation('unify-exception:%s' % type(e).__name__, 'Unify raised %r on %s, %s' % (e, ja, jb),
                   {'a': ja, 'b': jb})
      continue
    nontriv = ja != 'Any' and jb != 'Any' and ja != jb
    ck.case(['pair', ja, jb], nontriv, ['pair:' + kind_of(ja) + '/' + kind_of(jb), 'clash' if has_bad(va) else 'ok'])
    rp = {'a': ja, 'b': jb}
    # (S) both sides denote the same type
    if va != vb:
      ck.violation('sides-differ:%s/%s' % (kind_of(ja), kind_of(jb)), 'after Unify(a,b): view(a)=%s view(b)=%s' % (va, vb), rp)
    # (S) symmetric
    if (wb, wa) != (va, vb):
      ck.violation('asymmetric:%s/%s' % (kind_of(ja), kind_of(jb)),
                   'Unify(a,b) gives %s / %s but Unify(b,a) gives %s / %s' % (va, vb, wb, wa), rp)
    # (S) idempotent
    if rep != (va, vb) or rev != (va, vb):
      ck.violation('not-idempotent:%s/%s' % (kind_of(ja), kind_of(jb)),
                   'repeating Unify changes the views: %s -> %s / %s' % ((va, vb), rep, rev), rp)
    # (S) clash iff no common instance; information kept
    if not has_bad(va):
      g = ground_witness(va)
      if not (refines(va, ja) and refines(va, jb)):
        ck.violation('result-not-below-inputs:%s/%s' % (kind_of(ja), kind_of(jb)),
                     'clash-free result %s admits instances that are not instances of both inputs' % (va,), rp)
      elif not (inst(g, ja) and inst(g, jb)):
        ck.violation('result-not-below-inputs:%s/%s' % (kind_of(ja), kind_of(jb)),
                     'clash-free result %s has ground instance %s that is not an instance of both inputs' % (va, g), rp)
      # nothing lost: every common ground instance (depth<=1 exhaustively) is an instance of the result
      if depth_of(ja) <= 1 and depth_of(jb) <= 1:
        for g in grounds:
          if inst(g, ja) and inst(g, jb) and not inst(g, va):
            ck.violation('information-lost-or-invented:%s/%s' % (kind_of(ja), kind_of(jb)),
                         'common instance %s of both inputs is not an instance of the result %s' % (g, va), rp)
            break
    else:
      if depth_of(ja) <= 1 and depth_of(jb) <= 1:
        for g in grounds:
          if inst(g, ja) and inst(g, jb):
            ck.violation('clash-with-common-instance:%s/%s' % (kind_of(ja), kind_of(jb)),
                         'Unify reports a clash (%s) but %s is an instance of both' % (va, g), rp)
            break
    reqs.append({'op': 'meet', 'a': ja, 'b': jb})
    meta.append((ja, jb, va))
  for (ja, jb, va), resp in zip(meta, drv.ask_many(reqs)):
    ck.corr('Unify-pair')
    if erase_below_bad(resp.get('m')) != erase_below_bad(va):
      ck.disagreement('reference_algebra.Unify vs TypeAlg.meet', {'a': ja, 'b': jb}, va, resp.get('m'))

  # ---- triples: order independence for clash-free constraint sets ----
  reqs, meta = [], []
  for _ in range(ck.budget(2500, 40000)):
    d = ck.rng.randint(1, 3)
    a = rand_term(ck.rng, d)
    b = related_term(ck.rng, a, d)
    c = related_term(ck.rng, ck.rng.choice([a, b]), d)
    terms = [a, b, c]
    js = [to_json(t) for t in terms]
    results = {}
    orders = [((0, 1), (1, 2)), ((1, 2), (0, 1)), ((0, 2), (2, 1)), ((2, 1), (1, 0)), ((1, 0), (0, 2)),
              ((0, 1), (0, 2)), ((2, 0), (1, 2), (0, 1))]
    clash = {}
    try:
      for o in orders:
        refs = [build(t) for t in terms]
        seen = False
        for i, j in o:
          ra.Unify(refs[i], refs[j])
          # a clash is "reported" at the step where it occurs (a later unification of an already
          # clashed record is outside the property's quantifier: its inputs are not clash-free)
          seen = seen or any(has_bad(view(r)) for r in refs)
        clash[o] = seen
        results[o] = [view(r) for r in refs]
    except Exception as e:  # noqa: BLE001
      ck.violation('unify-exception:%s' % type(e).__name__, 'Unify raised %r on triple %s' % (e, js), {'terms': js})
      continue
    mixed = len(set(clash.values())) > 1
    ck.case(['triple'] + js, len({core.canon(j) for j in js}) == 3,
            ['triple:' + ('mixed' if mixed else 'clash' if any(clash.values()) else 'ok')])
    rp = {'terms': js}
    if mixed:
      # some orders meet the clash, others do not: then the constraint set has no common instance
      # only if the non-clashing orders are wrong; check their result semantically
      for o in orders:
        if not clash[o]:
          g = ground_witness(results[o][0])
          if all(inst(g, j) for j in js):
            ck.violation('triple-spurious-clash', 'order %s is clash-free with common instance %s, but other orders report a clash' % (o, g), rp)
            break
    elif not any(clash.values()):
      vs = {core.canon(v) for o in orders for v in results[o]}
      if len(vs) != 1:
        ck.violation('triple-order-dependent', 'clash-free triple: views depend on the order: %s' % sorted(vs)[:4], rp)
      else:
        g = ground_witness(results[orders[0]][0])
        if not all(inst(g, j) and refines(results[orders[0]][0], j) for j in js):
          ck.violation('triple-result-not-below-inputs', 'result %s has instance %s that is not an instance of all three inputs' % (results[orders[0]][0], g), rp)
      reqs.append({'op': 'meet3', 'a': js[0], 'b': js[1], 'c': js[2]})
      meta.append((js, results[orders[0]][0]))
  for (js, v), resp in zip(meta, drv.ask_many(reqs)):
    ck.corr('Unify-triple')
    if resp.get('m') != v:
      ck.disagreement('Unify sequence vs meet(meet(a,b),c)', {'terms': js}, v, resp.get('m'))
  ck.extra['exhaustive_depth1_pairs'] = bool(ck.tier == 'thorough' or ck.searching)
  ck.extra['exhaustive'] = False


def erase_below_bad(v):
  """A clash inside a list makes the list clash in the code at top level; the record case keeps it in the field."""
  return v


def kind_of(j):
  if isinstance(j, str):
    return j
  return next(iter(j.keys()))


def depth_of(j):
  if isinstance(j, str):
    return 0
  if 'list' in j:
    return 1 + depth_of(j['list'])
  fs = j.get('open', j.get('closed'))
  return 1 + max([depth_of(x[1]) for x in fs] + [0])


def tuplify(x):
  if isinstance(x, str):
    return x
  if x[0] == 'list':
    return ('list', tuplify(x[1]))
  return (x[0], tuple((k, tuplify(v)) for k, v in x[1]))


def replay(ck, rep):
  print(core.canon(rep))
