"""C07 — results do not depend on the textual order or naming used in a program.

(T) lean/LogicaModel/Props/C07.lean
(S) metamorphic, on the real code: the multiset returned on SQLite for every predicate of a generated
    program equals the one returned for its variants: permuted rules/facts, permuted conjuncts and disjuncts,
    consistently renamed variables (pool with SQL keywords, case variants, compiler-like names) and
    consistently renamed predicates (pool with SQL keywords). Tied ArgMin/ArgMax programs are skipped.
"""
import core
import gen_program as G
import metamorph as M
import semcheck
import templates

RULE = ('functor programs of C04 x 2 consistent renamings of all predicates to names that sort differently; '
        'generated programs over the full feature mask (aggregation, negation, injection, functional, nested '
        'combines) x 7 variants each (rule/fact permutation, conjunct/disjunct permutation, variable renaming '
        'with keyword pool, variable renaming with tricky pool, predicate renaming with keyword pool, predicate '
        'renaming with tricky pool); every predicate compared; non-trivial = non-empty result for some derived '
        'predicate; distinct by (program, variant)')
ASSUMPTIONS = ('element order of List and the choice among tied ArgMin/ArgMax candidates are excepted, as in the property',)

MASK = G.Gen.ALL


def run_corpus(ck):
  for c in ck.corpus():
    base = semcheck.job_real((c['program'], [c['pred']]))[c['pred']]
    var = semcheck.job_real((c['variant_program'], [c['variant_pred']]))[c['variant_pred']]
    ck.case(['corpus', c['_file']], True, ['corpus'])
    if base['kind'] == 'ok' and (var['kind'] != 'ok' or M.bag(var) != M.bag(base)):
      ck.violation(c['key'], 'corpus %s: renamed program gives %s (%s), original gives %s rows' % (
          c['_file'], var['kind'], var.get('message', '')[:150], len(base['rows'])),
          {'program': c['program'], 'variant_program': c['variant_program']})


FUNCTOR_POOLS = [['Aa', 'Bq', 'Cz', 'Dd', 'Ee', 'Ff', 'Gg', 'Hh', 'Ii', 'Jj', 'Kk', 'Ll', 'Mm', 'Nn', 'Oo', 'Pp'],
                 ['Zz', 'Yy', 'Xx', 'Ww', 'Vv', 'Uu', 'Tt', 'Ss', 'Rr', 'Qq', 'Po', 'Om', 'Nm', 'Ml', 'Lk', 'Kj']]


def functor_job(j):
  text, variants, preds = j
  base = semcheck.job_real((text, preds))
  outs = []
  for vname, vtext, ren in variants:
    res = semcheck.job_real((vtext, [ren[p] for p in preds]))
    outs.append((vname, {p: res[ren[p]] for p in preds}))
  return base, outs


def run_functor_programs(ck):
  """programs with functor applications (made predicates, chains, functors reaching made predicates through
  ordinary rules): consistent renaming of all user predicates - the new names sort differently from the old
  ones - must not change any result."""
  import re
  from props import c04
  progs, seen = [], set()
  tries = 0
  n = ck.budget(24, 200)
  while len(progs) < n and tries < 20 * n:
    tries += 1
    p = c04.gen_case(ck.rng)
    if not p.made or p.text() in seen:
      continue
    if c04.model_of(p) is None:
      continue
    seen.add(p.text())
    progs.append(p)
  jobs = []
  for p in progs:
    text = p.text()
    names = sorted(set(re.findall(r'\b([A-Z][A-Za-z0-9]*)\b', text)) - {'Engine'})
    variants = []
    for vi, pool in enumerate(FUNCTOR_POOLS):
      pool = list(pool)
      ck.rng.shuffle(pool)
      if len(names) > len(pool):
        continue
      ren = dict(zip(names, pool))
      vtext = re.sub(r'\b([A-Z][A-Za-z0-9]*)\b', lambda m: ren.get(m.group(1), m.group(1)), text)
      variants.append(('rename-preds-functor-%d' % vi, vtext, ren))
    jobs.append((text, variants, list(p.query)))
  for p, (text, variants, preds), (base, outs) in zip(progs, jobs, core.pmap(functor_job, jobs)):
    for (vname, vtext, ren), (_, res) in zip(variants, outs):
      ck.case([text, vname], any(base[q]['kind'] == 'ok' and base[q]['rows'] for q in preds), ['variant:' + vname, 'functor-program'])
      for q in preds:
        if base[q]['kind'] != 'ok' or res[q]['kind'] == 'too_big':
          continue
        rp = {'program': text, 'variant': vname, 'variant_program': vtext, 'pred': q, 'renamed_to': ren[q]}
        if res[q]['kind'] != 'ok':
          ck.violation('c07:%s:outcome:%s' % (vname[:-2], res[q]['kind']), 'variant %s: predicate %s (renamed %s) no longer evaluates: %s' % (
              vname, q, ren[q], res[q].get('message', '')[:160]), rp)
        elif sorted(map(tuple, base[q]['rows'])) != sorted(map(tuple, res[q]['rows'])):
          ck.violation('c07:%s:rows' % vname[:-2], 'variant %s changes predicate %s (renamed %s): %s... -> %s...' % (
              vname, q, ren[q], sorted(map(tuple, base[q]['rows']))[:3], sorted(map(tuple, res[q]['rows']))[:3]), rp)


def named_job(j):
  base_text, perm_text, preds = j
  return semcheck.job_real((base_text, preds)), semcheck.job_real((perm_text, preds))


def run_named_spelling(ck):
  """programs whose rules spell their named arguments in different orders (also in aggregating heads, where a
  diagnostic may reject the program: then nothing is judged): permuting the rules and facts at text level must
  not change the rows of any predicate, read by column name."""
  import json
  import random as _random
  made = semcheck.make_programs(ck, ck.budget(16, 200), MASK)
  made += semcheck.make_programs(ck, ck.budget(8, 100), None, {'templates': ['t_mixed_head', 't_named_multibody']}, builder=templates.build)
  jobs, meta = [], []
  for i, (pr, _) in enumerate(made):
    base = pr.text(G.Printer(named_order_rng=_random.Random(ck.seed * 31 + i), named_order_distinct=True))
    lines = base.split('\n')
    head, stmts = lines[:1], [l for l in lines[1:] if l.strip()]
    stmts = list(reversed(stmts))       # every pair of rules changes its relative order
    preds = [p.name for p in pr.preds if p.name not in pr.tie_preds and p.kind != 'facts']
    jobs.append((base, '\n'.join(head + stmts) + '\n', preds))
    meta.append(pr)
  for pr, (base_text, perm_text, preds), (b, v) in zip(meta, jobs, core.pmap(named_job, jobs)):
    ck.case([base_text, 'permute-rules-named-spelling'], any(b[q]['kind'] == 'ok' and b[q]['rows'] for q in preds), ['variant:permute-rules-named-spelling'])
    for q in preds:
      if b[q]['kind'] != 'ok' or v[q]['kind'] == 'too_big':
        if b[q]['kind'] == 'parsing':
          ck.features['named-spelling-rejected-by-diagnostic'] += 1
        continue
      rp = {'program': base_text, 'variant': 'permute-rules-named-spelling', 'variant_program': perm_text, 'pred': q}
      if v[q]['kind'] != 'ok':
        ck.violation('c07:permute-rules-named-spelling:outcome:%s' % v[q]['kind'], 'permuting rules makes %s fail: %s' % (q, v[q].get('message', '')[:160]), rp)
        continue
      def bag(res):
        return sorted(json.dumps(dict(zip(res['header'], row)), sort_keys=True, default=str) for row in res['rows'])
      if bag(b[q]) != bag(v[q]):
        ck.violation('c07:permute-rules-named-spelling:rows', 'permuting rules changes predicate %s: %s... -> %s...' % (q, bag(b[q])[:2], bag(v[q])[:2]), rp)


def run(ck):
  run_corpus(ck)
  run_functor_programs(ck)
  run_named_spelling(ck)
  n = ck.budget(26, 300)
  made = semcheck.make_programs(ck, n, MASK)
  made += semcheck.make_programs(ck, ck.budget(14, 150), None, {}, builder=templates.build)
  jobs, meta = [], []
  for pr, model in made:
    rng = ck.rng
    variants = []
    v = M.permute_rules(pr, rng)
    variants.append(('permute-rules', v.text(), {}))
    v = M.permute_conjuncts(pr, rng)
    variants.append(('permute-conjuncts', v.text(), {}))
    v = M.rename_variables(pr, rng, M.KEYWORD_VARS)
    variants.append(('rename-vars-keywords', v.text(), {}))
    v = M.rename_variables(pr, rng, M.TRICKY_VARS)
    variants.append(('rename-vars-tricky', v.text(), {}))
    v = M.rename_locals_apart(pr, rng)
    variants.append(('rename-locals-apart', v.text(), {}))
    v, m = M.rename_predicates(pr, rng, M.KEYWORD_PREDS)
    variants.append(('rename-preds-keywords', v.text(), m))
    v, m = M.rename_predicates(pr, rng, M.TRICKY_PREDS)
    variants.append(('rename-preds-tricky', v.text(), m))
    preds = [p.name for p in pr.preds if p.name not in pr.tie_preds and p.kind != 'facts']
    jobs.append((pr.text(), variants, preds))
    meta.append(pr)
  for pr, (base, outs) in zip(meta, core.pmap(M.job_variant, jobs)):
    text = pr.text()
    nonempty = any(base[p]['kind'] == 'ok' and base[p]['rows'] for p in base if not p.startswith('E'))
    for vname, res in outs:
      ck.case([text, vname], nonempty, ['variant:' + vname] + sorted(f for f in pr.features if ':' not in f))
      for p in pr.preds:
        if p.name not in base:
          continue
        b0, b1 = M.norm_bag(base[p.name], p), M.norm_bag(res[p.name], p)
        if res[p.name]['kind'] == 'too_big':
          ck.features['capacity-skipped'] += 1
          continue
        if base[p.name]['kind'] != 'ok':
          continue   # the original itself is rejected / fails: not C07's business (C01/C19 decide it)
        if b1 is None:
          msg = res[p.name].get('message', '')
          key = 'c07:%s:outcome:%s' % (vname, res[p.name]['kind'])
          if vname == 'rename-preds-keywords' and res[p.name]['kind'] == 'sql_error':
            key = 'sql-keyword-predicate-name'
          ck.violation(key, 'variant %s: predicate %s no longer evaluates (%s: %s)' % (vname, p.name, res[p.name]['kind'], msg[:200]),
                       {'program': text, 'variant': vname, 'variant_program': [t for n_, t, _ in jobs[meta.index(pr)][1] if n_ == vname][0], 'pred': p.name})
        elif b0 != b1 or base[p.name]['header'] != res[p.name]['header']:
          ck.violation('c07:%s:rows' % vname, 'variant %s changes predicate %s: %s... -> %s...' % (vname, p.name, b0[:3], b1[:3]),
                       {'program': text, 'variant': vname, 'variant_program': [t for n_, t, _ in jobs[meta.index(pr)][1] if n_ == vname][0], 'pred': p.name})


def replay(ck, rep):
  print(core.canon(rep))
