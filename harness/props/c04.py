"""C04 — functor application is predicate substitution.

(T) lean/LogicaModel/Props/C04.lean
(S) generated programs with functor applications (arguments reached through chains of intermediates,
    several arguments, functors of functor results, same functor with equal / different bindings, made
    predicates used as arguments and as functors, constants): rows of every made predicate and of every
    untouched original on SQLite versus the program in which the substitution was done by hand at AST
    level (clone + rename, independent of functors.py), and versus Sem.denote of that program.
"""
import copy
import json

import core
import gen_program as G
import semcheck
from gen_program import V, L, OP, Pred, Program
from templates import atom, AND, rule

RULE = ('layered programs of unary/binary integer predicates (3 fact tables, 3-6 derived predicates with 1-2 '
        'rules, bodies of 1-2 atoms + comparison against a constant predicate K()), 2-5 functor applications '
        'N := F(A: B, ...) with A among the (transitive) dependencies of F, B any earlier predicate incl. made '
        'ones, F possibly a made predicate; names of made predicates drawn from a pool sorting before/after the '
        'others; non-trivial = made predicate differs from its functor; distinct by program text')
ASSUMPTIONS = ('the hand substitution is clone-and-rename over the generator AST',)

MADE_NAMES = ['Aew', 'New', 'Zew', 'Made', 'Bmade', 'Qq', 'Hh', 'Gg', 'Cc', 'Ww']


def deps_of(rules):
  d = {}
  for r in rules:
    d.setdefault(r['head'], set()).update(semcheck.body_preds(r.get('body'), set()) | semcheck.body_preds(r.get('args'), set()))
  return d


def reach(d, p):
  seen, st = set(), [p]
  while st:
    x = st.pop()
    for y in d.get(x, ()):
      if y not in seen:
        seen.add(y)
        st.append(y)
  return seen


def rename_in(x, m):
  if isinstance(x, dict):
    out = {}
    for k, v in x.items():
      if k in ('atom', 'call') and v in m:
        out[k] = m[v]
      else:
        out[k] = rename_in(v, m)
    return out
  if isinstance(x, list):
    return [rename_in(v, m) for v in x]
  return x


def hand_substitute(rules, functor, sigma, new_name, counter):
  """Rules defining new_name := functor[sigma] by cloning every predicate between functor and dom(sigma)."""
  d = deps_of(rules)
  below = reach(d, functor) | {functor}
  S = {x for x in below if x not in sigma and ((reach(d, x) | {x}) & set(sigma))}
  S.add(functor)
  m = dict(sigma)
  for x in sorted(S):
    if x == functor:
      m[x] = new_name
    else:
      counter[0] += 1
      m[x] = '%s_c%d' % (x, counter[0])
  out = []
  for r in rules:
    if r['head'] in S:
      r2 = rename_in(copy.deepcopy(r), m)
      r2['head'] = m[r['head']]
      out.append(r2)
  return out, [m[x] for x in sorted(S)]


def gen_case(rng):
  prog = Program()
  sigs = {}
  # facts
  for i in range(3):
    name = 'T%d' % i
    arity = 1
    p = Pred(name, ['col0'], ['int'], 'facts')
    for v in sorted({rng.randint(0, 6) for _ in range(rng.randint(2, 4))}):
      prog.rules.append({'head': name, 'args': [['col0', L(v)]], 'distinct': False, 'body': None})
    if rng.random() < 0.3:
      prog.rules.append(copy.deepcopy(prog.rules[-1]))
    prog.preds.append(p)
    sigs[name] = 1
  # constant predicate
  kval = rng.randint(0, 3)
  prog.rules.append({'head': 'K', 'args': [['logica_value', L(kval)]], 'distinct': False, 'body': None})
  prog.preds.append(Pred('K', ['logica_value'], ['int'], 'functional'))
  kcall = {'call': 'K', 'args': []}
  avail = ['T0', 'T1', 'T2']
  x, y = V('x'), V('y')
  nd = rng.randint(3, 6)
  for i in range(nd):
    name = 'P%d' % i
    rules = []
    for _ in range(rng.randint(1, 2)):
      a = rng.choice(avail)
      r = rng.random()
      if r < 0.35:
        body = AND(atom(a, x), atom(rng.choice(avail), x))
      elif r < 0.6:
        body = AND(atom(a, x), {'test': OP(rng.choice(['>', '>=', '!=']), x, kcall)})
      elif r < 0.8:
        body = AND(atom(a, y), {'eq': [x, OP('+', y, L(rng.randint(0, 2)))]})
      else:
        body = {'or': [atom(a, x), atom(rng.choice(avail), x)]}
      rules.append(rule(name, [['col0', x]], body))
    prog.rules.extend(rules)
    prog.preds.append(Pred(name, ['col0'], ['int'], 'concrete'))
    avail.append(name)
  # functor applications interleaved with further ordinary predicates
  text_makes = []
  hand = Program()
  hand.rules = copy.deepcopy(prog.rules)
  hand.preds = list(prog.preds)
  counter = [0]
  made = []
  names = rng.sample(MADE_NAMES, len(MADE_NAMES))
  info = {'makes': []}
  last = None
  qn = 0

  def derive():
    nonlocal qn
    name = 'Q%d' % qn
    qn += 1
    a = rng.choice(made) if made and rng.random() < 0.7 else rng.choice(avail)
    r = rng.random()
    if r < 0.4:
      body = AND(atom(a, x), atom(rng.choice(avail), x))
    elif r < 0.7:
      body = {'or': [atom(a, x), atom(rng.choice(avail), x)]}
    else:
      body = atom(a, x)
    rl = rule(name, [['col0', x]], body)
    prog.rules.append(rl)
    hand.rules.append(copy.deepcopy(rl))
    prog.preds.append(Pred(name, ['col0'], ['int'], 'concrete'))
    hand.preds.append(Pred(name, ['col0'], ['int'], 'concrete'))
    avail.append(name)

  def derive_from(a):
    nonlocal qn
    name = 'Q%d' % qn
    qn += 1
    r = rng.random()
    if r < 0.4:
      rules = [rule(name, [['col0', x]], atom(a, x))]
    elif r < 0.7:
      rules = [rule(name, [['col0', x]], AND(atom(rng.choice(avail[:6]), x), atom(a, x)))]
    else:
      rules = [rule(name, [['col0', x]], atom(a, x)),
               rule(name, [['col0', x]], AND(atom(rng.choice(avail[:6]), x), {'test': OP('>', x, L(100))}))]
    for rl in rules:
      prog.rules.append(rl)
      hand.rules.append(copy.deepcopy(rl))
    prog.preds.append(Pred(name, ['col0'], ['int'], 'concrete'))
    hand.preds.append(Pred(name, ['col0'], ['int'], 'concrete'))
    avail.append(name)

  def make(f, sigma, const):
    new = names[len(made)]
    args_text = ['%s: %s' % (a, b) for a, b in sigma.items()]
    hs = dict(sigma)
    cname = None
    if const is not None:
      args_text.append('K: %d' % const)
      counter[0] += 1
      cname = 'Kconst_c%d' % counter[0]
      hand.rules.append({'head': cname, 'args': [['logica_value', L(const)]], 'distinct': False, 'body': None})
      hs['K'] = cname
    text_makes.append('%s := %s(%s);' % (new, f, ', '.join(args_text)))
    new_rules, clones = hand_substitute(hand.rules, f, hs, new, counter)
    hand.rules.extend(new_rules)
    for c in clones:
      hand.preds.append(Pred(c, ['col0'], ['int'], 'concrete'))
    if cname:
      hand.preds.append(Pred(cname, ['logica_value'], ['int'], 'functional'))
    prog.preds.append(Pred(new, ['col0'], ['int'], 'concrete'))
    avail.append(new)
    made.append(new)
    info['makes'].append({'new': new, 'functor': f, 'sigma': hs})
    return new

  for k in range(rng.randint(3, 7)):
    if len(made) >= len(names) - 1:
      break
    act = rng.random()
    d = deps_of(hand.rules)
    if made and act < 0.25:
      # a functor that reaches a made predicate only through ordinary intermediates, applied to an
      # argument the made predicate itself depends on
      h = rng.choice(made)
      deep = [z for z in reach(d, h) if '_c' not in z and z not in ('K', h)]
      if deep:
        before = len(avail)
        derive_from(h)
        g = avail[-1]
        if rng.random() < 0.6:
          derive_from(g)
        f = avail[-1]
        d = deps_of(hand.rules)
        a0 = rng.choice(deep)
        vals = [b for b in avail[:before] if b not in (a0, f, h) and b not in (reach(d, a0) | {a0}) and a0 not in reach(d, b)
                and f not in (reach(d, b) | {b})]
        if vals:
          make(f, {a0: rng.choice(vals)}, None)
          info.setdefault('patterns', []).append('through-made')
          continue
    if act < 0.4:
      derive()
      continue
    if act < 0.55 and last is not None:
      # the same functor again: same value for another argument / another value / identical binding
      f, sigma, const = last
      below = [z for z in reach(d, f) if '_c' not in z and z != 'K' and z != f]
      mode = rng.choice(['other-arg-same-value', 'other-value', 'identical'])
      if mode == 'other-arg-same-value' and sigma:
        val = list(sigma.values())[0]
        others = [z for z in below if z not in sigma and z != val and val not in (reach(d, z) | {z}) and z not in reach(d, val)]
        if others:
          make(f, {rng.choice(others): val}, None)
          info.setdefault('patterns', []).append(mode)
          continue
      if mode == 'other-value' and sigma:
        a0 = list(sigma.keys())[0]
        vals = [b for b in avail if b not in (a0, f, sigma[a0]) and b not in (reach(d, a0) | {a0}) and a0 not in reach(d, b)]
        if vals:
          make(f, {a0: rng.choice(vals)}, None)
          info.setdefault('patterns', []).append(mode)
          continue
      if mode == 'identical' and (sigma or const is not None):
        make(f, dict(sigma), const)
        info.setdefault('patterns', []).append(mode)
        continue
    cands = [p for p in avail if not p.startswith('T') and p != 'K' and (reach(d, p) - {'K'})]
    if not cands:
      derive()
      continue
    f = rng.choice(cands)
    nameable = [z for z in reach(d, f) if '_c' not in z and z != f]
    nonk = [z for z in nameable if z != 'K']
    if not nonk:
      continue
    dom = rng.sample(nonk, rng.randint(1, min(2, len(nonk))))
    sigma = {}
    for a in dom:
      choices = [b for b in avail if b != a and b != f and b not in (reach(d, a) | {a}) and a not in reach(d, b) and f not in (reach(d, b) | {b})]
      if choices:
        sigma[a] = rng.choice(choices)
    const = rng.randint(0, 4) if ('K' in nameable and rng.random() < 0.25) else None
    if not sigma and const is None:
      continue
    make(f, sigma, const)
    last = (f, sigma, const)
  prog.extra_text = text_makes
  # order the hand program's predicates topologically for the reference evaluator
  d = deps_of(hand.rules)
  order, seen = [], set()

  def visit(p):
    if p in seen:
      return
    seen.add(p)
    for q in sorted(d.get(p, ())):
      visit(q)
    order.append(p)
  byname = {p.name: p for p in hand.preds}
  for p in hand.preds:
    visit(p.name)
  hand.preds = [byname[n] for n in order if n in byname]
  prog.hand = hand
  prog.made = made
  prog.info = info
  prog.query = [p.name for p in prog.preds if p.kind != 'facts' and p.name != 'K']
  return prog


def job(prog):
  real = semcheck.job_real((prog.text(), prog.query))
  hand = semcheck.job_real((prog.hand.text(), prog.query))
  return real, hand


def model_of(prog):
  """Reference result of the hand-substituted program, or None when it is too big to be a useful case
  (multiplicities square through chains of functor applications)."""
  import json
  import subprocess
  req = semcheck.model_requests(prog.hand, [q for q in prog.hand.preds if q.name in prog.query])
  try:
    o = subprocess.run([core.DRIVER], input=(json.dumps(req, ensure_ascii=False) + '\n').encode('utf-8'),
                       stdout=subprocess.PIPE, stderr=subprocess.PIPE, timeout=5)
    model = json.loads(o.stdout.decode('utf-8'))
  except Exception:  # noqa: BLE001
    return None
  if 'result' in model and max([len(v) for v in model['result'].values()] + [0]) > 2000:
    return None
  return model


def run(ck):
  progs, models, seen = [], [], set()
  n = ck.budget(110, 1200)
  tries = 0
  while len(progs) < n and tries < 10 * n:
    batch = []
    while len(batch) < 2 * (n - len(progs)) and tries < 10 * n:
      tries += 1
      p = gen_case(ck.rng)
      if not p.made or p.text() in seen:
        continue
      seen.add(p.text())
      batch.append(p)
    for p, m in zip(batch, core.pmap(model_of, batch)):
      if m is not None and len(progs) < n:
        progs.append(p)
        models.append(m)
      elif m is None:
        ck.features['generated-too-big-discarded'] += 1
  results = core.pmap(job, progs)
  for p, (real, hand), model in zip(progs, results, models):
    text = p.text()
    nontriv = False
    for mk in p.info['makes']:
      a, b = real.get(mk['new']), real.get(mk['functor'])
      if a and b and a['kind'] == 'ok' and b['kind'] == 'ok' and sorted(map(tuple, a['rows'])) != sorted(map(tuple, b['rows'])):
        nontriv = True
    ck.case(text, nontriv, ['makes:%d' % len(p.info['makes'])] +
            (['functor-of-made'] if any(m['functor'] in p.made for m in p.info['makes']) else []) +
            (['made-as-argument'] if any(set(m['sigma'].values()) & set(p.made) for m in p.info['makes']) else []) +
            (['constant-argument'] if any('K' in m['sigma'] for m in p.info['makes']) else []) +
            (['two-arguments'] if any(len(m['sigma']) > 1 for m in p.info['makes']) else []) +
            ['pattern:' + x for x in p.info.get('patterns', [])])
    ck.corr('functor-vs-hand-substitution', len(p.query))
    if 'error' in model:
      ck.notes.append('reference evaluator error: ' + model['error'])
      ck.features['model-error'] += 1
    for q in p.query:
      r, h = real[q], hand[q]
      rp = {'program': text, 'hand_substituted_program': p.hand.text(), 'pred': q, 'makes': p.info['makes']}
      kind = 'made' if q in p.made else ('user-of-made' if q.startswith('Q') else 'original')
      if 'too_big' in (h['kind'], r['kind']):
        ck.features['capacity-skipped'] += 1
        continue
      if h['kind'] != 'ok':
        ck.notes.append('hand-substituted program does not evaluate: %s' % h.get('message', '')[:100])
        continue
      if r['kind'] != 'ok':
        ck.violation('c04:%s:outcome:%s' % (kind, r['kind']), 'predicate %s: %s %s, but the hand-substituted program evaluates' % (
            q, r['kind'], r.get('message', '')[:200]), rp)
        continue
      a, b = sorted(map(tuple, r['rows'])), sorted(map(tuple, h['rows']))
      if a != b:
        ck.violation('c04:%s:rows' % kind, 'predicate %s: functor application gives %s, substitution by hand gives %s' % (q, a[:8], b[:8]), rp)
      elif 'result' in model and q in model['result']:
        m = sorted(tuple(v for _, v in row) for row in model['result'][q])
        if m != a:
          ck.violation('c04:%s:rows-vs-denotation' % kind, 'predicate %s: SQLite %s, denotation of the substituted program %s' % (q, a[:8], m[:8]), rp)


def replay(ck, rep):
  print(core.canon(rep))
