"""C17 — grounded predicates are materialised faithfully and re-running is idempotent.

(T) lean/LogicaModel/Props/C17.lean (script / store machine: post-order scripts are faithful; re-running is idempotent)
(S) generated programs with 1-3 @Ground-ed intermediates and @AttachDatabase("logica_home", <scratch file>):
    histories of runs of their predicates through the `logica.py run` SQLite path against one persistent
    database file; after every run the returned rows equal Sem.denote, every grounded table the run had to
    produce holds exactly the denotation of its predicate, repeated runs return the same rows and leave the
    same tables, and running a grounded predicate itself does not write its table (a sentinel row survives).
"""
import json
import os
import shutil
import sqlite3

import core
import gen_program as G
import realcode as R
import semcheck
from gen_program import V, L, OP, Pred, Program
from templates import atom, AND, rule, fact_pred, derived

RULE = ('generated programs (scalar-typed derived predicates, aggregation, negation, functional predicates, flags '
        'inside grounded predicates, shared non-injectable WITH helper chains read by 3+ consumers) with 1-3 grounded '
        'predicates; histories of 4 (quick) runs incl. repetitions and runs of grounded predicates themselves '
        'against one database file; non-trivial = some grounded table is non-empty; distinct by (program, history)')
ASSUMPTIONS = ("SQLite's DDL, ATTACH and file persistence are not modelled", 'overwrite:false and copy_to_file are outside the property')


def scalar(p):
  return all(t in ('int', 'str') for t in p.types)


def helper_chain_program(rng):
  """V (two rules) <- W (two rules) <- consumers T1..T3 (grounded) + Mix: WITH helpers recompiled per consumer."""
  prog = Program()
  fact_pred(prog, rng, 'A', 1, rng.randint(2, 4), (1, 2, 3, 4))
  fact_pred(prog, rng, 'B', 1, rng.randint(2, 4), (2, 3, 4, 5))
  x = V('x')
  derived(prog, 'Vv', ['col0'], ['int'], [rule('Vv', [['col0', x]], atom('A', x)), rule('Vv', [['col0', OP('+', x, L(10))]], atom('B', x))])
  derived(prog, 'Ww', ['col0'], ['int'], [rule('Ww', [['col0', x]], atom('Vv', x)), rule('Ww', [['col0', OP('*', x, L(2))]], AND(atom('Vv', x), {'test': OP('<', x, L(4))}))])
  n = rng.randint(2, 4)
  for i in range(n):
    derived(prog, 'T%d' % i, ['col0'], ['int'], [rule('T%d' % i, [['col0', OP('+', x, L(i))]], AND(atom('Ww', x), {'test': OP('>', x, L(i))}))])
  derived(prog, 'Mix', ['col0'], ['int'], [rule('Mix', [['col0', x]], {'or': [atom('T%d' % i, x) for i in range(n)] + [atom('Ww', x)]})])
  prog.grounded = ['T%d' % i for i in range(n)]
  prog.features.add('tpl:with-helper-chain')
  return prog


def flag_program(rng):
  prog = Program()
  p = Pred('Greeting', ['col0', 'col1'], ['int', 'str'], 'facts')
  who = rng.choice(['world', "it''s", 'a b'])
  vals = ['hello ${who}', 'bye', '${who}!']
  for i, s in enumerate(vals):
    prog.rules.append({'head': 'Greeting', 'args': [['col0', L(i)], ['col1', L(s)]], 'distinct': False, 'body': None})
  prog.preds.append(p)
  x, s = V('x'), V('s')
  derived(prog, 'Tt', ['col0', 'col1'], ['int', 'str'], [rule('Tt', [['col0', x], ['col1', OP('++', s, L(' [${who}]'))]], atom('Greeting', x, s))])
  derived(prog, 'Ss', ['col0'], ['str'], [rule('Ss', [['col0', s]], AND(atom('Tt', x, s), {'test': OP('<', x, L(2))}))])
  prog.annotations.append('@DefineFlag("who", "%s");' % who)
  prog.grounded = ['Tt']
  prog.flag = ('who', who.replace("''", "'"))
  prog.features.add('tpl:flag-in-grounded')
  return prog


def substitute_flag(x, name, value):
  if isinstance(x, dict):
    if 'lit' in x and isinstance(x['lit'], str):
      return {'lit': x['lit'].replace('${%s}' % name, value)}
    return {k: substitute_flag(v, name, value) for k, v in x.items()}
  if isinstance(x, list):
    return [substitute_flag(v, name, value) for v in x]
  return x


def wrapper_program(rng):
  """a single-rule grounded predicate that its consumers reach only through un-annotated single-rule wrappers"""
  prog = Program()
  fact_pred(prog, rng, 'Src', 2, rng.randint(2, 5), (0, 1, 2, 3))
  x, y = V('x'), V('y')
  derived(prog, 'Tg', ['col0', 'col1'], ['int', 'int'],
          [rule('Tg', [['col0', x], ['col1', OP('+', y, L(rng.choice([0, 1, 5])))]], atom('Src', x, y))])
  depth = rng.randint(1, 2)
  prev = 'Tg'
  for i in range(depth):
    name = 'Wrap%d' % i
    body = atom(prev, x, y) if rng.random() < 0.5 else AND(atom(prev, x, y), {'test': OP('>=', x, L(0))})
    derived(prog, name, ['col0', 'col1'], ['int', 'int'], [rule(name, [['col0', x], ['col1', y]], body)])
    prev = name
  derived(prog, 'Use', ['col0'], ['int'], [rule('Use', [['col0', y]], atom(prev, x, y))])
  derived(prog, 'Use2', ['col0'], ['int'], [rule('Use2', [['col0', OP('+', x, y)]], AND(atom(prev, x, y), atom('Src', x, V('z'))))])
  prog.grounded = ['Tg']
  prog.features.add('tpl:grounded-behind-wrapper')
  return prog


def build(rng, mask, kwargs):
  r = kwargs['_seed'] % 7
  if r == 2:
    return wrapper_program(rng)
  if r == 0:
    return helper_chain_program(rng)
  if r == 1:
    return flag_program(rng)
  prog = G.Gen(rng, G.Gen.ALL - {'lists', 'records', 'injectible'}).generate()
  cands = [p.name for p in prog.preds if p.kind != 'facts' and scalar(p)]
  rng.shuffle(cands)
  prog.grounded = cands[:rng.randint(1, 3)]
  return prog


def strong_preds(x, acc):
  """predicates read outside aggregating expressions (an unused aggregating expression is dropped by the
  compiler, so a table mentioned only there need not be produced)"""
  if isinstance(x, dict):
    if 'agg' in x:
      return acc
    if 'atom' in x:
      acc.add(x['atom'])
    if 'call' in x:
      acc.add(x['call'])
    for v in x.values():
      strong_preds(v, acc)
  elif isinstance(x, list):
    for v in x:
      strong_preds(v, acc)
  return acc


def deps_closure(prog, strong=False):
  d = {}
  f = strong_preds if strong else semcheck.body_preds
  for r in prog.rules:
    d.setdefault(r['head'], set()).update(f(r.get('body'), set()) | f(r.get('args'), set()))
  def reach(p):
    seen, st = set(), [p]
    while st:
      q = st.pop()
      for y in d.get(q, ()):
        if y not in seen:
          seen.add(y)
          st.append(y)
    return seen
  return {p.name: reach(p.name) for p in prog.preds}


def table_rows(dbfile, name):
  con = sqlite3.connect(dbfile)
  try:
    cur = con.execute('SELECT * FROM "%s"' % name)
    return [d[0] for d in cur.description], [list(r) for r in cur.fetchall()]
  except sqlite3.OperationalError:
    return None
  finally:
    con.close()


def job(j):
  """j = (program text with annotations, history [preds], grounded, db file) -> list of step observations"""
  text, history, grounded, dbfile = j
  if os.path.exists(dbfile):
    os.remove(dbfile)
  obs = []
  for step, p in enumerate(history):
    sentinel = None
    if p in grounded and table_rows(dbfile, p) is not None:
      # running a grounded predicate itself must not write its table: plant a sentinel
      con = sqlite3.connect(dbfile)
      con.execute('DELETE FROM "%s"' % p)
      con.commit()
      con.close()
      sentinel = 'emptied'
    r = semcheck.job_real((text, [p]))[p]
    o = {'pred': p, 'kind': r['kind'], 'message': r.get('message', '')[:300], 'header': r.get('header'), 'rows': r.get('rows'),
         'tables': {g: table_rows(dbfile, g) for g in grounded}, 'sentinel': sentinel}
    obs.append(o)
  if os.path.exists(dbfile):
    os.remove(dbfile)
  return obs


def run(ck):
  scratch = core.scratch_dir()
  try:
    made = semcheck.make_programs(ck, ck.budget(60, 700), None, {}, builder=build)
    jobs, meta = [], []
    for i, (pr, model) in enumerate(made):
      if 'error' in model:
        continue
      if getattr(pr, 'flag', None):
        # the reference denotation of the program with the flag expanded
        pr2 = Program()
        pr2.preds, pr2.rules = pr.preds, substitute_flag(pr.rules, *pr.flag)
        model = core.Driver().ask(semcheck.model_requests(pr2, pr2.preds))
      dbfile = os.path.join(scratch, 'db%d.sqlite' % i)
      ann = ['@AttachDatabase("logica_home", "%s");' % dbfile] + ['@Ground(%s);' % g for g in pr.grounded]
      text = pr.text()
      head, rest = text.split('\n', 1)
      text = head + '\n' + '\n'.join(ann) + '\n' + rest
      derived_preds = [p.name for p in pr.preds if p.kind != 'facts' and p.name not in pr.tie_preds]
      if not derived_preds:
        continue
      hist = [ck.rng.choice(derived_preds) for _ in range(ck.budget(4, 8))]
      # always: a consumer of a grounded predicate twice in a row, and the grounded predicate itself afterwards
      cl = deps_closure(pr)
      scl = deps_closure(pr, strong=True)
      consumers = [p for p in derived_preds if cl[p] & set(pr.grounded)]
      if consumers:
        c = ck.rng.choice(consumers)
        hist = [c, c] + hist[2:]
        g = ck.rng.choice(sorted(cl[c] & set(pr.grounded)))
        if g in derived_preds:
          hist.append(g)
      jobs.append((text, hist, list(pr.grounded), dbfile))
      meta.append((pr, model, (cl, scl), text, hist))
    for (pr, model, (cl, scl), text, hist), obs in zip(meta, core.pmap(job, jobs)):
      byname = {p.name: p for p in pr.preds}
      nonempty = any(model['result'].get(g) for g in pr.grounded)
      ck.case([text, hist], nonempty, sorted(f for f in pr.features if f.startswith(('tpl:', 'kind:'))) + ['grounded:%d' % len(pr.grounded)])
      ck.traces_validated += 1
      produced = {}     # grounded table -> expected rows once produced
      first_rows = {}
      for step, o in enumerate(obs):
        p = byname[o['pred']]
        rp = {'program': text, 'history': hist, 'step': step, 'pred': p.name}
        exp = semcheck.canon_model_rows(model['result'][p.name], p)
        if o['kind'] == 'too_big':
          ck.features['capacity-skipped'] += 1
          break
        if o['kind'] != 'ok':
          ck.violation('c17:run-fails:%s' % o['kind'], 'step %d: running %s fails: %s %s' % (step, p.name, o['kind'], o['message'][:160]), rp)
          break
        got = semcheck.canon_real_rows({'rows': o['rows'], 'header': o['header']}, p)
        if got != exp:
          ck.violation('c17:rows-differ', 'step %d: run of %s returns %s..., the denotation is %s...' % (step, p.name, got[:3], exp[:3]), rp)
        if p.name in first_rows and first_rows[p.name] != got:
          ck.violation('c17:rerun-differs', 'step %d: running %s again returns different rows' % (step, p.name), rp)
        first_rows.setdefault(p.name, got)
        needed = (cl[p.name] & set(pr.grounded)) - {p.name}
        for g in pr.grounded:
          t = o['tables'][g]
          gp = byname[g]
          gexp = semcheck.canon_model_rows(model['result'][g], gp)
          if g in needed:
            if g not in scl[p.name]:
              # only mentioned inside aggregating expressions: the compiler may drop the unused expression and then
              # neither creates nor refreshes the table (which the sentinel of an earlier step may have emptied)
              continue
            if t is None:
              ck.violation('c17:grounded-table-missing', 'step %d: after running %s the table of @Ground(%s) does not exist' % (step, p.name, g), rp)
              continue
            tg = semcheck.canon_real_rows({'rows': t[1], 'header': t[0]}, gp)
            if tg != gexp or list(t[0]) != list(gp.cols):
              ck.violation('c17:grounded-table-wrong', 'step %d: after running %s the table of %s holds %s..., its predicate denotes %s...' % (
                  step, p.name, g, tg[:3], gexp[:3]), rp)
            produced[g] = tg
          elif g == p.name:
            if o['sentinel'] == 'emptied' and t is not None and t[1]:
              ck.violation('c17:print-writes-table', 'step %d: running the grounded predicate %s itself rewrote its table' % (step, g), rp)
            elif o['sentinel'] is None and t is not None and g not in produced:
              ck.violation('c17:print-writes-table', 'step %d: running the grounded predicate %s itself created its table' % (step, g), rp)
          elif g in produced and t is not None:
            tg = semcheck.canon_real_rows({'rows': t[1], 'header': t[0]}, gp)
            if tg != produced[g] and not (o['sentinel'] is None and False):
              # a table emptied by the sentinel of an earlier step may legitimately stay empty
              if tg:
                ck.violation('c17:unrelated-table-changed', 'step %d: running %s changed the table of %s' % (step, p.name, g), rp)
  finally:
    shutil.rmtree(scratch, ignore_errors=True)


def replay(ck, rep):
  print(core.canon(rep))
