"""C19 — invalid programs are rejected with a diagnostic, never compiled to wrong SQL.

(T) lean/LogicaModel/Props/C19.lean
(S) model-free: every single-point corruption (fixed catalogue of operators) of every generated valid
    program must raise one of the tool's four diagnostic exception classes (ParsingException,
    RuleCompileException, FunctorError, TypeErrorCaughtException) whose text identifies the offending rule,
    variable or predicate; producing SQL, or any other exception, is a violation.
"""
import copy
import re

import core
import gen_program as G
import realcode as R
import semcheck
from gen_program import V, L, OP
from props import c03, c04

RULE = ('valid generated programs x corruption catalogue: unbound head variable, unbound comparison variable, '
        'unbound variable shared by head and negation only, unbound `in` container, unbound assignment source, '
        'aggregation without distinct, inconsistent distinct, recursion without base case, functor applied to a '
        'non-dependency (also one that the passed value reads), annotation of a missing predicate (7 annotation kinds, after a valid annotation of the '
        'same kind), unbalanced bracket / quote (insert or delete); non-trivial = the uncorrupted program '
        'compiles; distinct by corrupted text; random programs with annotations on existing / missing predicates and '
        'random distinct denotations against the decision-logic model')
ASSUMPTIONS = ()

DIAG = ('parsing', 'rule_compile', 'functor', 'type')


def body_conjs(r):
  b = r.get('body')
  if b is None:
    return []
  return list(b['and']) if 'and' in b else [b]


def set_body(r, conjs):
  r['body'] = None if not conjs else ({'and': conjs} if len(conjs) > 1 else conjs[0])


def rules_with_body(prog):
  return [i for i, r in enumerate(prog.rules) if r.get('body') is not None and not r['head'].startswith('E')]


def corruptions(rng, pr):
  """yields (operator, program text, predicate to compile, name that the diagnostic should mention)"""
  out = []
  idx = rules_with_body(pr)
  if idx:
    # 1. unbound head variable
    p = copy.deepcopy(pr)
    r = p.rules[rng.choice(idx)]
    plain = [a for a in r['args'] if not (isinstance(a[1], dict) and 'aggop' in a[1])]
    if plain:
      a = rng.choice(plain)
      a[1] = V('unbound_h')
      out.append(('unbound-head-variable', p.text(), r['head'], 'unbound_h'))
    # 2. unbound comparison variable
    p = copy.deepcopy(pr)
    r = p.rules[rng.choice(idx)]
    set_body(r, body_conjs(r) + [{'test': OP(rng.choice(['<', '>', '!=']), V('unbound_c'), L(3))}])
    out.append(('unbound-comparison-variable', p.text(), r['head'], 'unbound_c'))
    # 3. variable shared by the head and a negation only
    p = copy.deepcopy(pr)
    r = p.rules[rng.choice(idx)]
    q = rng.choice([x for x in pr.preds if x.kind == 'facts'])
    nargs = [[q.cols[0], V('unbound_n')]] + [[c, V('nn%d' % i)] for i, c in enumerate(q.cols[1:]) if q.positional()]
    plain = [a for a in r['args'] if not (isinstance(a[1], dict) and 'aggop' in a[1])]
    if plain:
      plain[0][1] = V('unbound_n')
      set_body(r, body_conjs(r) + [{'not': {'atom': q.name, 'args': nargs}}])
      out.append(('unbound-negation-variable', p.text(), r['head'], 'unbound_n'))
    # 4. unbound `in` container
    p = copy.deepcopy(pr)
    r = p.rules[rng.choice(idx)]
    set_body(r, body_conjs(r) + [{'in': [V('elem_v'), rng.choice([V('unbound_l'), OP('Range', V('unbound_l'))])]}])
    out.append(('unbound-in-container', p.text(), r['head'], 'unbound_l'))
    # 5. assignment from an unbound variable, result used in the head
    p = copy.deepcopy(pr)
    r = p.rules[rng.choice(idx)]
    plain = [a for a in r['args'] if not (isinstance(a[1], dict) and 'aggop' in a[1])]
    if plain:
      plain[-1][1] = V('assigned_v')
      set_body(r, body_conjs(r) + [{'eq': [V('assigned_v'), OP('+', V('unbound_a'), L(1))]}])
      out.append(('unbound-assignment-source', p.text(), r['head'], 'unbound_a'))
  # 6. aggregation without distinct / 7. inconsistent distinct
  aggr = [i for i, r in enumerate(pr.rules) if any(isinstance(a[1], dict) and 'aggop' in a[1] and a[0] != 'logica_value' for a in r['args'])]
  if aggr:
    p = copy.deepcopy(pr)
    i = rng.choice(aggr)
    h = p.rules[i]['head']
    for r in p.rules:
      if r['head'] == h:
        r['distinct'] = False
    out.append(('aggregation-without-distinct', p.text(), h, h))
    same = [j for j in aggr if pr.rules[j]['head'] == pr.rules[i]['head']]
    if len(same) >= 2:
      p = copy.deepcopy(pr)
      p.rules[same[0]]['distinct'] = False
      for a in p.rules[same[0]]['args']:
        if isinstance(a[1], dict) and 'aggop' in a[1]:
          a[1] = a[1]['e']
      out.append(('inconsistent-distinct', p.text(), h, h))
  dist = [i for i, r in enumerate(pr.rules) if not r.get('distinct') and r.get('body') is not None and not aggr]
  multi = {}
  for i, r in enumerate(pr.rules):
    if r.get('body') is not None:
      multi.setdefault(r['head'], []).append(i)
  for h, ii in multi.items():
    if len(ii) >= 2 and not pr.rules[ii[0]].get('distinct') and not any(isinstance(a[1], dict) and 'aggop' in a[1] for a in pr.rules[ii[0]]['args']):
      p = copy.deepcopy(pr)
      p.rules[ii[0]]['distinct'] = True
      out.append(('inconsistent-distinct', p.text(), h, h))
      break
  # 9. annotation of a missing predicate, after a valid one of the same kind
  derived = [x.name for x in pr.preds if x.kind not in ('facts',)]
  if derived:
    kind = rng.choice(['OrderBy', 'Limit', 'NoInject', 'With', 'NoWith'])
    arg = {'OrderBy': ', "col0"', 'Limit': ', 3'}.get(kind, '')
    valid = '@%s(%s%s);\n' % (kind, rng.choice(derived), arg) if rng.random() < 0.7 else ''
    text = pr.text()
    head, rest = text.split('\n', 1)
    bad = '@%s(MissingPred%s);\n' % (kind, arg)
    pos = rng.choice(['after', 'before'])
    out.append(('annotation-of-missing-predicate:' + ('after-valid' if valid and pos == 'after' else 'alone-or-first'),
                head + '\n' + (valid + bad if pos == 'after' else bad + valid) + rest, rng.choice(derived), 'MissingPred'))
  # 10. unbalanced input
  text = pr.text()
  body_start = text.find('\n') + 1
  sites = [m.start() for m in re.finditer(r'[()\[\]{}]', text) if m.start() > body_start and not in_string(text, m.start())]
  if sites:
    s = rng.choice(sites)
    out.append(('unbalanced:delete-bracket', text[:s] + text[s + 1:], (derived or ['E0'])[0], None))
    s = rng.choice(sites)
    out.append(('unbalanced:insert-bracket', text[:s] + rng.choice('([{)]}') + text[s:], (derived or ['E0'])[0], None))
  strs = [m.start() for m in re.finditer(r'"', text) if m.start() > body_start]
  if strs:
    s = rng.choice(strs)
    out.append(('unbalanced:delete-quote', text[:s] + text[s + 1:], (derived or ['E0'])[0], None))
  return out


def in_string(text, pos):
  line_start = text.rfind('\n', 0, pos) + 1
  return text.count('"', line_start, pos) % 2 == 1


def special_cases(rng):
  out = []
  # 7. recursion without a base case
  for _ in range(3):
    pr = c03.gen_case(rng)
    shape = pr.info['shape']
    if shape in ('tc-set', 'tc-bag', 'two-cycle', 'three-cycle', 'counter'):
      p = copy.deepcopy(pr)
      rec_names = {n for c in pr.rec for n in c}
      before = len(p.rules)
      p.rules = [r for r in p.rules if not (r['head'] in rec_names and not (semcheck.body_preds(r.get('body'), set()) & rec_names))]
      if len(p.rules) < before:
        out.append(('recursion-without-base-case:' + shape, p.text(), pr.query[0], sorted(rec_names)))
  # 8. functor applied to a predicate it does not depend on
  for _ in range(4):
    pr = c04.gen_case(rng)
    d = c04.deps_of(pr.hand.rules)
    cands = [x.name for x in pr.preds if x.name.startswith('P')]
    if not cands:
      continue
    f = rng.choice(cands)
    non = [t for t in ['T0', 'T1', 'T2'] + cands if t != f and t not in c04.reach(d, f)]
    if not non:
      continue
    a = rng.choice(non)
    b = rng.choice([t for t in ['T0', 'T1', 'T2'] if t != a])
    text = pr.text() + 'Wrongly := %s(%s: %s);\n' % (f, a, b)
    out.append(('functor-on-non-dependency', text, 'Wrongly', a))
    # the same with a value that itself reads the non-dependency (the argument is "known" only through the value)
    readers = [t for t in cands if t != f and t != a and a in c04.reach(d, t)]
    if readers:
      b2 = rng.choice(readers)
      out.append(('functor-on-non-dependency-read-by-value', pr.text() + 'Wrongly := %s(%s: %s);\n' % (f, a, b2), 'Wrongly', a))
    else:
      # build one: Reader reads the non-dependency
      extra = 'Reader(x) :- %s(x);\n' % a
      out.append(('functor-on-non-dependency-read-by-value', pr.text() + extra + 'Wrongly := %s(%s: Reader);\n' % (f, a), 'Wrongly', a))
  return out


def job(j):
  op, text, pred, mention = j
  c = R.compile_pred(text, pred)
  d = {'kind': c.kind, 'message': getattr(c, 'message', '')[:600], 'exc_type': getattr(c, 'exc_type', '')}
  if c.kind == 'ok':
    d['sql'] = c.sql[:400]
  return d


ANN_FORMS = {'@Limit': '@Limit(%s, 3);', '@OrderBy': '@OrderBy(%s, "col0");', '@NoInject': '@NoInject(%s);', '@With': '@With(%s);',
             '@NoWith': '@NoWith(%s);', '@Ground': '@Ground(%s);'}


def decision_case(rng):
  """a program of a few one-column predicates with random annotations (on existing and on missing predicates) and
  random distinct denotations per rule -> (text, annotations in program order, rules [(pred, distinct)])"""
  preds = ['Aa', 'Bb', 'Cc'][:rng.randint(1, 3)]
  lines = ['@Engine("sqlite");', 'T(1);', 'T(2);']
  rules = [('T', False), ('T', False)]
  anns = []
  for _ in range(rng.randint(0, 4)):
    a = rng.choice(sorted(ANN_FORMS))
    p = rng.choice(preds + ['Zz', 'Yy']) if rng.random() < 0.5 else rng.choice(preds)
    if (a, p) in anns or (a in ('@With', '@NoWith') and any(x in ('@With', '@NoWith') and q == p for x, q in anns)):
      continue
    anns.append((a, p))
    lines.append(ANN_FORMS[a] % p)
  for p in preds:
    for _ in range(rng.randint(1, 3)):
      d = rng.random() < 0.3
      rules.append((p, d))
      lines.append('%s(x)%s :- T(x);' % (p, ' distinct' if d else ''))
  rng.shuffle(lines[3:])
  return '\n'.join(lines) + '\n', anns, rules, preds


def decision_job(text):
  try:
    with R.quiet():
      rules = R.parse.ParseFile(text)['rule']
      order = list(R.universe.Annotations.ANNOTATING_PREDICATES)
      R.universe.LogicaProgram(rules)
    return {'kind': 'ok', 'order': order}
  except Exception as e:  # noqa: BLE001
    msg = re.sub(r'\x1b\[[0-9;]*m', '', R.diag_text(e))
    out = {'kind': R.classify(e), 'msg': msg[:400], 'order': list(R.universe.Annotations.ANNOTATING_PREDICATES)}
    m = re.search(r'Annotation (@\w+) must be applied to an existing predicate, but it was applied to a non-existing predicate (\w+)', msg)
    if m:
      out['annotated'] = [m.group(1), m.group(2)]
    m = re.search(r'Predicate (\w+) violates it', msg)
    if m:
      out['distinct'] = m.group(1)
    return out


def run_decisions(ck):
  """(K) Checks.checkAnnotated / checkDistinct against what LogicaProgram raises"""
  cases = [decision_case(ck.rng) for _ in range(ck.budget(120, 2500))]
  reals = core.pmap(decision_job, [c[0] for c in cases])
  reqs = []
  for (text, anns, rules, preds), real in zip(cases, reals):
    order = real['order']
    # iteration order of the code: annotation kinds in the order of ANNOTATING_PREDICATES, predicates in program order
    pos = {}
    for i, line in enumerate(text.split('\n')):
      for a, p in anns:
        if line == ANN_FORMS[a] % p:
          pos[(a, p)] = i
    ordered = sorted(anns, key=lambda ap: (order.index(ap[0]), pos[ap]))
    rule_order = []
    for line in text.split('\n'):
      m = re.match(r'^(\w+)\((?:x|\d)\)( distinct)?( :- T\(x\))?;$', line)
      if m:
        rule_order.append([m.group(1), bool(m.group(2))])
    allp = sorted(set(preds) | {'T'} | {p for a, p in anns if a == '@Ground'})
    reqs.append({'op': 'checks', 'preds': allp, 'annotations': [list(x) for x in ordered], 'rules': rule_order})
  models = core.Driver().ask_many(reqs)
  for (text, anns, rules, preds), real, model in zip(cases, reals, models):
    ck.corr('checks-vs-model')
    ck.case(['decision', text], bool(model.get('annotated') or model.get('distinct')), ['decision:' + ('annotated' if model.get('annotated') else 'distinct' if model.get('distinct') else 'clean')])
    inp = {'text': text}
    if model.get('distinct'):
      # the parser's multi-body-aggregation rewrite performs its own consistency check before the annotations
      # are looked at; it may name any predicate whose rules disagree
      bad = {p for p in preds if len({d for q, d in rules if q == p}) > 1}
      named = re.search(r'for predicate (\w+)', real.get('msg', '').replace('>>', '').replace('<<', ''))
      named = real.get('distinct') or (named.group(1) if named else None)
      if model.get('annotated') and real.get('annotated') == model['annotated']:
        pass      # the annotation check runs before the program-level distinct check
      elif real['kind'] not in DIAG or named not in bad:
        ck.disagreement('checks-vs-model', inp, real, model)
        if real['kind'] == 'ok':
          ck.violation('c19:inconsistent-distinct:accepted', 'rules of %s disagree on distinct and are accepted' % model['distinct'], inp)
    elif model.get('annotated'):
      if real.get('annotated') != model['annotated']:
        ck.disagreement('checks-vs-model', inp, real, model)
        if real['kind'] == 'ok':
          ck.violation('c19:annotation-of-missing-predicate:accepted', 'annotation %s of the missing predicate %s is accepted' % tuple(model['annotated']), inp)
    elif real['kind'] != 'ok':
      ck.disagreement('checks-vs-model', inp, real, model)


def run(ck):
  run_decisions(ck)
  n = ck.budget(40, 600)
  made = semcheck.make_programs(ck, n, G.Gen.ALL - {'injectible'})
  jobs = []
  for pr, model in made:
    for c in corruptions(ck.rng, pr):
      jobs.append(c)
  for _ in range(ck.budget(6, 60)):
    jobs += special_cases(ck.rng)
  for c in ck.corpus():
    jobs.append((c['operator'], c['text'], c['pred'], c.get('mention')))
  res = core.pmap(job, jobs)
  for (op, text, pred, mention), r in zip(jobs, res):
    opk = op.split(':')[0]
    ck.case(text, True, ['operator:' + op, 'outcome:' + r['kind']])
    rp = {'operator': op, 'text': text, 'pred': pred, 'outcome': r['kind'], 'message': r['message'][:300]}
    if r['kind'] == 'ok':
      ck.violation('c19:%s:sql-produced' % op, 'corruption %s: SQL is produced for %s instead of a diagnostic: %s' % (op, pred, r.get('sql', '')[:120]), rp)
    elif r['kind'] not in DIAG:
      ck.violation('c19:%s:%s' % (op, r['exc_type'] or r['kind']),
                   'corruption %s: %s (%s) instead of one of the four diagnostic exceptions' % (op, r['exc_type'], r['message'][:150]), rp)
    elif mention and not any(m in re.sub(r'\x1b\[[0-9;]*m', '', r['message']) for m in ([mention] if isinstance(mention, str) else mention)):
      ck.violation('c19:%s:diagnostic-does-not-identify' % op,
                   'corruption %s: the diagnostic does not mention %s: %s' % (op, mention, r['message'][:200]), rp)


def replay(ck, rep):
  print(core.canon(rep))
