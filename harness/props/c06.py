"""C06 — the C++ and Python parsers accept the same programs and build the same rules.

(T) lean/LogicaModel/Props/C06.lean (scanner model: agreement of the comment-removal / bracket-state machine)
(K) scanner-layer correspondence: parse.Traverse/RemoveComments/IsWhole (PY) vs the Lean Scan model
(S) the property itself: parse.ParseFile under LOGICA_PARSER=PY and =CPP (shared object rebuilt from the
    current parser_cpp/logica_parse.cpp) yield identical rule trees, or both reject; on the integration
    test corpus, on generated programs in several surface forms, on statement templates covering the
    documented grammar, on layout variants and on single-token corruptions.
"""
import glob
import os

import core
import gen_program as G
import parsecheck as PC
import realcode as R
import scancheck
import semcheck
import templates

RULE = ('all integration_tests/*.l (imports resolved against the test directory); generated programs printed in '
        '6 surface forms; statement templates for every documented statement / literal / operator / denotation '
        'form; layout-noised variants; single-token corruptions (delete / duplicate / replace / swap); '
        'non-trivial = text with at least 3 statements; distinct by text')
ASSUMPTIONS = ('g++ and the ctypes/JSON bridge are exercised, not modelled',)

STATEMENTS = [
    'P(1, "a", true, null, 2.5);',
    "Q('it\\'s', \"\"\"tri\nple\"\"\");",
    'R(a: 1, b: "x");',
    'S(x, y) :- T(x), U(y), x < y, x != 3, y >= 0 || x == 1;',
    'F(x) = x * 2 + 1 :- T(x);',
    'G(x) += y :- T2(x, y);',
    'H(x, m? Max= y, l? List= y) distinct :- T2(x, y);',
    'K(x) Min= y :- T2(x, y);',
    'L(x) distinct :- T(x) | U(x);',
    'M(x) :- T(x), ~U(x), ~(V(x), x > 2);',
    'N(x) :- T(x), (U(x) => V(x));',
    'O(x, s) :- T(x), s == Sum{y :- T2(x, y)}, c Count= (y :- T2(x, y)), d == (combine Max= y :- T2(x, y));',
    'A1(x) :- x in [1, 2, 3], y in Range(x), l == [x, y], Size(l) > 1, l[0] == x;',
    'A2(r) :- r == {a: 1, b: {c: "z"}}, r.b.c == "z";',
    'A3(x, z) :- T(x), z == (if x > 1 then "big" else if x == 1 then "one" else "small");',
    'A4(x -> y) :- T2(x, y);',
    'A5("a" ++ "b" ++ ToString(1));',
    'A6(x) order_by(x) limit(3) :- T(x);',
    'A7(a:, b:) :- R(a:, b:);',
    'A8(..r) :- R(..r);',
    'A9(x) :- T(x), x is not null, (x + 1) is null || true;',
    'B1(-1, - x, !true, -(x + 1)) :- T(x);',
    'B2(x) :- `T`(x), T(x) == T(x);',
    'B3 := F(T: U);',
    'B4 := H(T2: V2, U: W);',
    '@OrderBy(S, "col0", "col1 desc");',
    '@Limit(S, 10);',
    '@Ground(S);',
    '@Recursive(N, 5);',
    '@DefineFlag("f", "v");',
    'B5(FlagValue("f"), "${f}");',
    'B6(x) :- T(x), x / 2 > 1, x % 2 == 0, x ^ 2 < 10, x - 1 <= x;',
    'B7(x) :- (T(x)), ((U(x)));',
    'B8(x?  += 1) distinct :- T(x);',
    'B9(x, ArgMin{y -> x :- T2(x, y)}, ArgMaxK(y -> x, 2)) :- T(x);',
    'C1("#notcomment", "/* not */", "a;b", "x :- y", "(", "]");',
    # conjunction and disjunction mixed at one level, in every kind of body
    'C2(x) :- T(x), x > 1 | U(x);',
    'C3() = (combine += y :- T(y), y > 1 | U(y));',
    'C4(s) :- s == Sum{y :- T(y), y > 1 | U(y)};',
    'C5(x) :- T(x), ~(U(x), x > 1 | V(x));',
    'C6(x) Max= y :- T2(x, y), y > 1 | T2(y, x);',
    'C7(x) :- T(x), (U(x), x > 1 | V(x) => W(x));',
    'C8(x, c? Count= (y :- T2(x, y), y > 0 | T2(y, x))) distinct :- T(x);',
    'C9(x) :- T(x) | U(x), V(x) | W(x), x > 2;',
]


def program_texts(ck):
  out = []
  # 1. integration tests
  files = sorted(glob.glob(os.path.join(core.REPO, 'integration_tests', '*.l')))
  for f in files:
    try:
      out.append(('integration:' + os.path.basename(f), open(f).read()))
    except Exception:  # noqa: BLE001
      pass
  # 2. statement templates: all together, and random subsets
  out.append(('templates:all', '\n'.join(STATEMENTS) + '\n'))
  for s in STATEMENTS:
    out.append(('template', s + '\n'))
  for i in range(ck.budget(20, 200)):
    k = ck.rng.randint(2, 6)
    out.append(('templates:subset', '\n'.join(ck.rng.sample(STATEMENTS, k)) + '\n'))
  # string-literal stress statements (all three literal forms, separators / brackets / comment markers inside)
  from props import c15
  for st in c15.string_statements(ck.rng, ck.budget(60, 600)):
    out.append(('template', st + '\n'))
  # 3. generated programs in several surface forms
  P = G.Printer
  forms = [{}, {'explicit_cols': 1}, {'explicit_value': 1}, {'single_eq': 1}, {'agg_form': 'opeq'}, {'agg_form': 'combine'},
           {'neg_as_agg': 1}, {'implication': 1}]
  for i in range(ck.budget(150, 1500)):
    pr = G.Gen(ck.rng).generate() if ck.rng.random() < 0.7 else templates.build(ck.rng, None, {})
    out.append(('generated', pr.text(P(**ck.rng.choice(forms)))))
  return out


def run(ck):
  err = R.ensure_cpp_built()
  if err:
    ck.violation('cpp-parser-does-not-build', 'the C++ parser cannot be built from the current source: ' + err, {})
    return
  texts = [('corpus', c['text']) for c in ck.corpus()] + program_texts(ck)
  cases = []
  for kind, t in texts:
    cases.append((kind, t))
    if kind.startswith(('generated', 'templates', 'template')):
      nz, used = PC.add_noise(t, ck.rng, ck.rng.randint(1, 6))
      cases.append((kind + '+noise', nz))
      for _ in range(4):
        ct, what = PC.corrupt(t, ck.rng)
        cases.append((kind + '+corrupt', ct))
    elif ck.rng.random() < 0.5:
      ct, what = PC.corrupt(t, ck.rng)
      cases.append((kind + '+corrupt', ct))
  # (K) the scanner model against both real parsers, on these texts and on random strings of special characters
  scancheck.run(ck, [t for k, t in cases if 'import ' not in t][:ck.budget(150, 1500)], ck.budget(600, 20000))
  cwd = os.getcwd()
  os.chdir(os.path.join(core.REPO))          # integration tests import relative to the repository root
  try:
    jobs = [(t, m) for _, t in cases for m in ('PY', 'CPP')]
    res = core.pmap(PC.parse_job, jobs)
  finally:
    os.chdir(cwd)
  for i, (kind, t) in enumerate(cases):
    py, cpp = res[2 * i], res[2 * i + 1]
    base = kind.split(':')[0].split('+')[0] + ('+' + kind.split('+')[1] if '+' in kind else '')
    ck.case(t, t.count(';') >= 3, ['source:' + base, 'py:' + ('ok' if 'ok' in py else py['error']),
                                    'cpp:' + ('ok' if 'ok' in cpp else cpp['error'])])
    rp = {'text': t, 'source': kind}
    if 'ok' in py and 'ok' in cpp:
      if py['ok'] != cpp['ok']:
        ck.violation('c06:trees-differ:%s' % base, 'PY and CPP build different rules: %s' % PC.first_diff(py['ok'], cpp['ok']), rp)
    elif 'ok' in py or 'ok' in cpp:
      who = 'PY' if 'ok' in py else 'CPP'
      other = cpp if 'ok' in py else py
      ck.violation('c06:only-one-accepts:%s:%s' % (base, who),
                   'only the %s parser accepts the text; the other raises %s (%s)' % (who, other.get('exc'), other.get('msg', '')[:120]), rp)
    else:
      if py['error'] == 'internal' or cpp['error'] == 'internal':
        ck.features['both-reject-one-internal'] += 1


def replay(ck, rep):
  print(core.canon(rep))
