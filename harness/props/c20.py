"""C20 — SQLite built-ins and aggregates compute their documented meaning.

(T) lean/LogicaModel/Props/C20.lean over LogicaModel/Udf.lean (ArgMin/ArgMax K-buffer, Range CTE)
(K) the real UDF classes (in-process and through SQLite)  vs  the Lean model, after every prefix of rows
(S) each built-in through the real pipeline on SQLite  vs  independent Python one-liners, over small
    argument domains; aggregates over all permutations of their input rows.
"""
import itertools
import json
import math

import core
import realcode as R

RULE = ('built-ins: Range, Size, Element, l[i], in, Sort, ArrayConcat, ++, Join, Split, ToString, ToInt64, '
        'Least, Greatest, + - * / % ^, comparisons and boolean operators over small integer / string / list '
        'domains incl. empty lists, zero and negatives (exhaustive over the listed domains); aggregates Sum, Min, '
        'Max, Avg, Count, List, Set, ArgMin, ArgMax, ArgMinK, ArgMaxK, Array over all permutations of <=5 (quick) '
        'rows, in-process, through SQLite SQL and through compiled Logica rules; non-trivial = argument tuple '
        'not all-default; distinct by (builtin, arguments)')
ASSUMPTIONS = ("SQLite's JSON1 and integer arithmetic are black boxes validated by execution",
               'floating point results (Avg, ^) are compared only where the value is exactly representable')


def lit(v):
  if isinstance(v, bool):
    return 'true' if v else 'false'
  if isinstance(v, int):
    return str(v) if v >= 0 else '(%d)' % v
  if isinstance(v, str):
    return json.dumps(v)
  if isinstance(v, list):
    return '[' + ', '.join(lit(x) for x in v) + ']'
  raise AssertionError(v)


def sq_div(a, b):
  if b == 0:
    return None
  q = abs(a) // abs(b)
  return q if (a >= 0) == (b >= 0) else -q


def sq_mod(a, b):
  if b == 0:
    return None
  return int(math.fmod(a, b))


def builtin_cases():
  """(expression text, expected value, kind) ; kind 'json' = JSON list result, 'val' = scalar."""
  out = []
  ints = [-2, -1, 0, 1, 2, 3, 7]
  lists = [[], [5], [3, 1, 2], [0, 0, 1], [2, -1]]
  slists = [[], ['b'], ['b', 'a', 'c'], ['', 'a']]
  for n in range(-2, 7):
    out.append(('Range(%s)' % lit(n), list(range(max(0, n))), 'json', 'Range'))
    out.append(('Size(Range(%s))' % lit(n), max(0, n), 'val', 'Size'))
  for l in lists + slists:
    out.append(('Size(%s)' % lit(l), len(l), 'val', 'Size'))
    if l:
      out.append(('Sort(%s)' % lit(l), sorted(l), 'json', 'Sort'))
    for i in range(0, len(l) + 2):   # negative indices are outside the documented domain (SQLite JSON path error)
      exp = l[i] if 0 <= i < len(l) else None
      if l:
        out.append(('Element(%s, %s)' % (lit(l), lit(i)), exp, 'val', 'Element'))
    for l2 in (lists if (not l or isinstance(l[0], int)) else slists)[:4]:
      if l and l2 and type(l[0]) != type(l2[0]):
        continue
      out.append(('ArrayConcat(%s, %s)' % (lit(l), lit(l2)), l + l2, 'json', 'ArrayConcat'))
    for sep in [',', '', '--']:
      if l:
        out.append(('Join(%s, %s)' % (lit(l), lit(sep)), sep.join(map(str, l)), 'val', 'Join'))
  for l in lists:
    for x in [0, 1, 2, 5]:
      out.append(('(%s in %s)' % (lit(x), lit(l)) if l else None, 1 if x in l else 0, 'val', 'in'))
  out = [c for c in out if c[0]]
  strs = ['', 'a', 'ab', 'a,b', ',', 'x y']
  for a in strs:
    for b in strs[:4]:
      out.append(('%s ++ %s' % (lit(a), lit(b)), a + b, 'val', '++'))
    for sep in [',', ' ', 'b']:
      out.append(('Split(%s, %s)' % (lit(a), lit(sep)), a.split(sep), 'json', 'Split'))
  for n in ints + [10, 123456789]:
    out.append(('ToString(%s)' % lit(n), str(n), 'val', 'ToString'))
    out.append(('ToInt64(%s)' % lit(str(n)), n, 'val', 'ToInt64'))
  for a in ints:
    for b in ints:
      out.append(('Least(%s, %s)' % (lit(a), lit(b)), min(a, b), 'val', 'Least'))
      out.append(('Greatest(%s, %s)' % (lit(a), lit(b)), max(a, b), 'val', 'Greatest'))
      out.append(('%s + %s' % (lit(a), lit(b)), a + b, 'val', '+'))
      out.append(('%s - %s' % (lit(a), lit(b)), a - b, 'val', '-'))
      out.append(('%s * %s' % (lit(a), lit(b)), a * b, 'val', '*'))
      out.append(('%s / %s' % (lit(a), lit(b)), sq_div(a, b), 'val', '/'))
      out.append(('%s %% %s' % (lit(a), lit(b)), sq_mod(a, b), 'val', '%'))
      for op, f in [('==', a == b), ('!=', a != b), ('<', a < b), ('<=', a <= b), ('>', a > b), ('>=', a >= b)]:
        out.append(('(%s %s %s)' % (lit(a), op, lit(b)), 1 if f else 0, 'val', op))
  out.append(('Least(3, 1, 2)', 1, 'val', 'Least'))
  out.append(('Greatest(3, 1, 2)', 3, 'val', 'Greatest'))
  out.append(('Least("b", "a")', 'a', 'val', 'Least'))
  out.append(('Greatest("b", "a")', 'b', 'val', 'Greatest'))
  for a in [True, False]:
    out.append(('(!%s)' % lit(a), 0 if a else 1, 'val', '!'))
    for b in [True, False]:
      out.append(('(%s && %s)' % (lit(a), lit(b)), 1 if a and b else 0, 'val', '&&'))
      out.append(('(%s || %s)' % (lit(a), lit(b)), 1 if a or b else 0, 'val', '||'))
  return out


def job_builtins(chunk):
  """chunk: list of (expr, expected, kind, name). One program with one predicate per expression."""
  lines = ['@Engine("sqlite");']
  for i, (expr, _, _, _) in enumerate(chunk):
    lines.append('B%d(%s);' % (i, expr))
  text = '\n'.join(lines) + '\n'
  res = []
  try:
    with R.quiet():
      rules = R.parse.ParseFile(text)['rule']
  except Exception as e:  # noqa: BLE001
    return [{'kind': 'parsing', 'message': str(e)[:200]}] * len(chunk)
  for i in range(len(chunk)):
    o = R.run_sqlite(text, 'B%d' % i, rules=rules)
    res.append({'kind': o.kind, 'rows': getattr(o, 'rows', None), 'message': getattr(o, 'message', '')[:200]})
  return res


# ---------------- aggregates ----------------

def spec_argmin_k(rows, k):
  s = sorted(rows, key=lambda r: (r[1], r[0]))
  return [a for a, v in (s if k is None else s[:k])]


def spec_argmax_k(rows, k):
  s = sorted(rows, key=lambda r: (r[1], r[0]), reverse=True)
  return [a for a, v in (s if k is None else s[:k])]


def direct_udf(cls, rows, k):
  o = cls()
  outs = []
  for a, v in rows:
    o.step(a, v, k)
    outs.append(json.loads(o.finalize()))
  return outs


def job_perm_programs(job):
  """rows (a, v) permuted as facts; run compiled aggregates. -> dict name -> value"""
  rows, k = job
  facts = ' '.join('T(%s, %s);' % (lit(a), lit(v)) for a, v in rows)
  text = ('@Engine("sqlite");\n%s\n'
          'Agg(s? += v, mn? Min= v, mx? Max= v, av? Avg= v, c? Count= v, l? List= v, st? Set= v) distinct :- T(a, v);\n'
          'AMin() ArgMin= a -> v :- T(a, v);\nAMax() ArgMax= a -> v :- T(a, v);\n'
          'AMinK() = ArgMinK(a -> v, %d) :- T(a, v);\nAMaxK() = ArgMaxK(a -> v, %d) :- T(a, v);\n'
          'Arr() Array= v -> a :- T(a, v);\n'
          'G(a, s? += v, l? List= v) distinct :- T(a, v);\n' % (facts, k, k))
  out = {}
  with R.quiet():
    rules = R.parse.ParseFile(text)['rule']
  for p in ['Agg', 'AMin', 'AMax', 'AMinK', 'AMaxK', 'Arr', 'G']:
    o = R.run_sqlite(text, p, rules=rules)
    out[p] = {'kind': o.kind, 'rows': getattr(o, 'rows', None), 'message': getattr(o, 'message', '')[:200]}
  out['_text'] = text
  return out


def run(ck):
  drv = core.Driver()
  # ---------------- S: scalar built-ins through the pipeline ----------------
  cases = builtin_cases()
  if ck.tier != 'thorough' and not ck.searching:
    # quick: every builtin name keeps all its boundary cases, the arithmetic grid is sampled
    keep, grid = [], []
    for c in cases:
      (grid if c[3] in ('+', '-', '*', '==', '!=', '<', '<=', '>', '>=', 'Least', 'Greatest') else keep).append(c)
    ck.rng.shuffle(grid)
    cases = keep + grid[:250]
  chunks = [cases[i:i + 12] for i in range(0, len(cases), 12)]
  for chunk, res in zip(chunks, core.pmap(job_builtins, chunks)):
    for (expr, exp, kind, name), r in zip(chunk, res):
      ck.case(['builtin', expr], True, ['builtin:' + name])
      got = None
      if r['kind'] == 'ok' and len(r['rows']) == 1 and len(r['rows'][0]) == 1:
        got = r['rows'][0][0]
        if kind == 'json' and isinstance(got, str):
          try:
            got = json.loads(got)
          except ValueError:
            pass
      if r['kind'] != 'ok' or got != exp or type(got) != type(exp):
        ck.violation('builtin-wrong:%s' % name, '%s returned %r (%s %s), expected %r' % (
            expr, r.get('rows'), r['kind'], r.get('message', ''), exp), {'expression': expr, 'expected': exp, 'got': r.get('rows')})
  # l[i] and `in` as a proposition
  o = R.run_sqlite('@Engine("sqlite");\nP(l[0], l[2], l[3]) :- l == [7, 8, 9];\nQ(x) :- x in [3, 1, 3], x > 1;\nE(x) :- x in [], x == 1;\n', 'P')
  ck.case(['builtin', 'l[i]'], True, ['builtin:subscript'])
  if o.kind != 'ok' or o.rows != [[7, 9, None]]:
    ck.violation('builtin-wrong:subscript', 'l[0], l[2], l[3] of [7,8,9] returned %r (%s)' % (getattr(o, 'rows', None), o.kind), {})
  o = R.run_sqlite('@Engine("sqlite");\nQ(x) :- x in [3, 1, 3], x > 1;\n', 'Q')
  if o.kind != 'ok' or sorted(o.rows) != [[3], [3]]:
    ck.violation('builtin-wrong:in-proposition', 'x in [3,1,3], x>1 returned %r' % getattr(o, 'rows', None), {})

  # ---------------- K + S: ArgMin / ArgMax UDF classes, all permutations ----------------
  from common import sqlite3_logica as sl
  nmax = 6 if (ck.tier == 'thorough' or ck.searching) else 5
  base_sets = [
      [(10, 5), (20, 1), (30, 4), (40, 3), (50, 2), (60, 9)],
      [(1, -3), (2, 7), (3, 0), (4, 12), (5, 6), (6, 1)],
  ]
  reqs, meta = [], []
  con = sl.SqliteConnect()
  for base in base_sets:
    for n in range(1, nmax + 1):
      rows0 = base[:n]
      perms = list(itertools.permutations(rows0))
      if len(perms) > 130 and ck.tier != 'thorough':
        perms = ck.rng.sample(perms, 130)
      for perm in perms:
        for k in [None, 1, 2, 3, n, n + 1]:
          if k is not None and k > n + 1:
            continue
          for name, cls, spec in [('ArgMin', sl.ArgMin, spec_argmin_k), ('ArgMax', sl.ArgMax, spec_argmax_k)]:
            try:
              outs = direct_udf(cls, perm, k)
            except Exception as e:  # noqa: BLE001
              ck.violation('udf-exception:%s' % name, '%s raised %r on %s k=%s' % (name, e, perm, k), {'rows': perm, 'k': k})
              continue
            ck.case(['udf', name, perm, k], n > 1, ['udf:' + name, 'k:' + ('none' if k is None else 'le' if k <= n else 'gt')])
            exp = spec(list(perm), k)
            if outs[-1] != exp:
              ck.violation('udf-wrong:%s:k=%s' % (name, 'none' if k is None else 'pos'),
                           '%s over rows %s with k=%s returned %s, expected %s' % (name, list(perm), k, outs[-1], exp),
                           {'udf': name, 'rows': list(perm), 'k': k, 'got': outs[-1], 'expected': exp})
            reqs.append({'op': 'argk', 'max': name == 'ArgMax', 'rows': [list(r) for r in perm], 'k': k})
            meta.append((name, perm, k, outs))
        # through SQLite SQL (aggregate over VALUES in this order)
        k = min(2, n)
        vals = ', '.join('(%d, %d)' % r for r in perm)
        for name, spec in [('ArgMin', spec_argmin_k), ('ArgMax', spec_argmax_k)]:
          got = json.loads(con.execute('SELECT %s(column1, column2, %d) FROM (VALUES %s)' % (name, k, vals)).fetchone()[0])
          if got != spec(list(perm), k):
            ck.violation('udf-wrong-via-sql:%s' % name, 'SQL %s over %s k=%d returned %s' % (name, list(perm), k, got), {'rows': list(perm), 'k': k})
  con.close()
  for (name, perm, k, outs), resp in zip(meta, drv.ask_many(reqs)):
    ck.corr('ArgMin/ArgMax prefixes')
    if resp.get('outs') != outs:
      ck.disagreement('%s.step/finalize vs Udf model' % name, {'rows': list(perm), 'k': k}, outs, resp.get('outs'))

  # error branches
  for name, cls in [('ArgMin', sl.ArgMin), ('ArgMax', sl.ArgMax)]:
    for k in [0, -1]:
      try:
        cls().step(1, 1, k)
        ck.violation('udf-nonpositive-limit-accepted:%s' % name, '%s accepted limit %d' % (name, k), {'k': k})
      except Exception:  # noqa: BLE001
        pass
    try:
      o = cls()
      o.step(1, 1, 2)
      o.step(2, 'x', 2)
      ck.violation('udf-mixed-values-accepted:%s' % name, '%s accepted number and string values' % name, {})
    except Exception:  # noqa: BLE001
      pass

  # other UDFs directly: all small arguments
  small_lists = [[], [0], [1, 2], [0, 1, 2], ['', 'a'], ['a', ''], [0, ''], [False, 1]]
  for l in small_lists:
    for sep in [',', '']:
      got = sl.Join(json.dumps(l), sep)
      exp = sep.join(str(x) for x in l)
      ck.case(['udf', 'Join', l, sep], True, ['udf:Join'])
      if got != exp:
        ck.violation('udf-wrong:Join', 'Join(%s, %r) returned %r, expected %r' % (l, sep, got, exp), {'list': l, 'sep': sep})
    for l2 in small_lists[:4]:
      got = json.loads(sl.ArrayConcat(json.dumps(l), json.dumps(l2)))
      if got != l + l2:
        ck.violation('udf-wrong:ArrayConcat', 'ArrayConcat(%s, %s) = %s' % (l, l2, got), {})
    if all(isinstance(x, int) for x in l):
      if json.loads(sl.SortList(json.dumps(l))) != sorted(l):
        ck.violation('udf-wrong:SortList', 'SortList(%s)' % l, {})
      for x in [0, 1, 5]:
        if bool(sl.InList(x, json.dumps(l))) != (x in l):
          ck.violation('udf-wrong:InList', 'InList(%s, %s)' % (x, l), {})
  for perm in itertools.permutations([[1], [], [2, 3], None]):
    o = sl.ArrayConcatAgg()
    for x in perm:
      o.step(None if x is None else json.dumps(x))
    exp = [y for x in perm if x is not None for y in x]
    if json.loads(o.finalize()) != exp:
      ck.violation('udf-wrong:ArrayConcatAgg', 'ArrayConcatAgg over %s' % (perm,), {})
  # Set must not depend on the arrival order (values chosen to collide in a small hash table)
  for vals in ([8, 0, 16, 3], [1, 9, 17, 2], ['b', 'a', 'c', 'aa']):
    seen_out = {}
    for perm in itertools.permutations(vals):
      o = sl.DistinctListAgg()
      for x in perm:
        o.step(x)
      seen_out.setdefault(o.finalize(), perm)
      ck.case(['udf', 'Set', perm], True, ['udf:Set'])
    if len(seen_out) > 1:
      (o1, p1), (o2, p2) = list(seen_out.items())[:2]
      ck.violation('set-order-depends-on-arrival', 'Set over rows %s returns %s but over %s returns %s' % (list(p1), o1, list(p2), o2),
                   {'rows1': list(p1), 'rows2': list(p2)})
  for perm in itertools.permutations([3, 1, 3, 2]):
    o = sl.DistinctListAgg()
    for x in perm:
      o.step(x)
    got = json.loads(o.finalize())
    if sorted(got) != [1, 2, 3]:
      ck.violation('udf-wrong:DistinctListAgg', 'Set over %s = %s' % (perm, got), {})

  # ---------------- S: compiled aggregates over permuted facts ----------------
  rows0 = [(1, 5), (2, 1), (3, 4), (4, 3), (2, 7)]
  n = 5 if (ck.tier == 'thorough' or ck.searching) else 4
  rows0 = rows0[:n]
  perms = list(itertools.permutations(rows0))
  if ck.tier != 'thorough':
    perms = perms[:1] + ck.rng.sample(perms[1:], ck.budget(11, 0))
  jobs = [(list(p), 2) for p in perms]
  vs = [v for _, v in rows0]
  exp = {
      'Agg': {'s': sum(vs), 'mn': min(vs), 'mx': max(vs), 'av': sum(vs) / len(vs), 'c': len(set(vs))},
      'AMin': spec_argmin_k(rows0, 1)[0], 'AMax': spec_argmax_k(rows0, 1)[0],
      'AMinK': spec_argmin_k(rows0, 2), 'AMaxK': spec_argmax_k(rows0, 2),
      'Arr': [a for a, v in sorted(rows0, key=lambda r: (r[1], r[0]))],
  }
  for (rows, k), res in zip(jobs, core.pmap(job_perm_programs, jobs)):
    ck.case(['agg-perm', rows], True, ['agg-perm'])
    rp = {'program': res['_text']}

    def bad(name, what):
      ck.violation('aggregate-wrong:%s' % name, '%s over facts in order %s: %s' % (name, rows, what), rp)
    a = res['Agg']
    if a['kind'] != 'ok' or len(a['rows']) != 1:
      bad('Agg', '%s %s' % (a['kind'], a.get('message')))
    else:
      s, mn, mx, av, c, l, st = a['rows'][0]
      if (s, mn, mx, c) != (exp['Agg']['s'], exp['Agg']['mn'], exp['Agg']['mx'], exp['Agg']['c']) or abs(av - exp['Agg']['av']) > 1e-12:
        bad('Sum/Min/Max/Avg/Count', 'got %r' % (a['rows'][0],))
      if sorted(json.loads(l)) != sorted(vs):
        bad('List', 'got %s' % l)
      if sorted(json.loads(st)) != sorted(set(vs)):
        bad('Set', 'got %s' % st)
    for p in ['AMin', 'AMax']:
      r = res[p]
      if r['kind'] != 'ok' or r['rows'] != [[exp[p]]]:
        bad(p, 'got %r (%s)' % (r.get('rows'), r['kind']))
    for p in ['AMinK', 'AMaxK', 'Arr']:
      r = res[p]
      if r['kind'] != 'ok' or len(r['rows']) != 1 or json.loads(r['rows'][0][0]) != exp[p]:
        bad(p, 'got %r (%s %s)' % (r.get('rows'), r['kind'], r.get('message')))
    g = res['G']
    expg = {}
    for aa, v in rows0:
      expg.setdefault(aa, []).append(v)
    gotg = {r[0]: (r[1], sorted(json.loads(r[2]))) for r in (g['rows'] or [])} if g['kind'] == 'ok' else None
    if gotg != {aa: (sum(v), sorted(v)) for aa, v in expg.items()}:
      bad('group-by', 'got %r' % (g.get('rows'),))

  # ---------------- K: Range CTE model ----------------
  reqs = [{'op': 'range_cte', 'n': n_} for n_ in range(-3, 12)]
  for q, resp in zip(reqs, drv.ask_many(reqs)):
    ck.corr('Range CTE')
    o = R.run_sqlite('@Engine("sqlite");\nP(Range(%s));\n' % lit(q['n']), 'P')
    real = json.loads(o.rows[0][0]) if o.kind == 'ok' else None
    if resp.get('out') != real:
      ck.disagreement('Range template on SQLite vs Udf.rangeCte', q, real, resp.get('out'))


def replay(ck, rep):
  print(core.canon(rep))
