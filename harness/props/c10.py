"""C10 — string literals and flag values are data, never SQL.

(T) lean/LogicaModel/Props/C10.lean   (lex_strLiteral for all dialects/strings, flags theorems)
(K) real QL.StrLiteral / UseFlagsAsParameters / BuildFlagValues  vs  the Lean model (driver ops)
(S) the property itself on the real code:
    - SQLite returns the string character for character from every position
    - for every dialect the emitted literal, read by the dialect's lexical rule (the Lean spec lexer
      applied to the *real* output), decodes to the string and ends where it should; the statement has
      the same shape as for a plain string
    - built-in templates do not reinterpret their arguments
    - user flags override defaults, undefined flags are rejected, expansion terminates
"""
import itertools
import re

import core
import realcode as R

RULE = ('strings: all of length<=2 over a 26-symbol alphabet of characters special to Logica, Python '
        'formatting and the SQL dialects, plus seeded random strings up to length 12; per string all 8 '
        'dialects and 7 positions (fact, list element, record field, concatenation, built-in argument, '
        'flag default, user flag); non-trivial = string contains at least one special character; '
        'distinct by (kind, dialect, string)')
ASSUMPTIONS = (
    'the lexical rules of the seven non-SQLite dialects (Escape.lexFam) are written from their documentation and cannot be validated offline',
    'SQLite 3.40.1 string literal lexing is validated by execution only',
)

ALPHABET = ['a', 'Z', '0', ' ', "'", '"', '\\', '\n', '\t', '\r', '#', '/', '*', '-', ';', ',', ':',
            '(', ')', '[', ']', '{', '}', '$', '%', 'é', '☃', '\x08', '\x0c', '\x1f', '|', '=', '~', '`']
SPECIAL = set(ALPHABET) - {'a', 'Z', '0', ' '}
PARAM_RE = re.compile(r'[$][{](.*?)[}]')


def gen_strings(ck):
  out = ['']
  out += ALPHABET
  if ck.tier == 'thorough':
    out += [a + b for a in ALPHABET for b in ALPHABET]
  else:
    pairs = [a + b for a in ALPHABET for b in ALPHABET]
    ck.rng.shuffle(pairs)
    out += pairs[:ck.budget(300, 0)]
  hostile = ["a'b", "a''b", "\\'", "'\\", "\\", "\\\\", "a\\", "x' OR 1=1 --", "'; DROP TABLE t; --",
             '{0}', '{1}', '%s', '%d', '%(a)s', '{left}', '{right}', '{}', '}{', '/* x */', '# c', '-- c',
             '"""', "'''", 'E\'', "\\n", "\\t", "\\u0041", "a\nb", "tab\tx", 'q"q', '${', '$ {x}',
             'nul\x00x'[:3], 'ünï', 'a\\\'b', "%%", "\\x41", "'||'", 'x_0', 't_0_T', '\x7f']
  out += hostile
  n = ck.budget(250, 4000)
  for _ in range(n):
    k = ck.rng.randint(3, 12)
    out.append(''.join(ck.rng.choice(ALPHABET) for _ in range(k)))
  # dedupe, keep order
  seen = set()
  res = []
  for s in out:
    if s not in seen:
      seen.add(s)
      res.append(s)
  return res


def nontrivial(s):
  return any(c in SPECIAL for c in s)


def run(ck):
  drv = core.Driver()
  strings = gen_strings(ck)
  rest = ' AS col0, 1'

  # ---------------- K: StrLiteral vs model; S: spec lexer on the real literal -----------------
  reqs, meta = [], []
  for eng in R.ENGINES:
    dn = R.ENGINE_DIALECT_NAME[eng]
    ql = R.ql_for(eng)
    for s in strings:
      try:
        real = ql.StrLiteral({'the_string': s})
      except Exception as e:  # noqa: BLE001
        ck.violation('strliteral-exception:%s' % dn, 'StrLiteral raised %r on %r (%s)' % (e, s, dn),
                     {'dialect': dn, 's': s})
        continue
      reqs.append({'op': 'strlit', 'dialect': dn, 's': s})
      meta.append(('K', dn, s, real))
      reqs.append({'op': 'lex', 'dialect': dn, 'text': real + rest})
      meta.append(('S', dn, s, real))
  for (kind, dn, s, real), resp in zip(meta, drv.ask_many(reqs)):
    if kind == 'K':
      ck.corr('StrLiteral')
      ck.case(['strlit', dn, s], nontrivial(s), ['strlit:' + dn])
      if resp.get('out') != real:
        ck.disagreement('QL.StrLiteral vs Escape.strLiteral', {'dialect': dn, 's': s}, real, resp.get('out'))
    else:
      ok = resp.get('s') == s and resp.get('rest') == rest
      if not ok:
        ck.violation('literal-not-data:%s:%s' % (dn, klass(s)),
                     'dialect %s: StrLiteral(%r) = %r is read by the dialect as %r (rest %r)' % (
                         dn, s, real, resp.get('s'), resp.get('rest')),
                     {'dialect': dn, 's': s, 'emitted': real, 'decoded': resp.get('s'), 'rest': resp.get('rest')})

  # ---------------- corpus (past failures, probes) ----------------------------------------------
  for c in ck.corpus():
    o = R.job_run_sqlite((c['program'], c['pred'], c.get('user_flags')))
    ck.case(['corpus', c['_file']], True, ['corpus'])
    if not (o['kind'] == 'ok' and o['rows'] == c['expected']):
      s0 = c['expected'][0][0]
      got = o.get('rows')
      if o['kind'] == 'rule_compile' and 'undefined' in o.get('message', '') and not PARAM_RE.search(s0):
        key = 'dollar-brace-spanning-literal'
      elif (o['kind'] == 'ok' and len(got) == 1 and isinstance(got[0][0], str) and '\n' in s0 and
            re.sub(r'\n +', '\n', got[0][0]) == re.sub(r'\n +', '\n', s0)):
        key = 'newline-in-literal-reindented'
      else:
        key = 'corpus:' + c['_file']
      ck.violation(key, 'corpus %s: returned %r (%s), expected %r' % (c['_file'], got, o['kind'], c['expected']),
                   {'program': c['program'], 'expected': c['expected'], 'got': got})

  # ---------------- S: SQLite returns the string from every position ---------------------------
  positions = [
      ('fact', lambda l: 'T(%s);' % l),
      ('twofacts', lambda l: 'T(%s);\nT("zzzzz") :- 1 == 2;' % l),
      ('list', lambda l: 'T(x) :- x in ["q", %s], x != "q";' % l),
      ('record', lambda l: 'T(r.a) :- r == {a: %s, b: 1};' % l),
      ('concat', lambda l: 'T(x) :- x == Substr("ab" ++ %s, 3, 1000);' % l),
      ('arg0', lambda l: 'T(Element([%s, "x"], 0));' % l),
      ('compare', lambda l: 'S(%s);\nT(x) :- S(x), x == %s;' % (l, l)),
      ('flagdefault', lambda l: '@DefineFlag("fl", %s);\nT(FlagValue("fl"));' % l),
  ]
  sub = [s for s in strings if '\x00' not in s]
  n_sql = ck.budget(90, 1500)
  pick = sub[:70] + (ck.rng.sample(sub[70:], min(len(sub) - 70, n_sql)) if len(sub) > 70 else [])
  jobs, meta = [], []
  for s in pick:
    forms = R.logica_str(s)
    for (pname, mk) in positions:
      lit = ck.rng.choice(forms)
      prog = '@Engine("sqlite");\n' + mk(lit) + '\n'
      jobs.append((prog, 'T', None))
      meta.append((pname, s, lit, prog, None))
    prog = '@Engine("sqlite");\n@DefineFlag("fl", "dflt");\nT(FlagValue("fl"));\n'
    jobs.append((prog, 'T', {'fl': s}))
    meta.append(('userflag', s, None, prog, {'fl': s}))
  for (pname, s, lit, prog, uf), o in zip(meta, core.pmap(R.job_run_sqlite, jobs)):
    ck.case(['sqlite', pname, s], nontrivial(s), ['sqlite:' + pname] + (['form:' + ('3' if lit.startswith('"""') else lit[:1])] if lit else []))
    if o['kind'] == 'ok' and o['rows'] == [[s]]:
      continue
    got = o.get('rows')
    if PARAM_RE.search(prog) and o['kind'] == 'rule_compile' and 'undefined' in o.get('message', ''):
      if PARAM_RE.search(s):
        continue   # the documented ${name} form with an undefined name: rejection is the documented behaviour
      key = 'dollar-brace-spanning-literal'
    elif (o['kind'] == 'ok' and len(got) == 1 and isinstance(got[0][0], str) and '\n' in s and
          re.sub(r'\n +', '\n', got[0][0]) == re.sub(r'\n +', '\n', s)):
      key = 'newline-in-literal-reindented'
    else:
      key = 'sqlite-not-data:%s:%s' % (pname, klass(s))
    ck.violation(key, 'SQLite position %s: literal %s (user flags %r) returned %r (%s %s)' % (
        pname, lit, uf, got, o['kind'], o.get('message', '')[:200]),
        {'program': prog, 'user_flags': uf, 'expected': [[s]], 'got': got, 'outcome': o['kind']})

  # ---------------- S: multi-slot built-ins do not reinterpret arguments -----------------------
  tricky = ['{0}', '{1}', '{2}', '%s', '%d', '{left}', '{right}', '%(x)s', '{0}{1}', '%s%s', "{1}'", '{', '}']
  jobs, meta = [], []
  for s in tricky:
    [lit] = R.logica_str(s)[:1]
    cases = [
        ('T(Join([%s, "b"], "-"));' % lit, s + '-b'),
        ('T(Join(["b", %s], %s));' % (lit, lit), 'b' + s + s),
        ('T(Element([%s, "x"], 0));' % lit, s),
        ('T(%s ++ %s);' % (lit, lit), s + s),
        ('T(Least(%s, %s));' % (lit, lit), s),
        ('T(Substr(%s, 1, 100));' % lit, s),
        ('T(x) :- x == (if %s == "zz" then "no" else %s);' % (lit, lit), s),
        ('T(ToString(Size([%s, %s])) ++ %s);' % (lit, lit, lit), '2' + s),
    ]
    for body, expected in cases:
      prog = '@Engine("sqlite");\n' + body + '\n'
      jobs.append((prog, 'T', None))
      meta.append((s, body, expected, prog))
  for (s, body, expected, prog), o in zip(meta, core.pmap(R.job_run_sqlite, jobs)):
    ck.case(['builtin-arg', body], True, ['builtin-arg'])
    if o['kind'] != 'ok' or o['rows'] != [[expected]]:
      ck.violation('builtin-reinterprets-arg:%s' % body.split('(')[1][:12],
                   'built-in applied to %r returned %r, expected %r (%s)' % (
                       s, o.get('rows'), expected, o.get('message', '')[:200]),
                   {'program': prog, 'expected': expected, 'got': o.get('rows')})

  # ---------------- S: all dialects — whole-statement shape -------------------------------------
  n_shape = ck.budget(14, 150)
  shape_strings = [s for s in sub if s and nontrivial(s) and not PARAM_RE.search(s) and '${' not in s]
  shape_pick = shape_strings[:10] + ck.rng.sample(shape_strings[10:], min(n_shape, max(0, len(shape_strings) - 10)))
  templates = [
      lambda l: 'T(%s);' % l,
      lambda l: 'T(Join([%s, "b"], "SEP"), %s ++ "z");' % (l, l),
      lambda l: '@DefineFlag("fl", %s);\nT(FlagValue("fl"));' % l,
  ]
  plain = 'plainstring'
  jobs, meta = [], []
  for eng in R.ENGINES:
    for ti, mk in enumerate(templates):
      jobs.append(('@Engine("%s");\n%s\n' % (eng, mk('"%s"' % plain)), 'T', None))
      meta.append((eng, ti, None, None))
      for s in shape_pick:
        lit = ck.rng.choice(R.logica_str(s))
        jobs.append(('@Engine("%s");\n%s\n' % (eng, mk(lit)), 'T', None))
        meta.append((eng, ti, s, lit))
  base = {}
  for (eng, ti, s, lit), c in zip(meta, core.pmap(R.job_compile, jobs)):
    dn = R.ENGINE_DIALECT_NAME[eng]
    ql = R.ql_for(eng)
    if s is None:
      base[(eng, ti)] = c
      if c['kind'] != 'ok':
        ck.notes.append('template %d does not compile for %s: %s' % (ti, eng, c['kind']))
      continue
    b = base[(eng, ti)]
    if b['kind'] != 'ok':
      continue
    ck.case(['shape', eng, ti, s], True, ['shape:' + eng])
    real_lit = ql.StrLiteral({'the_string': s})
    plain_lit = ql.StrLiteral({'the_string': plain})
    if c['kind'] != 'ok':
      ck.violation('literal-changes-outcome:%s:%s' % (dn, klass(s)),
                   '%s: program with literal %s fails to compile (%s) while the plain one compiles' % (eng, lit, c['kind']),
                   {'engine': eng, 'literal': lit, 'message': c.get('message', '')[:300]})
      continue
    expected_sql = b['sql'].replace(plain_lit, real_lit)
    if c['sql'] != expected_sql:
      if '\n' in s and re.sub(r'\n +', '\n', c['sql']) == re.sub(r'\n +', '\n', expected_sql):
        ck.violation('newline-in-literal-reindented', '%s: literal %r is re-indented inside the SQL text' % (eng, s),
                     {'engine': eng, 's': s, 'sql': c['sql']})
      else:
        ck.violation('literal-changes-shape:%s:%s' % (dn, klass(s)),
                     '%s: SQL for literal %r is not the plain-string SQL with the literal replaced' % (eng, s),
                     {'engine': eng, 's': s, 'sql': c['sql'], 'plain_sql': b['sql']})

  # ---------------- K + S: flags ----------------------------------------------------------------
  flag_names = ['a', 'b', 'c', 'date', 'x1']
  val_pieces = ['', 'v', '${a}', '${b}', '${c}', '7', "'", '$', '{', '}', '${', 'x${a}y', '${date}', ' ']

  class Stub:
    pass
  reqs, meta = [], []
  for _ in range(ck.budget(400, 6000)):
    k = ck.rng.randint(0, 4)
    names = ck.rng.sample(flag_names, k)
    def val():
      # at most one ${..} reference per value: growth per round stays linear (no exponential blow-up)
      ps = [ck.rng.choice(val_pieces) for _ in range(ck.rng.randint(0, 3))]
      seen_ref = False
      out = []
      for q in ps:
        if '${' in q and '}' in q:
          if seen_ref:
            continue
          seen_ref = True
        out.append(q)
      return ''.join(out)
    flags = [(n, val()) for n in names]
    sql = ''.join(ck.rng.choice(val_pieces + ['SELECT ', 'q']) for _ in range(ck.rng.randint(0, 5)))
    st = Stub()
    st.flag_values = dict(flags)
    try:
      real = {'ok': R.universe.LogicaProgram.UseFlagsAsParameters(st, sql)}
    except R.rule_translate.RuleCompileException:
      real = {'err': 'recursive-flags'}
    reqs.append({'op': 'useflags', 'flags': [list(f) for f in flags], 'sql': sql})
    meta.append((flags, sql, real))
  for (flags, sql, real), resp in zip(meta, drv.ask_many(reqs)):
    ck.corr('UseFlagsAsParameters')
    ck.case(['useflags', flags, sql], bool(flags) and '${' in sql, ['useflags:' + ('err' if 'err' in real else 'ok')])
    if resp != real:
      ck.disagreement('UseFlagsAsParameters vs Escape.useFlags', {'flags': flags, 'sql': sql}, real, resp)
    # property clauses, model-free
    if 'ok' in real:
      out = real['ok']
      if not any('${%s}' % n in sql for n, _ in flags) and out != sql:
        ck.violation('non-flag-text-changed', 'text without any ${flag} was changed: %r -> %r' % (sql, out),
                     {'flags': flags, 'sql': sql, 'out': out})

  reqs, meta = [], []
  for _ in range(ck.budget(300, 4000)):
    def some():
      k = ck.rng.randint(0, 3)
      return [(n, ck.rng.choice(['', 'd', 'u', 'r', '0', ' ', '${a}'])) for n in ck.rng.sample(flag_names, k)]
    defaults, resets, user = some(), some(), some()
    if ck.rng.random() < 0.15:
      user.append(('logica_default_engine', 'sqlite'))
    st = Stub()
    st.annotations = {'@DefineFlag': {n: ({'1': v} if v != 'NONE' else {}) for n, v in defaults},
                      '@ResetFlagValue': {n: {'1': v} for n, v in resets}}
    st.user_flags = dict(user)
    try:
      real = {'ok': [list(kv) for kv in R.universe.Annotations.BuildFlagValues(st).items()]}
    except R.rule_translate.RuleCompileException:
      real = {'err': 'undefined-flags'}
    reqs.append({'op': 'buildflags', 'defaults': [list(x) for x in defaults],
                 'resets': [list(x) for x in resets], 'user': [list(x) for x in user]})
    meta.append((defaults, resets, user, real))
  for (defaults, resets, user, real), resp in zip(meta, drv.ask_many(reqs)):
    ck.corr('BuildFlagValues')
    ck.case(['buildflags', defaults, resets, user], bool(user), ['buildflags:' + ('err' if 'err' in real else 'ok')])
    if resp != real:
      ck.disagreement('BuildFlagValues vs Escape.buildFlagValues',
                      {'defaults': defaults, 'resets': resets, 'user': user}, real, resp)
    allowed = {n for n, _ in defaults} | {'logica_default_engine'}
    undefined = [n for n, _ in user if n not in allowed]
    if undefined and 'ok' in real:
      ck.violation('undefined-flag-accepted', 'user flags %r are not defined but were accepted' % undefined,
                   {'defaults': defaults, 'user': user})
    if not undefined and 'err' in real:
      ck.violation('defined-flag-rejected', 'all user flags are defined but were rejected',
                   {'defaults': defaults, 'user': user})
    if 'ok' in real:
      got = dict(map(tuple, real['ok']))
      for n, v in user:
        if got.get(n) != dict(user)[n]:
          ck.violation('user-flag-not-overriding', 'user value %r for flag %s lost: %r' % (v, n, got.get(n)),
                       {'defaults': defaults, 'resets': resets, 'user': user, 'values': real['ok']})

  # through the whole pipeline: user values (incl. empty string) override defaults
  for v in ['', ' ', '0', 'x', "it''s", 'a b', 'é']:
    prog = '@Engine("sqlite");\n@DefineFlag("greeting", "hello");\nT(FlagValue("greeting"), "${greeting}");\n'
    o = R.run_sqlite(prog, 'T', user_flags={'greeting': v})
    ck.case(['pipeline-userflag', v], True, ['pipeline-userflag'])
    exp = [[v, v.replace("''", "'")]]
    if o.kind != 'ok' or o.rows != exp:
      ck.violation('user-flag-not-overriding', 'user flag value %r: got %r, expected %r' % (v, getattr(o, 'rows', None), exp),
                   {'program': prog, 'user_flags': {'greeting': v}, 'got': getattr(o, 'rows', None)})
  o = R.compile_pred('@Engine("sqlite");\n@DefineFlag("f", "1");\nT(FlagValue("f"));\n', 'T', user_flags={'g': '2'})
  ck.case(['pipeline-undefined-flag'], True, ['pipeline-undefined-flag'])
  if o.kind != 'rule_compile':
    ck.violation('undefined-flag-accepted', 'undefined user flag g accepted by the pipeline: %s' % o.kind, {'outcome': o.kind})
  o = R.compile_pred('@Engine("sqlite");\nT("${nope}");\n', 'T')
  if o.kind != 'rule_compile':
    ck.violation('undefined-parameter-accepted', 'undefined ${nope} accepted: %s' % o.kind, {'outcome': o.kind})
  o = R.compile_pred('@Engine("sqlite");\n@DefineFlag("a", "${b}");\n@DefineFlag("b", "${a}x");\nT("${a}");\n', 'T')
  ck.case(['pipeline-recursive-flags'], True, ['pipeline-recursive-flags'])
  if o.kind != 'rule_compile':
    ck.violation('recursive-flags-not-rejected', 'recursive flags: outcome %s' % o.kind, {'outcome': o.kind})


def klass(s):
  """Class of a failing string for known-finding keys: the set of special characters it contains."""
  return ''.join(sorted({c for c in s if c in SPECIAL})).encode('unicode_escape').decode()


def replay(ck, rep):
  print(core.canon(rep))
