"""C12 — imports isolate modules and mean the same as one flattened program.

(T) lean/LogicaModel/Props/C12.lean
(S) generated import graphs written to a scratch directory (chains, diamonds, shared base names in
    different directories, aliases, several import roots, modules with same-named private predicates,
    nested self-application inside modules): rows of the main file's predicates on SQLite, under both
    parsers, versus the single-file program flattened by the harness at AST level (every file's
    predicates renamed uniquely) and versus Sem.denote of the flattened program. Error graphs (cycle,
    undefined import, unused import, redefinition) must be rejected with ParsingException by both parsers.
"""
import copy
import os
import shutil

import core
import gen_program as G
import realcode as R
import semcheck
from gen_program import V, L, OP, Pred, Program
from templates import atom, AND, rule

RULE = ('import graphs of 2-6 module files (chain, diamond, tree, shared base names a/util + b/util, deeper '
        'paths, second import root), each module with a private Helper and 1-2 exported predicates, imports with '
        'and without aliases, a module imported along several paths; 4 error kinds derived from valid graphs; '
        'both parsers; non-trivial = main predicate non-empty and at least two modules define a same-named '
        'predicate; distinct by file set')
ASSUMPTIONS = ('the file system used by imports is a scratch directory outside /repo and /verif, removed afterwards',)

x, y = V('x'), V('y')


class Module:
  def __init__(self, path):
    self.path = path              # e.g. 'a.util'
    self.rules = []               # AST rules with local predicate names
    self.imports = []             # (module path, predicate, alias or None)
    self.defined = []


def gen_graph(rng):
  shape = rng.choice(['chain', 'diamond', 'tree', 'shared-base', 'shared-base', 'deep-paths', 'camel-case'])
  if shape == 'chain':
    paths = ['m1', 'm2', 'm3'][:rng.randint(2, 3)]
    edges = {paths[i]: [paths[i + 1]] for i in range(len(paths) - 1)}
    main_imports = [paths[0]]
  elif shape == 'diamond':
    paths = ['left', 'right', 'base']
    edges = {'left': ['base'], 'right': ['base']}
    main_imports = ['left', 'right'] + (['base'] if rng.random() < 0.4 else [])
  elif shape == 'tree':
    paths = ['lib.one', 'lib.two', 'lib.three']
    edges = {'lib.one': ['lib.three'] if rng.random() < 0.5 else []}
    main_imports = ['lib.one', 'lib.two']
  elif shape == 'shared-base':
    paths = ['a.util', 'b.util'] + (['c.util'] if rng.random() < 0.4 else [])
    edges = {'a.util': ['b.util'] if rng.random() < 0.4 else []}
    main_imports = list(paths)
  elif shape == 'camel-case':
    paths = ['pkg.dataSet', 'pkg2.dataSet', 'pkg.OtherLib']
    edges = {'pkg.dataSet': ['pkg.OtherLib'] if rng.random() < 0.5 else []}
    main_imports = list(paths)
  else:
    paths = ['x.y.util', 'x.z.util', 'w.y.util']
    edges = {}
    main_imports = list(paths)
  mods = {}
  for p in reversed(paths):
    m = Module(p)
    # private helper (same name in every module) + exported predicates
    base = rng.randint(0, 5)
    m.rules.append(rule('Helper', [['col0', x]], {'in': [x, L([base, base + 1] + ([base + 3] if rng.random() < 0.5 else []))]}))
    exported = ['Data']
    m.rules.append(rule('Data', [['col0', x]], atom('Helper', x)))
    if rng.random() < 0.6:
      m.rules.append(rule('Inc', [['col0', x], ['logica_value', OP('+', x, L(base + 1))]], None))
      m.rules.append(rule('Twice', [['col0', x], ['logica_value', {'call': 'Inc', 'args': [['col0', {'call': 'Inc', 'args': [['col0', x]]}]]}]], None))
      m.rules.append(rule('Shifted', [['col0', {'call': 'Twice', 'args': [['col0', x]]}]], atom('Data', x)))
      exported.append('Shifted')
    for dep in edges.get(p, []):
      dm = mods[dep]
      pred = rng.choice(dm.defined)
      alias = rng.choice([None, None, 'Imp' + pred])
      m.imports.append((dep, pred, alias))
      name = alias or pred
      if name in [r['head'] for r in m.rules] + ['Joined']:     # names this module defines itself (Joined: just below)
        alias = 'Ext' + pred
        m.imports[-1] = (dep, pred, alias)
        name = alias
      m.rules.append(rule('Joined', [['col0', x]], {'or': [atom('Data', x), atom(name, x)]}))
      exported.append('Joined')
    m.defined = exported
    mods[p] = m
  main = Module('main')
  used = []
  for dep in main_imports:
    dm = mods[dep]
    for pred in rng.sample(dm.defined, rng.randint(1, len(dm.defined))):
      alias = None
      name = pred
      if name in used or rng.random() < 0.3:
        alias = '%s%d' % (pred, len(used))
        name = alias
      used.append(name)
      main.imports.append((dep, pred, alias))
  if rng.random() < 0.5:
    main.rules.append(rule('Helper', [['col0', x]], {'in': [x, L([100])]}))     # main's own same-named private predicate
    used.append('Helper')
  main.rules.append(rule('All', [['col0', x]], {'or': [atom(n, x) for n in used]}))
  if len(used) >= 2:
    main.rules.append(rule('Both', [['col0', x]], AND(atom(used[0], x), atom(used[1], x))))
  roots = 1 if rng.random() < 0.6 else 2
  return {'shape': shape, 'mods': mods, 'main': main, 'order': paths, 'roots': roots,
          'decoys': roots == 2 and rng.random() < 0.6}


def module_text(m, printer):
  lines = []
  for dep, pred, alias in m.imports:
    lines.append('import %s.%s%s;' % (dep, pred, ' as %s' % alias if alias else ''))
  lines += [printer.rule(r) for r in m.rules]
  return '\n'.join(lines) + '\n'


def write_graph(g, root):
  pr = G.Printer()
  # the order of the root list is what counts, not the names of the roots: half of the time the first root
  # sorts after the second
  names = ['r%d' % i for i in range(g['roots'])]
  if g['roots'] == 2 and g.get('decoys'):
    names = ['w_first', 'd_second']
  roots = [os.path.join(root, n) for n in names]
  for r in roots:
    os.makedirs(r, exist_ok=True)
  for i, p in enumerate(g['order']):
    m = g['mods'][p]
    k = i % len(roots)
    if g.get('decoys'):
      k = 0 if i % 3 else k
    path = os.path.join(roots[k], *p.split('.')) + '.l'
    os.makedirs(os.path.dirname(path), exist_ok=True)
    with open(path, 'w') as f:
      f.write(module_text(m, pr))
    if g.get('decoys'):
      # a different file of the same module path under every later root: it must never be read
      for r2 in roots[k + 1:]:
        path2 = os.path.join(r2, *p.split('.')) + '.l'
        os.makedirs(os.path.dirname(path2), exist_ok=True)
        with open(path2, 'w') as f:
          f.write(module_text(m, pr).replace(' in [', ' in [77, '))
  main_text = '@Engine("sqlite");\n' + module_text(g['main'], pr)
  return main_text, (roots[0] if len(roots) == 1 else roots)


def flatten(g):
  """Single-file program: every module's predicates get a unique prefix; imports / aliases are resolved."""
  prog = Program()
  tag = {p: 'M%d' % i for i, p in enumerate(g['order'])}
  done = set()

  def emit(m, prefix):
    local = {r['head'] for r in m.rules}
    ren = {n: prefix + n for n in local}
    for dep, pred, alias in m.imports:
      ren[alias or pred] = tag[dep] + '_' + pred
    for r in m.rules:
      r2 = copy.deepcopy(r)
      r2 = rename(r2, ren)
      r2['head'] = ren[r['head']]
      prog.rules.append(r2)
      if r2['head'] not in done:
        done.add(r2['head'])
        cols = [f for f, _ in r2['args']]
        prog.preds.append(Pred(r2['head'], cols, ['int'] * len(cols), 'functional' if 'logica_value' in cols else 'concrete'))
  for p in reversed(g['order']):
    emit(g['mods'][p], tag[p] + '_')
  emit(g['main'], '')
  # dependency order for the reference evaluator
  return prog


def rename(x, m):
  if isinstance(x, dict):
    out = {}
    for k, v in x.items():
      if k in ('atom', 'call') and v in m:
        out[k] = m[v]
      else:
        out[k] = rename(v, m)
    return out
  if isinstance(x, list):
    return [rename(v, m) for v in x]
  return x


def topo(prog):
  d = {}
  for r in prog.rules:
    d.setdefault(r['head'], set()).update(semcheck.body_preds(r.get('body'), set()) | semcheck.body_preds(r.get('args'), set()))
  order, seen = [], set()

  def visit(p):
    if p in seen:
      return
    seen.add(p)
    for q in sorted(d.get(p, ())):
      visit(q)
    order.append(p)
  by = {p.name: p for p in prog.preds}
  for p in prog.preds:
    visit(p.name)
  prog.preds = [by[n] for n in order if n in by]


def job(j):
  main_text, root, flat_text, preds, mode = j
  with R.parser_mode(mode):
    real = semcheck.job_real_root((main_text, preds, root))
    flat = semcheck.job_real((flat_text, preds))
  return real, flat


def error_variants(rng, g):
  """(kind, mutated graph) — each must be rejected with a parsing error."""
  out = []
  paths = g['order']
  # undefined import
  g2 = copy.deepcopy(g)
  dep = g2['main'].imports[0][0]
  g2['main'].imports[0] = (dep, 'Nonexistent', None)
  g2['main'].rules.append(rule('UsesIt', [['col0', x]], atom('Nonexistent', x)))
  out.append(('undefined-import', g2))
  # unused import
  g3 = copy.deepcopy(g)
  dep = g3['order'][0]
  g3['main'].imports.append((dep, 'Data', 'NeverUsed'))
  out.append(('unused-import', g3))
  # circular import
  if len(paths) >= 2:
    g4 = copy.deepcopy(g)
    a, b = paths[0], paths[-1]
    g4['mods'][b].imports.append((a, 'Data', 'CycData'))
    g4['mods'][b].rules.append(rule('Cyc', [['col0', x]], atom('CycData', x)))
    if not any(d == b for d, _, _ in g4['mods'][a].imports):
      g4['mods'][a].imports.append((b, 'Data', 'BackData'))
      g4['mods'][a].rules.append(rule('Back', [['col0', x]], atom('BackData', x)))
    out.append(('circular-import', g4))
  # redefinition of an imported predicate's flattened name is not expressible; redefine by defining the
  # prefixed name in main
  g5 = copy.deepcopy(g)
  dep, pred, alias = g5['main'].imports[0]
  g5['_redefine'] = (dep, pred)
  out.append(('override', g5))
  return out


def completion_order(g):
  """files in the order their parse completes (post-order over the import statements)"""
  order, seen = [], set()

  def visit(m):
    for dep, _, _ in m.imports:
      if dep not in seen:
        seen.add(dep)
        visit(g['mods'][dep])
        order.append(dep)
  visit(g['main'])
  return order


def job_prefixes(j):
  main_text, root = j
  class Probe(dict):
    def __bool__(self):        # `parsed_imports or {}` must keep this (initially empty) dictionary
      return True
  probe = Probe()
  with R.parser_mode('PY'):
    try:
      with R.quiet():
        R.parse.ParseFile(main_text, parsed_imports=probe, import_root=root)
    except Exception as e:  # noqa: BLE001
      return {'error': '%s: %s' % (type(e).__name__, str(e)[:120])}
  return {k: v['predicates_prefix'] for k, v in probe.items() if v}


def job_error(j):
  kind, main_text, root, mode = j
  with R.parser_mode(mode):
    try:
      with R.quiet():
        R.parse.ParseFile(main_text, import_root=root)
      return kind, 'accepted', ''
    except Exception as e:  # noqa: BLE001
      return kind, R.classify(e), '%s: %s' % (type(e).__name__, str(e)[:200])


def run(ck):
  drv = core.Driver()
  err = R.ensure_cpp_built()
  if err:
    ck.violation('cpp-parser-does-not-build', 'the C++ parser cannot be built from the current source: ' + err, {})
  scratch = core.scratch_dir()
  try:
    graphs = [gen_graph(ck.rng) for _ in range(ck.budget(40, 600))]
    jobs, meta, ejobs = [], [], []
    for i, g in enumerate(graphs):
      root = os.path.join(scratch, 'g%d' % i)
      main_text, import_root = write_graph(g, root)
      flat = flatten(g)
      topo(flat)
      preds = [r['head'] for r in g['main'].rules if r['head'] != 'Helper']
      preds = list(dict.fromkeys(preds))
      for mode in (['PY'] if err else ['PY', 'CPP']):
        jobs.append((main_text, import_root, flat.text(), preds, mode))
        meta.append((g, flat, preds, mode, main_text))
      if i % 2 == 0:
        for kind, eg in error_variants(ck.rng, g):
          eroot = os.path.join(scratch, 'e%d_%s' % (i, kind))
          etext, eimp = write_graph(eg, eroot)
          if kind == 'override':
            dep, pred = eg['_redefine']
            # the importer redefines the predicate it imports
            etext += '%s(x) :- x in [1];\n' % pred if not any(a for d, p, a in eg['main'].imports if p == pred and a) else ''
            if not etext.endswith('in [1];\n'):
              continue
          for mode in (['PY'] if err else ['PY', 'CPP']):
            ejobs.append((kind, etext, eimp, mode))
    # (K) the prefixes the real parser hands out vs Imports.assign over the files in completion order
    pjobs = [(main_text, import_root) for (main_text, import_root, _, _, mode) in jobs if mode == 'PY']
    pgraphs = [g for (g, _, _, mode, _) in meta if mode == 'PY']
    preal = core.pmap(job_prefixes, pjobs)
    pmodel = drv.ask_many([{'op': 'import_prefixes', 'files': [f.split('.') for f in completion_order(g)]} for g in pgraphs])
    for g, real_p, model_p in zip(pgraphs, preal, pmodel):
      ck.corr('import-prefixes-vs-model')
      order = completion_order(g)
      want = dict(zip(order, model_p)) if isinstance(model_p, list) else None
      if 'error' in real_p or want is None:
        if not ('error' in real_p and want is None):
          ck.disagreement('import-prefixes-vs-model', {'files': order}, real_p, model_p)
      elif real_p != want:
        ck.disagreement('import-prefixes-vs-model', {'files': order}, real_p, want)
      elif len(set(real_p.values())) != len(real_p):
        ck.violation('c12:prefix-collision', 'two files share the prefix: %s' % real_p, {'files': order})
    models = drv.ask_parallel([semcheck.model_requests(flat, [p for p in flat.preds if p.name in preds])
                               for (g, flat, preds, mode, _) in meta if mode == 'PY'])
    mi = iter(models)
    results = core.pmap(job, jobs)
    for (g, flat, preds, mode, main_text), (real, fl) in zip(meta, results):
      model = next(mi) if mode == 'PY' else None
      files = {p: module_text(g['mods'][p], G.Printer()) for p in g['order']}
      nontriv = any(real[q]['kind'] == 'ok' and real[q]['rows'] for q in preds)
      ck.case([main_text, files, mode], nontriv, ['shape:' + g['shape'], 'parser:' + mode, 'roots:%d' % g['roots']] + (['shadowed-module-in-later-root'] if g.get('decoys') else []) +
              (['alias'] if any(a for _, _, a in g['main'].imports) else []))
      ck.corr('imports-vs-flattened', len(preds))
      for q in preds:
        r, f = real[q], fl[q]
        rp = {'main': main_text, 'files': files, 'flattened': flat.text(), 'pred': q, 'parser': mode}
        if 'too_big' in (f['kind'], r['kind']):
          ck.features['capacity-skipped'] += 1
          continue
        if f['kind'] != 'ok':
          ck.notes.append('flattened program does not evaluate: %s' % f.get('message', '')[:120])
          continue
        if r['kind'] != 'ok':
          key = 'c12:%s:outcome:%s' % (g['shape'], r.get('exc_type', r['kind']))
          if g['shape'] in ('shared-base', 'deep-paths') and ('AssertionError' in r.get('message', '') + r.get('exc_type', '') or 'equal modulo' in r.get('message', '')):
            key = 'shared-base-name-rejected'
          ck.violation(key, 'parser %s: predicate %s of the importing program: %s %s; the flattened program evaluates' % (
              mode, q, r['kind'], r.get('message', '')[:160]), rp)
          continue
        a, b = sorted(map(tuple, r['rows'])), sorted(map(tuple, f['rows']))
        if a != b:
          ck.violation('c12:%s:rows' % g['shape'], 'parser %s: predicate %s: with imports %s, flattened %s' % (mode, q, a[:8], b[:8]), rp)
        elif model and 'result' in model and q in model['result']:
          m = sorted(tuple(v for _, v in row) for row in model['result'][q])
          if m != a:
            ck.violation('c12:%s:rows-vs-denotation' % g['shape'], 'predicate %s: SQLite %s, denotation of the flattened program %s' % (q, a[:8], m[:8]), rp)
    for kind, outcome, msg in core.pmap(job_error, ejobs):
      ck.case(['error-graph', kind, msg], True, ['error:' + kind, 'error-outcome:' + outcome])
    for (kind, etext, eimp, mode), (_, outcome, msg) in zip(ejobs, core.pmap(job_error, ejobs)):
      if outcome != 'parsing':
        ck.violation('c12:%s-not-rejected:%s' % (kind, mode), 'parser %s: %s is %s (%s), a ParsingException is required' % (mode, kind, outcome, msg),
                     {'main': etext, 'kind': kind, 'parser': mode})
  finally:
    shutil.rmtree(scratch, ignore_errors=True)


def replay(ck, rep):
  print(core.canon(rep))
