"""C01 — compiled SQL returns exactly the multiset the program denotes.

(T) lean/LogicaModel/Props/C01.lean (verified compiler of the conjunctive fragment: evalSelect (compile r) = denote r)
(K) cqcheck: the real compiler's SELECT for random conjunctive rules is literally `CQ.compile`, and SQLite
    returns `CQ.denote` on random tables
(K/S) generated core-fragment programs: rows + column names from the real pipeline on SQLite versus the
      Lean reference evaluator Sem.denote on the generator's AST.
"""
import core
import cqcheck
import gen_program as G
import semcheck
import templates

RULE = ('type-directed generated programs (2-3 fact tables of <=5 rows with duplicates, 2-5 derived predicates, '
        '1-3 rules each, <=3 atoms per body) over the C01 feature mask: conjunction, disjunction (nested), named '
        'and positional arguments, arithmetic, comparison, assignment chains, `in` over literals/Range, lists, '
        'records + subscripts, if-then-else, functional predicates, expression arguments; every defined '
        'predicate is queried; non-trivial = predicate with at least one rule body and a non-empty result; '
        'distinct by program text')
ASSUMPTIONS = ('SQLite 3.40.1 executes the emitted SQL; 64-bit overflow and floats are outside the generated domain',)

MASK = {'disj', 'named', 'arith', 'cmp', 'assign', 'in', 'lists', 'records', 'ite', 'functional', 'multirule',
        'strs', 'dupfacts', 'headexpr', 'injectible'}


def key_of(p, what):
  return 'c01:%s:%s' % (p.kind, what)


def run(ck):
  # corpus: past failures / probes (program, pred, expected rows as dicts)
  import json
  for c in ck.corpus():
    r = semcheck.job_real((c['program'], [c['pred']]))[c['pred']]
    ck.case(['corpus', c['_file']], True, ['corpus'])
    got = None
    if r['kind'] == 'ok':
      got = sorted(json.dumps(dict(zip(r['header'], row)), sort_keys=True) for row in r['rows'])
    exp = sorted(json.dumps(x, sort_keys=True) for x in c['expected'])
    if got != exp:
      ck.violation(c.get('key', 'corpus:' + c['_file']), 'corpus %s: %s %s, got %s expected %s' % (
          c['_file'], r['kind'], r.get('message', '')[:150], got, exp), {'program': c['program'], 'pred': c['pred']})
  cqcheck.run(ck, ck.budget(200, 4000))
  cqcheck.run_x(ck, ck.budget(200, 4000))
  n = ck.budget(150, 2500)
  made = semcheck.make_programs(ck, n, MASK)
  made += semcheck.make_programs(ck, ck.budget(48, 720), None, {'templates': ['t_multivalued_calls', 't_nested_disjunction', 't_no_table_rule', 't_record_if', 't_unary_minus', 't_mixed_head', 't_named_multibody']}, builder=templates.build)
  # every third program spells its named arguments in a different order in every rule head and call: columns are
  # identified by name, not by position
  import random as _random
  jobs = []
  for i, (pr, _) in enumerate(made):
    if i % 3 == 0:
      pr.named_shuffled = True
      jobs.append((pr.text(G.Printer(named_order_rng=_random.Random(ck.seed * 7919 + i), named_order_distinct=True)), [p.name for p in pr.preds]))
    else:
      jobs.append((pr.text(), [p.name for p in pr.preds]))
  reals = core.pmap(semcheck.job_real, jobs)
  for (pr, model), job, real in zip(made, jobs, reals):
    nonempty = 'result' in model and any(model['result'][p.name] for p in pr.preds if p.kind != 'facts')
    ck.case(job[0], nonempty, sorted(pr.features))
    ck.corr('denote-vs-sqlite', len(pr.preds))
    semcheck.compare(ck, pr, job[0], pr.preds, real, model, key_of)


def replay(ck, rep):
  print(core.canon(rep))
