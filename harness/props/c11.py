"""C11 — documented shorthand forms mean the same as their long forms.

(T) lean/LogicaModel/Props/C11.lean
(S) metamorphic on the real code: for every generated program, the short and the long form of each
    documented equivalence (applied at every occurrence) return the same multisets on SQLite.
"""
import copy

import core
import gen_program as G
import metamorph as M
import semcheck
import templates

RULE = ('generated programs (full mask + shape templates) x the documented equivalences: positional = colN, '
        '`a:` = `a: a`, F(x) = v  vs  logica_value: v (heads), functional call vs extra conjunct, = vs ==, ~P vs '
        'Max{1 :- P} is null, A => B vs ~(A, ~B), the three aggregating-expression forms, x in [a, b] vs '
        'alternatives, several rules vs one rule with |, P(k) Op= e vs logica_value? Op= e distinct; every '
        'predicate compared; non-trivial = the two texts differ and some result is non-empty; distinct by '
        '(program, equivalence)')
ASSUMPTIONS = ()


def calls_to_conjuncts(prog):
  """functional call in an expression = fresh variable + conjunct binding logica_value (top-level bodies and
  inside the aggregating expression / negation that contains the call)."""
  p = copy.deepcopy(prog)
  counter = [0]

  def rewrite_scope(conjs):
    """conjs: list of props of one conjunction scope. Returns new list."""
    out = []
    for c in conjs:
      extra = []

      def f(n):
        if isinstance(n, dict) and 'call' in n and n['call'].startswith(('F', 'Threshold')):
          counter[0] += 1
          v = 'cv%d' % counter[0]
          extra.append({'atom': n['call'], 'args': list(n['args']) + [['logica_value', {'var': v}]]})
          return {'var': v}
        return n
      c2 = rewrite_node(c, f)
      out.append(c2)
      out.extend(extra)
    return out

  def rewrite_node(x, f):
    # do not descend into nested scopes (agg / not): they are handled as their own scope
    if isinstance(x, dict):
      if 'agg' in x:
        body = x['body']
        conjs = body['and'] if 'and' in body else [body]
        extra = []

        def g(n):
          if isinstance(n, dict) and 'call' in n and n['call'].startswith(('F', 'Threshold')):
            counter[0] += 1
            v = 'cv%d' % counter[0]
            extra.append({'atom': n['call'], 'args': list(n['args']) + [['logica_value', {'var': v}]]})
            return {'var': v}
          return n
        e2 = rewrite_node(x['e'], g)
        new_conjs = rewrite_scope(conjs) + extra
        return dict(x, e=e2, body={'and': new_conjs} if len(new_conjs) > 1 else new_conjs[0])
      if 'not' in x:
        q = x['not']
        conjs = q['and'] if 'and' in q else [q]
        nc = rewrite_scope(conjs)
        return {'not': {'and': nc} if len(nc) > 1 else nc[0]}
      if 'or' in x:
        return x   # calls inside disjunctions are left as they are
      d = {k: rewrite_node(v, f) for k, v in x.items() if k != '$model'}
      return f(d)
    if isinstance(x, list):
      return [rewrite_node(v, f) for v in x]
    return x

  new_rules = []
  for r in p.rules:
    body = r.get('body')
    head_extra = []

    def hf(n):
      if isinstance(n, dict) and 'call' in n and n['call'].startswith(('F', 'Threshold')):
        counter[0] += 1
        v = 'cv%d' % counter[0]
        head_extra.append({'atom': n['call'], 'args': list(n['args']) + [['logica_value', {'var': v}]]})
        return {'var': v}
      return n
    args = rewrite_node(r['args'], hf)
    conjs = [] if body is None else (body['and'] if 'and' in body else [body])
    nc = rewrite_scope(conjs) + head_extra
    nb = None if not nc else ({'and': nc} if len(nc) > 1 else nc[0])
    new_rules.append(dict(r, args=args, body=nb))
  p.rules = new_rules
  return p


def in_to_alternatives(prog):
  p = copy.deepcopy(prog)
  for r in p.rules:
    body = r.get('body')
    if body is None:
      continue
    conjs = body['and'] if 'and' in body else [body]
    for i, c in enumerate(conjs):
      if 'in' in c and 'var' in c['in'][0] and 'lit' in c['in'][1] and isinstance(c['in'][1]['lit'], list) and c['in'][1]['lit']:
        conjs[i] = {'or': [{'eq': [c['in'][0], {'lit': v}]} for v in c['in'][1]['lit']]}
    r['body'] = {'and': conjs} if len(conjs) > 1 else conjs[0]
  return p


def or_to_rules(prog):
  """one rule with a top-level `|` = several rules"""
  p = copy.deepcopy(prog)
  out = []
  for r in p.rules:
    body = r.get('body')
    if body is None or r.get('distinct') or any(isinstance(x, dict) and 'aggop' in x for _, x in r['args']):
      out.append(r)
      continue
    conjs = body['and'] if 'and' in body else [body]
    idx = [i for i, c in enumerate(conjs) if 'or' in c]
    if not idx:
      out.append(r)
      continue
    i = idx[0]
    for alt in conjs[i]['or']:
      nc = conjs[:i] + [alt] + conjs[i + 1:]
      out.append(dict(r, body={'and': nc} if len(nc) > 1 else nc[0]))
  p.rules = out
  return p


def fields_as_vars(prog):
  """rename variables bound to a named column to the column name where that is unambiguous, so that the
  `a:` shorthand applies"""
  p = copy.deepcopy(prog)
  new_rules = []
  for r in p.rules:
    vs = M.rule_vars(r)
    cand = {}

    def f(n):
      if 'args' in n and isinstance(n['args'], list):
        for a in n['args']:
          if isinstance(a, list) and len(a) == 2 and isinstance(a[1], dict) and 'var' in a[1] and a[0] in G.NAMED_COLS:
            cand.setdefault(a[1]['var'], a[0])
      return n
    M.walk_replace(r, f)
    m = {}
    used = set(vs)
    for v, fld in cand.items():
      if fld not in used and fld not in m.values():
        m[v] = fld

    def g(n, m=m):
      if 'var' in n and n['var'] in m:
        return dict(n, var=m[n['var']])
      return n
    new_rules.append(M.walk_replace(r, g))
  p.rules = new_rules
  return p


def run_corpus(ck):
  for c in ck.corpus():
    a = semcheck.job_real((c['program'], [c['pred']]))[c['pred']]
    b = semcheck.job_real((c['other_form'], [c['pred']]))[c['pred']]
    ck.case(['corpus', c['_file']], True, ['corpus'])
    if a['kind'] == 'ok' and (b['kind'] != 'ok' or M.bag(a) != M.bag(b)):
      ck.violation(c['key'], 'corpus %s: other form gives %s (%s)' % (c['_file'], b['kind'], b.get('message', '')[:150]),
                   {'program': c['program'], 'other_form': c['other_form']})


def run(ck):
  run_corpus(ck)
  n = ck.budget(13, 500)
  made = semcheck.make_programs(ck, n, G.Gen.ALL)
  made += semcheck.make_programs(ck, ck.budget(14, 400), None, {}, builder=templates.build)
  # the shapes in which the sugars are most easily broken, several instances of each
  made += semcheck.make_programs(ck, ck.budget(20, 200), None,
                                 {'templates': ['t_nested_disjunction', 't_multivalued_calls', 't_division', 't_implication', 't_no_table_rule']},
                                 builder=templates.build)
  jobs, meta = [], []
  P = G.Printer
  for pr, model in made:
    fv = fields_as_vars(pr)
    variants = [
        ('positional=colN', pr.text(P(explicit_cols=1)), pr.text()),
        ('a:=a:a', fv.text(P(field_shorthand=1)), fv.text()),
        ('F(x)=v', pr.text(P(explicit_value=1)), pr.text()),
        ('call=conjunct', calls_to_conjuncts(pr).text(), pr.text()),
        ('===', pr.text(P(single_eq=1)), pr.text()),
        ('~P=Max-is-null', pr.text(P(neg_as_agg=1)), pr.text()),
        ('A=>B', pr.text(P(implication=1)), pr.text()),
        ('x Op= (e :- b)', pr.text(P(agg_form='opeq')), pr.text()),
        ('combine Op=', pr.text(P(agg_form='combine')), pr.text()),
        ('in=alternatives', in_to_alternatives(pr).text(), pr.text()),
        ('rules=|', or_to_rules(pr).text(), pr.text()),
    ]
    preds = [p.name for p in pr.preds if p.kind != 'facts' and p.name not in pr.tie_preds]
    # group by the text the long form is compared with
    for base_text in sorted({v[2] for v in variants}):
      vs = [(nm, t, {}) for nm, t, b in variants if b == base_text and t != base_text]
      if vs:
        jobs.append((base_text, vs, preds))
        meta.append(pr)
  for pr, job, (base, outs) in zip(meta, jobs, core.pmap(M.job_variant, jobs)):
    for (vname, vtext, _), (_, res) in zip(job[1], outs):
      nonempty = any(base[p]['kind'] == 'ok' and base[p]['rows'] for p in base)
      ck.case([job[0], vname], nonempty, ['sugar:' + vname])
      for p in pr.preds:
        if p.name not in base or base[p.name]['kind'] != 'ok':
          continue
        if res[p.name]['kind'] == 'too_big':
          ck.features['capacity-skipped'] += 1
          continue
        b0, b1 = M.norm_bag(base[p.name], p), M.norm_bag(res[p.name], p)
        rp = {'program': job[0], 'other_form': vtext, 'pred': p.name, 'equivalence': vname}
        if b1 is None and vname == 'positional=colN' and 'does not have an argument' in res[p.name].get('message', ''):
          ck.violation('positional-vs-colN-on-injected-predicate',
                       'predicate %s: an injected predicate defined with positional arguments cannot be called with col0:, col1: (%s)' % (
                           p.name, res[p.name].get('message', '')[:160]), rp)
        elif b1 is None:
          ck.violation('c11:%s:outcome:%s' % (vname, res[p.name]['kind']),
                       'equivalence %s: the other form of predicate %s does not evaluate (%s: %s)' % (
                           vname, p.name, res[p.name]['kind'], res[p.name].get('message', '')[:200]), rp)
        elif b0 != b1 or base[p.name]['header'] != res[p.name]['header']:
          ck.violation('c11:%s:rows' % vname, 'equivalence %s: predicate %s differs: %s... vs %s...' % (vname, p.name, b0[:3], b1[:3]), rp)


def replay(ck, rep):
  print(core.canon(rep))
