"""C03 — recursion is the bounded iteration, and the least fixpoint once it converges.

(T) lean/LogicaModel/Props/C03.lean (bounded iteration within the least fixed point; converged = lfp)
(K/S) recursive programs over random small graphs: rows of the recursive predicates on SQLite (single
      statement for depth <= 20, concertina_lib.ExecuteLogicaProgram for iterative plans) versus the
      reference evaluator's simultaneous iteration `Sem.iterate` of depth+1 rounds; for covers cut by one
      predicate (vertical unfolding) the property's bounds: contains everything derivable in depth+1
      simultaneous rounds, nothing outside the least fixpoint, equal to it when it is reached.
"""
import json

import core
import gen_program as G
import realcode as R
import semcheck
from gen_program import V, L, OP, Pred, Program
from templates import atom, AND, agg, fact_pred, derived, rule

RULE = ('recursion shapes: counter, transitive closure as multiset and as set, Min= shortest paths, 2-cycles with '
        'and without a cutting member, 3-cycles, mutual recursion with a self-loop, multi-body aggregation in a '
        'cycle; random edge relations over <=5 nodes (chains, cycles, diamonds); depths default(8), 0, 1, 2, 5, 8, '
        '12, 20, 21, 22, 25, 30 with @Recursive on minimal and non-minimal members; non-trivial = result of the '
        'recursive predicate differs from its depth-0 value; distinct by program text')
ASSUMPTIONS = ('diamond mode (DuckDB only) is not executable offline and not claimed',
               'iterative plans are executed through concertina_lib with a real SQLite connection')


def edges(rng, n, shape):
  if shape == 'chain':
    es = [(i, i + 1) for i in range(n - 1)]
  elif shape == 'cycle':
    es = [(i, (i + 1) % n) for i in range(n)]
  elif shape == 'diamond':
    es = [(0, 1), (0, 2), (1, 3), (2, 3)] + ([(3, 4)] if n > 4 else [])
  else:
    es = list({(rng.randrange(n), rng.randrange(n)) for _ in range(rng.randint(n, 2 * n))})
  if rng.random() < 0.3 and es:
    es.append(rng.choice(es))    # duplicate edge: multiplicities
  return es


def edge_pred(prog, name, es):
  p = Pred(name, ['col0', 'col1'], ['int', 'int'], 'facts')
  for a, b in es:
    prog.rules.append({'head': name, 'args': [['col0', L(a)], ['col1', L(b)]], 'distinct': False, 'body': None})
  prog.preds.append(p)
  return p


def annotate(prog, pred, depth):
  if depth is not None:
    prog.annotations.append('@Recursive(%s, %d);' % (pred, depth))


def gen_case(rng):
  prog = Program()
  shape = rng.choice(['counter', 'tc-bag', 'tc-set', 'shortest', 'two-cycle', 'two-cycle', 'three-cycle',
                      'self-loop-mutual', 'multibody-cycle', 'mutual-counter', 'mutual-counter-flat', 'ring-counter',
                      'ring-counter'])
  depth = rng.choice([None, None, 0, 1, 2, 5, 8, 12, 20, 21, 22, 25, 30])
  if shape in ('tc-bag',) and depth is not None and depth > 8:
    depth = rng.choice([None, 2, 5])     # multiplicities explode with depth
  if shape not in ('counter', 'tc-set', 'two-cycle', 'three-cycle', 'mutual-counter', 'ring-counter') and depth in (12, 20):
    depth = rng.choice([None, 5, 21, 22])    # flat unfolding in one statement grows too fast beyond ~10 levels
  d = 8 if depth is None else depth
  n = rng.randint(3, 5)
  gshape = rng.choice(['chain', 'cycle', 'diamond', 'random'])
  if shape == 'tc-bag':
    gshape = rng.choice(['chain', 'diamond'])   # acyclic: multiplicities stay small
  es = edges(rng, n, gshape)
  info = {'shape': shape, 'depth': depth, 'graph': gshape, 'exact': True}
  x, y, z = V('x'), V('y'), V('z')
  if shape == 'counter':
    b = rng.choice([3, 7, 12, 40])
    derived(prog, 'N', ['col0'], ['int'], [rule('N', [['col0', L(0)]], None),
                                          rule('N', [['col0', OP('+', V('n'), L(1))]], AND(atom('N', V('n')), {'test': OP('<', V('n'), L(b))}))])
    annotate(prog, 'N', depth)
    rec = [['N']]
    query = ['N']
  elif shape in ('tc-bag', 'tc-set'):
    edge_pred(prog, 'E', es)
    dist = shape == 'tc-set'
    derived(prog, 'TC', ['col0', 'col1'], ['int', 'int'],
            [rule('TC', [['col0', x], ['col1', y]], atom('E', x, y), dist),
             rule('TC', [['col0', x], ['col1', z]], AND(atom('E', x, y), atom('TC', y, z)), dist)], 'distinct' if dist else 'concrete')
    annotate(prog, 'TC', depth)
    rec = [['TC']]
    query = ['TC']
  elif shape == 'shortest':
    edge_pred(prog, 'E', es)
    derived(prog, 'D', ['col0', 'col1', 'logica_value'], ['int', 'int', 'int'],
            [rule('D', [['col0', x], ['col1', y], ['logica_value', {'aggop': 'Min', 'e': L(1)}]], atom('E', x, y), True),
             rule('D', [['col0', x], ['col1', z], ['logica_value', {'aggop': 'Min', 'e': OP('+', V('d1'), V('d2'))}]],
                  AND({'atom': 'D', 'args': [['col0', x], ['col1', y], ['logica_value', V('d1')]]},
                      {'atom': 'D', 'args': [['col0', y], ['col1', z], ['logica_value', V('d2')]]}), True)], 'distinct')
    annotate(prog, 'D', depth)
    rec = [['D']]
    query = ['D']
  else:
    edge_pred(prog, 'E', es)
    start = Pred('Start', ['col0'], ['int'], 'facts')
    prog.rules.append({'head': 'Start', 'args': [['col0', L(0)]], 'distinct': False, 'body': None})
    prog.preds.append(start)
    if shape == 'two-cycle':
      names = rng.choice([['Ping', 'Pong'], ['Pong', 'Ping'], ['A', 'B']])
      a, b = names
      derived(prog, a, ['col0'], ['int'], [rule(a, [['col0', x]], atom('Start', x), True),
                                          rule(a, [['col0', x]], AND(atom(b, y), atom('E', y, x)), True)], 'distinct')
      derived(prog, b, ['col0'], ['int'], [rule(b, [['col0', x]], AND(atom(a, y), atom('E', y, x)), True)], 'distinct')
      cover = [a, b]
    elif shape == 'three-cycle':
      a, b, c = rng.choice([['A', 'B', 'C'], ['C', 'A', 'B'], ['Zed', 'Mid', 'Alf']])
      derived(prog, a, ['col0'], ['int'], [rule(a, [['col0', x]], atom('Start', x), True),
                                          rule(a, [['col0', x]], AND(atom(c, y), atom('E', y, x)), True)], 'distinct')
      derived(prog, b, ['col0'], ['int'], [rule(b, [['col0', x]], atom(a, x), True)], 'distinct')
      derived(prog, c, ['col0'], ['int'], [rule(c, [['col0', x]], AND(atom(b, y), atom('E', y, x)), True)], 'distinct')
      cover = [a, b, c]
    elif shape == 'self-loop-mutual':
      a, b = rng.choice([['Ping', 'Pong'], ['Pong', 'Ping']])
      derived(prog, a, ['col0'], ['int'], [rule(a, [['col0', x]], atom('Start', x), True),
                                          rule(a, [['col0', x]], AND(atom(b, y), atom('E', y, x)), True),
                                          rule(a, [['col0', x]], AND(atom(a, y), atom('E', y, x), {'test': OP('>', x, L(1))}), True)], 'distinct')
      derived(prog, b, ['col0'], ['int'], [rule(b, [['col0', x]], AND(atom(a, y), atom('E', y, x)), True),
                                          rule(b, [['col0', x]], AND(atom(b, y), atom('E', y, x), {'test': OP('<', x, L(2))}), True)], 'distinct')
      cover = [a, b]
    elif shape in ('mutual-counter', 'mutual-counter-flat'):
      a, b = rng.choice([['Ping', 'Pong'], ['Pong', 'Ping']])
      bound = rng.choice([15, 40, 100])
      nv = V('n')
      ra = [rule(a, [['col0', L(0)]], None, True),
            rule(a, [['col0', OP('+', nv, L(1))]], AND(atom(b, nv), {'test': OP('<', nv, L(bound))}), True)]
      rb = [rule(b, [['col0', nv]], atom(a, nv), True)]
      if shape == 'mutual-counter-flat':
        ra.append(rule(a, [['col0', OP('+', nv, L(2))]], AND(atom(a, nv), {'test': OP('<', nv, L(bound))}), True))
        rb.append(rule(b, [['col0', OP('+', nv, L(3))]], AND(atom(b, nv), {'test': OP('<', nv, L(bound))}), True))
        if depth in (12, 20):
          depth = rng.choice([None, 3, 5, 21, 25])
          d = 8 if depth is None else depth
      derived(prog, a, ['col0'], ['int'], ra, 'distinct')
      derived(prog, b, ['col0'], ['int'], rb, 'distinct')
      cover = [a, b]
    elif shape == 'ring-counter':
      # a ring of 4-5 members with the base case in one member only: a member gets its first facts after several
      # rounds, and the values reached depend on the exact number of applications
      k = rng.choice([4, 5])
      names = rng.choice([['A', 'B', 'C', 'D', 'G'], ['Mm', 'Kk', 'Zz', 'Bb', 'Qq']])[:k]
      bound = rng.choice([40, 100])
      nv = V('n')
      derived(prog, names[0], ['col0'], ['int'],
              [rule(names[0], [['col0', L(0)]], None, True),
               rule(names[0], [['col0', OP('+', nv, L(1))]], AND(atom(names[-1], nv), {'test': OP('<', nv, L(bound))}), True)], 'distinct')
      for i in range(1, k):
        derived(prog, names[i], ['col0'], ['int'], [rule(names[i], [['col0', nv]], atom(names[i - 1], nv), True)], 'distinct')
      cover = list(names)
      if depth in (12, 20):
        depth = rng.choice([5, 8, 21, 25, 26, 29, 31])
        d = depth
    else:   # multibody-cycle: several aggregating bodies inside a 2-cycle
      a, b = 'A', 'B'
      derived(prog, a, ['col0', 'logica_value'], ['int', 'int'],
              [rule(a, [['col0', x], ['logica_value', {'aggop': 'Min', 'e': L(0)}]], atom('Start', x), True),
               rule(a, [['col0', x], ['logica_value', {'aggop': 'Min', 'e': OP('+', V('v'), L(1))}]],
                    AND({'atom': b, 'args': [['col0', y], ['logica_value', V('v')]]}, atom('E', y, x)), True)], 'distinct')
      derived(prog, b, ['col0', 'logica_value'], ['int', 'int'],
              [rule(b, [['col0', x], ['logica_value', {'aggop': 'Min', 'e': OP('+', V('v'), L(1))}]],
                    AND({'atom': a, 'args': [['col0', y], ['logica_value', V('v')]]}, atom('E', y, x)), True),
               rule(b, [['col0', x], ['logica_value', {'aggop': 'Min', 'e': OP('+', V('v'), L(2))}]],
                    AND({'atom': a, 'args': [['col0', x], ['logica_value', V('v')]]}, atom('Start', x)), True)], 'distinct')
      cover = [a, b]
    ann = rng.choice(cover)
    annotate(prog, ann, depth)
    rec = [cover]
    query = list(cover)
    # which member unfolds the cover; is it a cut?
    chosen = ann if depth is not None else min(cover)
    info['annotated'] = ann if depth is not None else None
    deps = {h: set() for h in cover}
    for r in prog.rules:
      if r['head'] in deps:
        deps[r['head']] |= semcheck.body_preds(r.get('body'), set()) & set(cover)
    info['exact'] = (d > 20) or not is_cut(chosen, deps)
    info['monotone'] = shape != 'multibody-cycle'
  prog.custom_strata = [{'pred': p.name} for p in prog.preds if p.name not in {q for c in rec for q in c}]
  prog.rec = rec
  prog.depth = d
  prog.query = query
  prog.info = info
  return prog


def is_cut(p, deps):
  """removing p leaves the cover acyclic"""
  nodes = [q for q in deps if q != p]
  color = {}

  def dfs(u):
    color[u] = 1
    for v in deps[u]:
      if v == p or v not in deps:
        continue
      if color.get(v) == 1:
        return False
      if v not in color and not dfs(v):
        return False
    color[u] = 2
    return True
  return all(dfs(u) for u in nodes if u not in color)


def model_req(prog, rounds):
  a = prog.ast()
  strata = list(prog.custom_strata) + [{'rec': c, 'depth': max(0, rounds - 1)} for c in prog.rec]
  return {'op': 'denote', 'rules': a['rules'], 'strata': strata, 'query': prog.query}


def job(prog):
  text = prog.text()
  out = {}
  try:
    if prog.depth > 20:
      import props.c14 as c14
      tables, _ = c14.run_concertina(text, prog.query)
      for p in prog.query:
        out[p] = {'kind': 'ok', 'header': tables[p][0], 'rows': [list(r) for r in tables[p][1]]}
    else:
      res = semcheck.job_real((text, prog.query))
      for p in prog.query:
        out[p] = res[p]
  except Exception as e:  # noqa: BLE001
    for p in prog.query:
      out[p] = {'kind': R.classify(e), 'message': '%s: %s' % (type(e).__name__, str(e)[:300])}
  return out


def rowset(rows):
  return sorted(json.dumps(r, sort_keys=True) for r in rows)


def run(ck):
  drv = core.Driver()
  progs = []
  seen = set()
  n = ck.budget(50, 800)
  while len(progs) < n:
    p = gen_case(ck.rng)
    t = p.text()
    if t in seen:
      continue
    seen.add(t)
    progs.append(p)
  reqs = []
  for p in progs:
    d = p.depth
    c = max(len(x) for x in p.rec)
    reqs.append(model_req(p, d + 1))                 # exactly depth+1 simultaneous applications
    reqs.append(model_req(p, (d + 2) * c + 2 if (p.info['shape'].startswith('mutual-counter') or p.info['shape'] == 'ring-counter') else min((d + 1) * c + 2, 40)))   # any sequential unfolding of depth+1 levels (<=5 nodes: converged by 40)
    reqs.append(model_req(p, 1))                     # depth 0 (for the non-triviality rule)
  models = drv.ask_parallel(reqs)
  reals = core.pmap(job, progs)
  for i, (p, real) in enumerate(zip(progs, reals)):
    exact, upper, base = models[3 * i], models[3 * i + 1], models[3 * i + 2]
    text = p.text()
    info = p.info
    feats = ['shape:' + info['shape'], 'depth:%s' % ('default' if info['depth'] is None else ('>20' if info['depth'] > 20 else '<=20')),
             'exact' if info['exact'] else 'bounds', 'graph:' + info['graph']]
    if 'error' in exact or 'error' in upper:
      ck.notes.append('reference evaluator error: %s' % (exact.get('error') or upper.get('error')))
      ck.features['model-error'] += 1
      continue
    nontriv = any(rowset([[v for _, v in r] for r in exact['result'][q]]) != rowset([[v for _, v in r] for r in base['result'][q]]) for q in p.query)
    ck.case(text, nontriv, feats)
    ck.corr('iterate-vs-sqlite', len(p.query))
    for q in p.query:
      r = real[q]
      rp = {'program': text, 'pred': q, 'depth': p.depth, 'info': info}
      exp = rowset([[v for _, v in row] for row in exact['result'][q]])
      if r['kind'] == 'rule_compile' and p.depth == 0 and 'too deep' in r.get('message', ''):
        ck.violation('recursion-depth-0-rejected', '@Recursive(%s, 0) is rejected ("Recursion in this rule is too deep")' % q, rp)
        continue
      if r['kind'] == 'too_big':
        ck.features['capacity-skipped'] += 1
        continue
      if r['kind'] != 'ok':
        ck.violation('c03:%s:outcome:%s' % (info['shape'], r['kind']),
                     'recursive predicate %s (depth %d): %s %s' % (q, p.depth, r['kind'], r.get('message', '')[:200]), rp)
        continue
      got = rowset([list(x) for x in r['rows']])
      if info['exact']:
        if got != exp:
          ck.violation('c03:%s:not-depth+1-applications:%s' % (info['shape'], 'iterative' if p.depth > 20 else 'unfolded'),
                       'predicate %s with depth %d: SQLite returns %d rows %s..., %d simultaneous applications give %d rows %s...' % (
                           q, p.depth, len(got), got[:4], p.depth + 1, len(exp), exp[:4]), rp)
      else:
        up = rowset([[v for _, v in row] for row in upper['result'][q]])
        sg, se, su = set(got), set(exp), set(up)
        if info.get('monotone', True):
          if not se <= sg:
            ck.violation('c03:%s:misses-derivable-within-bound' % info['shape'],
                         'predicate %s with depth %d lacks rows derivable within depth+1 simultaneous applications: %s' % (
                             q, p.depth, sorted(se - sg)[:5]), rp)
          if not sg <= su:
            ck.violation('c03:%s:outside-least-fixpoint' % info['shape'],
                         'predicate %s with depth %d has rows outside the (bounded) least fixpoint: %s' % (q, p.depth, sorted(sg - su)[:5]), rp)
          if se == su and got != exp:
            ck.violation('c03:%s:converged-but-different' % info['shape'],
                         'the iteration converged within depth %d but predicate %s differs from the fixpoint' % (p.depth, q), rp)


def replay(ck, rep):
  print(core.canon(rep))
