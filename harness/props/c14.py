"""C14 — execution runs each statement after its inputs, the prescribed number of times.

(T) lean/LogicaModel/Props/C14.lean over LogicaModel/Concertina.lean
(K) the real concertina_lib.Concertina (silent display, recording engine, real stop-signal files)
    vs the Lean model: same trace / same error, on generated configs (DAGs x iteration groups x stop
    schedules) and on the configs of compiled plans
(S) a trace checker applied to the real trace (dependencies, counts, rounds, termination) and equality of
    final_result across subsets of requested predicates (compiled programs with @Ground / deep recursion).
"""
import itertools
import os
import shutil

import core
import realcode as R

core.repo_on_path()
with R.quiet():       # the module prints a notice when IPython is absent
  from common import concertina_lib  # noqa: E402

RULE = ('configs: 1-5 actions, requirement DAGs along a random order (5% arbitrary graphs), 0-2 disjoint '
        'iteration groups (halved or diamond, declared order random, 1-3 repetitions), stop signals raised at '
        'step 0-8 or never, 8% malformed groups; plus compiled plans of programs with @Ground chains and '
        '@Recursive depths 21-30 executed on SQLite for every subset of requested predicates; non-trivial = at '
        'least one requirement edge or iteration; distinct by canonical config')
ASSUMPTIONS = ('the stop signal is modelled as a monotone external oracle (file becomes non-empty at a given step)',
               'display code of Concertina is not modelled (silent mode)')

STEP_BUDGET = 400


class TooManySteps(Exception):
  pass


class RecEngine:
  def __init__(self, raise_at, files):
    self.trace = []
    self.raise_at = raise_at
    self.files = files

  def Run(self, action):
    t = len(self.trace)
    if t > STEP_BUDGET:
      raise TooManySteps()
    self.trace.append(action.get('predicate'))
    for sig, when in self.raise_at.items():
      if when == t:
        with open(self.files[sig], 'w') as f:
          f.write('stop')


def run_real(cfg, tmpdir):
  """cfg: {'actions': [...], 'iterations': [...], 'raise': [[sig, t], ...]} -> {'trace','stopped'} | {'error'}"""
  files = {}
  for it in cfg['iterations']:
    s = it.get('stop_signal')
    if s:
      files[s] = os.path.join(tmpdir, s)
      if os.path.exists(files[s]):
        os.remove(files[s])
  config = [{'name': a['name'], 'type': 'intermediate', 'requires': list(a['requires']),
             'action': {'predicate': a['name'], 'launcher': 'none'}} for a in cfg['actions']]
  iterations = {}
  for it in cfg['iterations']:
    d = {'predicates': list(it['predicates']), 'repetitions': it['repetitions'],
         'stop_signal': files.get(it.get('stop_signal'), '')}
    if it.get('diamond'):
      d['mode'] = 'diamond'
    iterations[it['name']] = d
  eng = RecEngine(dict(map(tuple, cfg.get('raise', []))), files)
  try:
    c = concertina_lib.Concertina(config, eng, display_mode='silent', iterations=iterations)
    c.Run()
  except AssertionError as e:
    msg = str(e)
    if msg.startswith('Could not schedule'):
      return {'error': 'could-not-schedule'}
    return {'error': 'bad-iteration' if 'predicates' in repr(e) or not msg or msg.startswith('[') else 'assert:' + msg[:60]}
  except TooManySteps:
    return {'error': 'does-not-terminate'}
  except Exception as e:  # noqa: BLE001
    return {'error': 'exception:%s' % type(e).__name__}
  return {'trace': eng.trace, 'stopped': sorted(c.action_stopped)}


def gen_config(rng, max_actions):
  n = rng.randint(1, max_actions)
  names = ['A', 'B', 'C', 'D', 'E'][:n]
  rng.shuffle(names)
  order = list(names)
  actions = []
  arbitrary = rng.random() < 0.05
  for i, a in enumerate(order):
    if arbitrary:
      req = [b for b in names if b != a and rng.random() < 0.3]
      if rng.random() < 0.2:
        req.append('Zmissing')
    else:
      req = [b for b in order[:i] if rng.random() < 0.4]
    actions.append({'name': a, 'requires': req})
  rng.shuffle(actions)
  iterations, raises = [], []
  free = list(names)
  rng.shuffle(free)
  for gi in range(rng.choice([0, 1, 1, 1, 2])):
    if not free:
      break
    diamond = rng.random() < 0.3
    malformed = rng.random() < 0.08
    if diamond:
      k = rng.randint(1, min(3, len(free)))
    else:
      k = 2 if len(free) < 4 or rng.random() < 0.7 else 4
      if malformed:
        k = rng.choice([1, 3])
    if k > len(free):
      continue
    members, free = free[:k], free[k:]
    if malformed and rng.random() < 0.5:
      members = members + ['Znotaction'] if diamond else members[:-1] + ['Znotaction']
    it = {'name': 'it%d' % gi, 'predicates': members, 'repetitions': rng.randint(1, 3), 'diamond': diamond}
    if rng.random() < 0.45:
      it['stop_signal'] = 'sig%d' % gi
      if rng.random() < 0.8:
        raises.append(['sig%d' % gi, rng.randint(0, 8)])
    iterations.append(it)
  return {'actions': actions, 'iterations': iterations, 'raise': raises}


def wf_plan(cfg):
  """Decidable well-formedness of a plan (hypothesis of sort_respects_deps)."""
  names = {a['name'] for a in cfg['actions']}
  req = {a['name']: set(a['requires']) for a in cfg['actions']}
  seen = set()
  for it in cfg['iterations']:
    ps = it['predicates']
    if any(p not in names for p in ps) or len(set(ps)) != len(ps) or seen & set(ps):
      return False
    seen |= set(ps)
    if not it.get('diamond') and len(ps) % 2:
      return False
    mid = len(ps) if it.get('diamond') else len(ps) // 2
    upper = set(ps[:mid])
    ext_all = set().union(*[req[p] for p in ps]) - set(ps)
    ext_upper = set().union(*[req[p] for p in ps[:mid]]) - upper if ps[:mid] else set()
    # what the first member waits for after propagation: requirements of its half outside the half
    if not ext_all <= ext_upper | req[ps[0]]:
      return False
  return all(r in names for a in cfg['actions'] for r in a['requires'])


def check_trace(ck, cfg, res, where):
  """The property on a real trace. Returns list of (key, what)."""
  out = []
  if 'error' in res:
    if res['error'] == 'does-not-terminate':
      out.append(('does-not-terminate', 'run exceeded %d steps' % STEP_BUDGET))
    return out
  trace = res['trace']
  names = [a['name'] for a in cfg['actions']]
  req = {a['name']: set(a['requires']) for a in cfg['actions']}
  it_of = {}
  for it in cfg['iterations']:
    for p in it['predicates']:
      if p in names:
        it_of[p] = it
  raised = {s for s, _ in cfg.get('raise', [])}
  # counts
  for a in names:
    n = trace.count(a)
    if a not in it_of:
      if n != 1:
        out.append(('count-noniterated', 'non-iterated action %s ran %d times' % (a, n)))
    else:
      it = it_of[a]
      reps = max(1, it['repetitions'])
      if it.get('stop_signal') and it['stop_signal'] in raised:
        if not (1 <= n <= reps):
          out.append(('count-iterated-stop', 'iterated action %s ran %d times, allowed 1..%d' % (a, n, reps)))
      elif n != reps:
        out.append(('count-iterated', 'iterated action %s ran %d times, declared %d' % (a, n, reps)))
  # dependencies (requirements outside the action's own iteration)
  first = {}
  for i, a in enumerate(trace):
    first.setdefault(a, i)
  for i, a in enumerate(trace):
    for r in req.get(a, ()):
      if a in it_of and r in it_of[a]['predicates']:
        continue
      if r not in first or first[r] > i:
        kind = 'wf' if wf_plan(cfg) else 'nonwf'
        half = ''
        if a in it_of and not it_of[a].get('diamond'):
          ps = it_of[a]['predicates']
          half = ':lower-half' if ps.index(a) >= len(ps) // 2 else ':upper-half'
        out.append(('dependency-%s%s' % (kind, half), 'action %s ran at step %d before its requirement %s' % (a, i, r)))
        break
  # rounds: members of an iteration contiguous, in declared order, full rounds then a prefix
  for it in cfg['iterations']:
    ps = [p for p in it['predicates'] if p in names]
    if not ps or any(p not in trace for p in ps):
      continue
    idx = [i for i, a in enumerate(trace) if a in ps]
    seg = trace[idx[0]:idx[-1] + 1]
    if any(a not in ps for a in seg):
      out.append(('iteration-interleaved', 'iteration %s is interleaved with other actions: %s' % (it['name'], seg)))
      continue
    # split into rounds
    pos = 0
    rounds = []
    cur = []
    for a in seg:
      j = ps.index(a)
      if cur and j <= ps.index(cur[-1]):
        rounds.append(cur)
        cur = []
      cur.append(a)
    rounds.append(cur)
    stopped_it = it.get('stop_signal') and it['stop_signal'] in raised
    for ri, rd in enumerate(rounds):
      full = rd == ps
      if not full and not stopped_it:
        out.append(('iteration-round-order', 'iteration %s round %d is %s, declared %s' % (it['name'], ri, rd, ps)))
        break
      if stopped_it and rd != [p for p in ps if p in rd]:
        out.append(('iteration-round-order', 'iteration %s round %d is out of declared order: %s' % (it['name'], ri, rd)))
        break
  return out


def run(ck):
  drv = core.Driver()
  tmp = core.scratch_dir()
  try:
    _run(ck, drv, tmp)
  finally:
    shutil.rmtree(tmp, ignore_errors=True)


def well_formed(cfg):
  names = {a['name'] for a in cfg['actions']}
  seen = set()
  for it in cfg['iterations']:
    ps = it['predicates']
    if any(p not in names for p in ps) or (not it.get('diamond') and len(ps) % 2) or seen & set(ps):
      return False
    seen |= set(ps)
  return all(r in names for a in cfg['actions'] for r in a['requires'])


def _run(ck, drv, tmp):
  cfgs = [c['config'] for c in ck.corpus()]
  maxa = 5 if ck.tier == 'thorough' else 4
  for _ in range(ck.budget(2500, 40000)):
    cfgs.append(gen_config(ck.rng, maxa))
  reqs, meta = [], []
  for cfg in cfgs:
    res = run_real(cfg, tmp)
    nontriv = any(a['requires'] for a in cfg['actions']) or bool(cfg['iterations'])
    ck.case(cfg, nontriv, ['actions:%d' % len(cfg['actions']), 'iterations:%d' % len(cfg['iterations']),
                           'result:' + (res.get('error') or 'ok'), 'wfplan:%s' % wf_plan(cfg)] +
            (['stop-raised'] if cfg.get('raise') else []))
    if well_formed(cfg):
      for key, what in check_trace(ck, cfg, res, 'abstract'):
        ck.violation(key, what + '  (real trace: %s)' % res.get('trace'), {'config': cfg, 'trace': res.get('trace')})
      if res.get('error', '').startswith(('exception', 'assert:')):
        ck.violation('internal-error:' + res['error'], 'well-formed plan raised %s' % res['error'], {'config': cfg})
    ck.traces_validated += 1
    reqs.append(dict(cfg, op='concertina'))
    meta.append((cfg, res))
  for (cfg, res), resp in zip(meta, drv.ask_many(reqs)):
    ck.corr('Concertina')
    if res.get('error', '').startswith('exception'):
      continue   # ill-formed input on which the code raises KeyError etc.: outside the model
    if 'stopped' in resp:
      resp['stopped'] = sorted(resp['stopped'])
    if resp != res:
      ck.disagreement('concertina_lib.Concertina vs Concertina.run', cfg, res, resp)

  # ---------------- compiled plans: subsets of requested predicates -------------------------
  progs = compiled_programs(ck)
  results = core.pmap(job_compiled, progs)
  reqs, meta = [], []
  for pr, res in zip(progs, results):
    ck.case(pr['program'], True, ['compiled:' + pr['kind']])
    if res.get('error'):
      ck.violation('compiled-plan-error:' + pr['kind'], 'executing %s failed: %s' % (pr['preds'], res['error'][:300]),
                   {'program': pr['program'], 'preds': pr['preds']})
      continue
    alone = res['alone']
    for subset, tables in res['subsets']:
      for p in subset:
        if tables.get(p) != alone[p]:
          ck.violation('several-differs-from-single:' + pr['kind'],
                       'asking for %s returns for %s %r but alone %r' % (subset, p, tables.get(p), alone[p]),
                       {'program': pr['program'], 'subset': subset, 'pred': p})
    for cfg, trace in res['plans']:
      r = {'trace': trace, 'stopped': []}
      for key, what in check_trace(ck, cfg, r, 'compiled'):
        ck.violation('compiled:' + key, what + ' (trace %s)' % trace, {'program': pr['program'], 'config': cfg, 'trace': trace})
      ck.traces_validated += 1
      if not wf_plan(cfg):
        ck.features['compiled-plan-not-wf'] += 1
      reqs.append(dict(cfg, op='concertina'))
      meta.append((pr, cfg, trace))
  for (pr, cfg, trace), resp in zip(meta, drv.ask_many(reqs)):
    ck.corr('Concertina-compiled')
    if resp.get('trace') != trace:
      ck.disagreement('Concertina on compiled plan vs model', {'program': pr['program'], 'config': cfg}, trace, resp)


# ---------------- compiled programs ----------------

def compiled_programs(ck):
  out = []
  rng = ck.rng
  for _ in range(ck.budget(10, 120)):
    kind = rng.choice(['ground-chain', 'ground-diamond', 'deep-recursion', 'deep-recursion-mutual', 'ground+recursion'])
    n = rng.randint(3, 6)
    facts = ' '.join('E(%d, %d);' % (i, i + 1) for i in range(n)) + ' E(%d, 0);' % rng.randint(1, n)
    if kind == 'ground-chain':
      body = ('@Ground(A);\n@Ground(B);\nA(x, y) :- E(x, y), x < %d;\nB(x) :- A(x, y) | A(y, x);\n'
              'C(x) :- B(x), x > 0;\nD(x) += 1 :- C(x);' % rng.randint(2, n + 1))
      preds = ['A', 'B', 'C', 'D']
    elif kind == 'ground-diamond':
      body = ('@Ground(A);\n@Ground(B1);\n@Ground(B2);\nA(x, y) :- E(x, y);\nB1(x) :- A(x, y);\nB2(y) :- A(x, y);\n'
              'C(x) :- B1(x), B2(x);\nD(x) :- B1(x) | B2(x);')
      preds = ['A', 'B1', 'B2', 'C', 'D']
    elif kind == 'deep-recursion':
      d = rng.randint(21, 30)
      body = ('@Recursive(N, %d);\nN(0);\nN(x + 1) :- N(x), x < %d;\nM(x) Max= x :- N(y), x == y;\nK() += 1 :- N(x);' % (d, rng.randint(5, 40)))
      preds = ['N', 'K']
    elif kind == 'deep-recursion-mutual':
      d = rng.randint(21, 28)
      body = ('@Recursive(P, %d);\nP(0);\nP(x + 1) :- Q(x), x < %d;\nQ(x) :- P(x);\nS() += 1 :- Q(x);' % (d, rng.randint(5, 40)))
      preds = ['P', 'Q', 'S']
    else:
      d = rng.randint(21, 26)
      body = ('@Ground(G);\nG(x, y) :- E(x, y);\n@Recursive(TC, %d);\nTC(x, y) distinct :- G(x, y);\n'
              'TC(x, z) distinct :- TC(x, y), G(y, z);\nR(x) distinct :- TC(0, x);' % d)
      preds = ['G', 'TC', 'R']
    out.append({'program': '@Engine("sqlite");\n%s\n%s\n' % (facts, body), 'preds': preds, 'kind': kind})
  return out


def job_compiled(pr):
  try:
    alone = {}
    plans = []
    for p in pr['preds']:
      tables, pl = run_concertina(pr['program'], [p])
      alone[p] = tables[p]
      plans += pl
    subsets = []
    for k in range(2, len(pr['preds']) + 1):
      for sub in itertools.combinations(pr['preds'], k):
        if k > 2 and k < len(pr['preds']):
          continue
        tables, pl = run_concertina(pr['program'], list(sub))
        subsets.append((list(sub), tables))
        plans += pl
    # reversed order of the full request
    tables, pl = run_concertina(pr['program'], list(reversed(pr['preds'])))
    subsets.append((list(reversed(pr['preds'])), tables))
    return {'alone': alone, 'subsets': subsets, 'plans': plans}
  except Exception as e:  # noqa: BLE001
    import traceback
    return {'error': '%s: %s\n%s' % (type(e).__name__, e, traceback.format_exc()[-600:])}


def run_concertina(text, preds):
  """RunMany of tools/run_in_terminal.py on SQLite, recording config and trace. -> ({pred: sorted rows}, [(cfg, trace)])"""
  captured = []
  orig_init = concertina_lib.Concertina.__init__

  class Proxy:
    def __init__(self, eng, tr):
      self.eng, self.tr = eng, tr

    def Run(self, action):
      if len(self.tr) > 5000:
        raise TooManySteps()
      self.tr.append(action.get('predicate'))
      return self.eng.Run(action)

  def patched(self, config, engine, *a, **k):
    tr = []
    its = k.get('iterations') or {}
    cfg = {'actions': [{'name': c['name'], 'requires': sorted(c['requires'])} for c in config],
           'iterations': [{'name': n, 'predicates': list(v['predicates']), 'repetitions': v['repetitions'],
                           'diamond': v.get('mode') == 'diamond'} for n, v in its.items()],
           'raise': []}
    captured.append((cfg, tr))
    orig_init(self, config, Proxy(engine, tr), *a, **k)

  with R.quiet():
    rules = R.parse.ParseFile(text)['rule']
    program = R.universe.LogicaProgram(rules)
    executions = []
    for p in preds:
      program.FormattedPredicateSql(p)
      executions.append(program.execution)
    con = R.sqlite3_logica.SqliteConnect()

    def runner(sql, engine, is_final):
      if is_final:
        cur = con.execute(sql)
        return [d[0] for d in cur.description], cur.fetchall()
      con.executescript(sql)
    concertina_lib.Concertina.__init__ = patched
    try:
      res = concertina_lib.ExecuteLogicaProgram(executions, runner, 'sqlite', display_mode='silent')
    finally:
      concertina_lib.Concertina.__init__ = orig_init
      con.close()
  tables = {p: (res[p][0], sorted(map(list, res[p][1]))) for p in preds}
  # stop-signal-free plans only (the model's oracle has no raise times here)
  return tables, captured


def replay(ck, rep):
  print(core.canon(rep))
