"""C08 — plan-selecting annotations never change results.

(T) lean/LogicaModel/Props/C08.lean
(S) the same generated program under several assignments of @NoInject / @With / @NoWith / @Ground to its
    derived predicates: every predicate returns the same multiset as without annotations (and as the
    reference denotation); programs calling injectible-only predicates are compared with the hand-inlined
    form through the reference evaluator. The SQL text must differ between plans (evidence that the plan
    really changed).
"""
import core
import gen_program as G
import metamorph as M
import semcheck
import templates

RULE = ('generated programs over the full feature mask + shape templates, each under 6 random assignments of '
        '{}, {NoInject}, {With}, {NoWith}, {NoInject,With}, {NoInject,NoWith}, {Ground} to its derived predicates '
        '(all-NoInject+NoWith and all-Ground always included); every predicate compared with the unannotated plan '
        'and with Sem.denote; non-trivial = some plan has different SQL text and a non-empty result; distinct by '
        '(program, assignment)')
ASSUMPTIONS = ('records holding lists across a table boundary lose the JSON subtype on SQLite (excluded from generation)',
               "SQLite capacity limits (64-table joins, parser stack depth) hit by a plan are skipped and counted, not judged")

CHOICES = [(), ('NoInject',), ('With',), ('NoWith',), ('NoInject', 'With'), ('NoInject', 'NoWith'), ('Ground',)]


def annotate(prog, assignment):
  lines = []
  for p, anns in assignment.items():
    for a in anns:
      lines.append('@%s(%s);' % (a, p))
  text = prog.text()
  head, rest = text.split('\n', 1)
  return head + '\n' + '\n'.join(lines) + '\n' + rest


def run(ck):
  n = ck.budget(18, 500)
  made = semcheck.make_programs(ck, n, G.Gen.ALL)
  made += semcheck.make_programs(ck, ck.budget(28, 400), None, {}, builder=templates.build)
  # the shapes on which plans differ most easily, several instances of each
  made += semcheck.make_programs(ck, ck.budget(15, 150), None,
                                 {'templates': ['t_injectible_self_application', 't_pure_distinct', 't_sibling_combines']},
                                 builder=templates.build)
  jobs, meta = [], []
  for pr, model in made:
    derived = [p.name for p in pr.preds if p.kind != 'facts']
    assigns = [{p: ('NoInject', 'NoWith') for p in derived}, {p: ('Ground',) for p in derived},
               {p: ('With',) for p in derived}]
    for _ in range(3):
      assigns.append({p: ck.rng.choice(CHOICES) for p in derived})
    variants = [('plan:' + ';'.join('%s=%s' % (p, '+'.join(a) or '-') for p, a in sorted(asg.items())), annotate(pr, asg), {})
                for asg in assigns]
    preds = [p.name for p in pr.preds if p.kind != 'facts' and p.name not in pr.tie_preds]
    jobs.append((pr.text(), variants, preds))
    meta.append((pr, model))
  for (pr, model), job, (base, outs) in zip(meta, jobs, core.pmap(M.job_variant, jobs)):
    text = pr.text()
    # the unannotated plan against the reference denotation (calls of injectible-only predicates are
    # hand-inlined in the model AST)
    semcheck.compare(ck, pr, text, [p for p in pr.preds if p.name in base], base, model,
                     lambda p, what: 'c08:unannotated:%s:%s' % (p.kind, what), ignore_empty_list=True)
    for (vname, vtext, _), (_, res) in zip(job[1], outs):
      differs = any(base[p]['kind'] == 'ok' and res[p]['kind'] == 'ok' and base[p]['sql'] != res[p]['sql'] for p in base)
      nonempty = any(base[p]['kind'] == 'ok' and base[p]['rows'] for p in base)
      ck.case([text, vname], differs and nonempty, ['sql-differs' if differs else 'sql-same'] +
              sorted({a for part in vname[5:].split(';') if '=' in part for a in part.split('=')[1].split('+')}))
      for p in pr.preds:
        if p.name not in base or base[p.name]['kind'] != 'ok':
          continue
        if res[p.name]['kind'] == 'too_big':
          ck.features['sqlite-capacity-limit-skipped'] += 1
          continue
        b0, b1 = M.norm_bag(base[p.name], p), M.norm_bag(res[p.name], p)
        kinds = sorted({a for part in vname[5:].split(';') if '=' in part for a in part.split('=')[1].split('+') if a != '-'})
        if b1 is None and ('at most 64 tables' in res[p.name].get('message', '') or 'parser stack overflow' in res[p.name].get('message', '')):
          ck.features['sqlite-capacity-limit-skipped'] += 1    # engine capacity limit (join width, nesting depth) of the plan
        elif b1 is None:
          ck.violation('c08:outcome:%s:%s' % (res[p.name]['kind'], '+'.join(kinds)),
                       'annotations %s: predicate %s no longer evaluates (%s: %s)' % (vname, p.name, res[p.name]['kind'], res[p.name].get('message', '')[:200]),
                       {'program': text, 'annotated_program': vtext, 'pred': p.name})
        elif b0 != b1 or base[p.name]['header'] != res[p.name]['header']:
          ck.violation('c08:rows:%s' % '+'.join(kinds),
                       'annotations %s change predicate %s: %s... -> %s...' % (vname, p.name, b0[:3], b1[:3]),
                       {'program': text, 'annotated_program': vtext, 'pred': p.name})


def replay(ck, rep):
  print(core.canon(rep))
