"""C05 — type checking: accepts well-typed, rejects clashes, matches run-time values.

(T) lean/LogicaModel/Props/C05.lean (order independence of constraint solving on the scalar lattice)
(K) random systems of scalar constraints (x == literal, x == y) in 3 orders: verdict and signature of the real
    engine vs the fixed point of TypeSolve.step
(S) generated typed programs with `@Engine("sqlite", type_checking: true)`:
    (i) accepted, and every predicate gets exactly the signature the generator intended;
    (ii) every single-point type corruption is rejected with TypeErrorCaughtException, whatever the order of
         rules and conjuncts (3 permutations each);
    (iii) the values SQLite returns inhabit the inferred column types.
"""
import copy
import json
import re

import core
import gen_program as G
import metamorph as M
import realcode as R
import semcheck
from gen_program import V, L, OP

RULE = ('generated programs over numbers, strings, booleans (comparisons), lists, records, aggregation, combines, '
        'functional and injectible predicates; 10 corruption operators (string in arithmetic, number unified with a '
        'string literal, head column type differing between rules, mixed list, record field clash, missing field '
        'of a closed record - also after a valid access -, predicate argument of the wrong type, clash inside the '
        'second combine, list element clash via signatures) x 3 orders of rules / conjuncts; random systems of scalar '
        'constraints x 3 orders; non-trivial = '
        'program with a derived predicate of >= 2 columns; distinct by program text')
ASSUMPTIONS = ('TypeCollector renderings for other engines are not part of the property',)


def render(t):
  if t == 'int':
    return 'Num'
  if t == 'str':
    return 'Str'
  if t == 'bool':
    return 'Bool'
  if isinstance(t, tuple) and t[0] == 'list':
    return '[%s]' % render(t[1])
  if isinstance(t, tuple) and t[0] == 'rec':
    return '{%s}' % ', '.join('%s: %s' % (f, render(ft)) for f, ft in sorted(t[1]))
  return '?'


def expected_signature(p):
  args = []
  val = None
  for c, t in zip(p.cols, p.types):
    if c == 'logica_value':
      val = render(t)
    elif c.startswith('col') and c[3:].isdigit():
      args.append(render(t))
    else:
      args.append('%s: %s' % (c, render(t)))
  s = '%s(%s)' % (p.name, ', '.join(args))
  if val is not None:
    s += ' = ' + val
  return s


TYPE_LINE = re.compile(r'^type ([A-Za-z_0-9]+)\((.*)\)( = (.*))?;$')


def typed(text):
  return text.replace('@Engine("sqlite");', '@Engine("sqlite", type_checking: true);')


def job_types(j):
  text, preds = j
  try:
    with R.quiet():
      rules = R.parse.ParseFile(text)['rule']
      prog = R.universe.LogicaProgram(rules)
      shown = prog.typing_engine.ShowPredicateTypes() if prog.typing_engine else ''
  except Exception as e:  # noqa: BLE001
    msg = re.sub(r'\x1b\[[0-9;]*m', '', R.diag_text(e))
    if len(msg) > 700:
      msg = msg[:250] + ' ... ' + msg[-400:]      # the finding of the engine is at the end of its report
    return {'kind': R.classify(e), 'msg': msg, 'exc': type(e).__name__}
  sigs = {}
  for line in shown.split('\n'):
    m = TYPE_LINE.match(line.strip())
    if m and m.group(1) in preds:
      sigs[m.group(1)] = line.strip()[5:-1]
  rows = {}
  for p in preds:
    o = R.run_sqlite(text, p, rules=rules)
    rows[p] = {'kind': o.kind, 'rows': getattr(o, 'rows', None), 'msg': getattr(o, 'message', '')[:200]}
  return {'kind': 'ok', 'sigs': sigs, 'rows': rows}


def inhabits(v, t):
  if v is None:
    return True
  if t == 'int':
    return isinstance(v, int) or (isinstance(v, float) and v == int(v))
  if t == 'str':
    return isinstance(v, str)
  if isinstance(t, tuple) and t[0] == 'list':
    try:
      l = json.loads(v) if isinstance(v, str) else v
    except ValueError:
      return False
    return isinstance(l, list) and all(inhabits(x, t[1]) for x in l)
  if isinstance(t, tuple) and t[0] == 'rec':
    try:
      d = json.loads(v) if isinstance(v, str) else v
    except ValueError:
      return False
    return isinstance(d, dict)
  return True


def corruptions(rng, pr):
  out = []
  idx = [i for i, r in enumerate(pr.rules) if r.get('body') is not None]
  if not idx:
    return out
  facts = [p for p in pr.preds if p.kind == 'facts']
  intf = [(p, c) for p in facts for c, t in zip(p.cols, p.types) if t == 'int']
  strf = [(p, c) for p in facts for c, t in zip(p.cols, p.types) if t == 'str']

  def atom_binding(p, c, var):
    args = []
    for c2 in p.cols:
      if c2 == c:
        args.append([c2, V(var)])
      elif p.positional():
        args.append([c2, V('tcn_' + c2)])
    return {'atom': p.name, 'args': args}

  def with_extra(extra, op):
    p2 = copy.deepcopy(pr)
    r = p2.rules[rng.choice(idx)]
    b = r['body']
    conjs = list(b['and']) if 'and' in b else [b]
    r['body'] = {'and': conjs + extra}
    out.append((op, p2, r['head']))
  if intf and strf:
    pi, ci = rng.choice(intf)
    ps, cs = rng.choice(strf)
    # 1. a string in arithmetic
    with_extra([atom_binding(pi, ci, 'tci'), atom_binding(ps, cs, 'tcs'), {'eq': [V('tcr'), OP('+', V('tci'), V('tcs'))]}], 'string-in-arithmetic')
    # 4. list mixing a number and a string
    with_extra([atom_binding(pi, ci, 'tci'), atom_binding(ps, cs, 'tcs'), {'eq': [V('tcl'), {'list': [V('tci'), V('tcs')]}]}], 'mixed-list')
    # 5. record field used at two types
    with_extra([atom_binding(pi, ci, 'tci'), atom_binding(ps, cs, 'tcs'), {'eq': [V('tcrec'), {'rec': [['p', V('tci')]]}]},
                {'eq': [{'sub': V('tcrec'), 'field': 'p'}, V('tcs')]}], 'record-field-clash')
    # 7. the same variable as a number argument and as a string argument
    with_extra([atom_binding(pi, ci, 'tcv'), atom_binding(ps, cs, 'tcv')], 'argument-of-two-types')
  if intf:
    pi, ci = rng.choice(intf)
    # 2. a number unified with a string literal
    with_extra([atom_binding(pi, ci, 'tci'), {'eq': [V('tci'), L('notanumber')]}], 'number-unified-with-string')
    # 6. missing field of a closed record
    with_extra([atom_binding(pi, ci, 'tci'), {'eq': [V('tcrec'), {'rec': [['p', V('tci')]]}]},
                {'eq': [V('tcz'), {'sub': V('tcrec'), 'field': 'zz'}]}], 'missing-field-of-closed-record')
    # 6b. the same after a valid access to the record (the closed record has already met an open one)
    with_extra([atom_binding(pi, ci, 'tci'), {'eq': [V('tcrec'), {'rec': [['p', V('tci')], ['q', V('tci')]]}]},
                {'eq': [V('tcok'), {'sub': V('tcrec'), 'field': 'p'}]},
                {'eq': [V('tcz'), {'sub': V('tcrec'), 'field': 'zz'}]}], 'missing-field-after-valid-access')
  if strf:
    ps, cs = rng.choice(strf)
    # 8. a string used in arithmetic inside the *second* aggregating expression of a body
    with_extra([atom_binding(ps, cs, 'tcs'),
                {'eq': [V('tca'), {'agg': 'Sum', 'e': V('tcy'), 'body': {'in': [V('tcy'), L([1, 2])]}}]},
                {'eq': [V('tcb'), {'agg': 'Sum', 'e': OP('+', V('tcs'), V('tcy2')), 'body': {'in': [V('tcy2'), L([1, 2])]}}]}],
               'clash-inside-second-combine')
  # 9. list element types that clash only through predicate signatures
  p9 = copy.deepcopy(pr)
  p9.extra_text = list(p9.extra_text) + ['Tcq([1, 2]);', 'Tcr(["a"]);', 'Tcp(l) :- Tcq(l);', 'Tcp(l) :- Tcr(l);']
  out.append(('list-element-clash-via-signatures', p9, 'Tcp'))
  # 10. a clash between the rules of one predicate that shows only through the signature of a predicate called by
  #     an earlier rule and defined elsewhere in the file (all textual orders of the three statements)
  import itertools
  lines10 = ['Tcu(x) :- Tcw(x);', 'Tcu("a");', 'Tcw(1);']
  for perm in rng.sample(list(itertools.permutations(lines10)), 2):
    p10 = copy.deepcopy(pr)
    p10.extra_text = list(p10.extra_text) + list(perm)
    out.append(('clash-between-rules-via-callee-signature', p10, 'Tcu'))
  # 3. a later rule gives a head column another type
  cands = [p for p in pr.preds if p.kind == 'concrete' and p.types and p.types[0] in ('int', 'str')]
  if cands:
    p = rng.choice(cands)
    p2 = copy.deepcopy(pr)
    wrong = L('text') if p.types[0] == 'int' else L(5)
    args = [[c, (wrong if i == 0 else L(1) if t == 'int' else L('s') if t == 'str' else L(None))] for i, (c, t) in enumerate(zip(p.cols, p.types))]
    if all(t in ('int', 'str') for t in p.types):
      p2.rules.append({'head': p.name, 'args': args, 'distinct': False, 'body': None})
      out.append(('head-column-of-two-types', p2, p.name))
  return out


# ---- (K) scalar constraint solving: real engine vs lean/LogicaModel/TypeSolve.lean ----
LIT = {'num': '1', 'str': '"s"', 'bool': 'true'}
SHOWN = {'any': 'Any', 'num': 'Num', 'str': 'Str', 'bool': 'Bool', 'singular': 'Singular', 'sequential': 'Sequential'}


def constraint_cases(ck, n):
  cases = []
  for _ in range(n):
    nv = ck.rng.randint(2, 5)
    cons = []
    for _ in range(ck.rng.randint(1, 6)):
      if ck.rng.random() < 0.5:
        # mostly one ground type so that consistent systems are as frequent as clashing ones
        t = 'num' if ck.rng.random() < 0.6 else ck.rng.choice(['str', 'bool'])
        cons.append(['g', ck.rng.randrange(nv), t])
      else:
        x, y = ck.rng.sample(range(nv), 2)
        cons.append(['s', x, y])
    orders = [list(cons)]
    for _ in range(2):
      o = list(cons)
      ck.rng.shuffle(o)
      orders.append(o)
    cases.append((nv, cons, orders))
  return cases


def constraint_text(nv, cons):
  vs = ['x%d' % i for i in range(nv)]
  body = ['s(%s)' % ', '.join(vs)]
  for c in cons:
    body.append('x%d == %s' % (c[1], LIT[c[2]]) if c[0] == 'g' else 'x%d == x%d' % (c[1], c[2]))
  return '@Engine("sqlite", type_checking: true);\nQ(%s) :- %s;\n' % (', '.join(vs), ', '.join(body))


def job_constraints(text):
  try:
    with R.quiet():
      rules = R.parse.ParseFile(text)['rule']
      prog = R.universe.LogicaProgram(rules)
      shown = prog.typing_engine.ShowPredicateTypes()
  except Exception as e:  # noqa: BLE001
    return {'kind': R.classify(e), 'msg': re.sub(r'\x1b\[[0-9;]*m', '', R.diag_text(e))[-200:]}
  for line in shown.split('\n'):
    m = TYPE_LINE.match(line.strip())
    if m and m.group(1) == 'Q':
      return {'kind': 'ok', 'sig': [a.strip() for a in m.group(2).split(',')]}
  return {'kind': 'ok', 'sig': None}


def run_constraints(ck):
  cases = constraint_cases(ck, ck.budget(150, 3000))
  texts = [constraint_text(nv, o) for nv, cons, orders in cases for o in orders]
  reals = core.pmap(job_constraints, texts)
  models = core.Driver().ask_many([{'op': 'tysolve', 'n': nv, 'cons': o, 'passes': len(o) + 2} for nv, cons, orders in cases for o in orders])
  k = 0
  for nv, cons, orders in cases:
    for oi, o in enumerate(orders):
      text, real, model = texts[k], reals[k], models[k]
      k += 1
      clash = 'bad' in model
      ck.case(['constraints', nv, o], True, ['constraints:' + ('clash' if clash else 'consistent'), 'constraints:order%d' % oi])
      ck.corr('typesolve-vs-engine')
      rp = {'program': text, 'constraints': o, 'order_variant': oi}
      if real['kind'] not in ('ok', 'type'):
        ck.violation('c05:constraints:%s' % real['kind'], 'constraint program fails with %s: %s' % (real['kind'], real['msg']), rp)
      elif clash and real['kind'] == 'ok':
        ck.violation('c05:clash-not-rejected:constraints:%s' % ('original-order' if oi == 0 else 'permuted'),
                     'variables forced to two ground types are accepted with signature %s (order variant %d)' % (real['sig'], oi), rp)
      elif not clash and real['kind'] == 'type':
        ck.violation('c05:well-typed-rejected:constraints', 'consistent constraints are rejected: %s' % real['msg'], rp)
      elif not clash and real['sig'] != [SHOWN[t] for t in model]:
        ck.disagreement('typesolve-vs-engine', rp, real['sig'], model)
        ck.violation('c05:signature:constraints', 'signature %s, the greatest solution of the constraints is %s' % (real['sig'], [SHOWN[t] for t in model]), rp)


def run(ck):
  run_constraints(ck)
  for c in ck.corpus():
    r = job_types((c['program'], []))
    ck.case(['corpus', c['_file']], True, ['corpus'])
    if r['kind'] != c.get('expect', 'ok'):
      ck.violation(c['key'], 'corpus %s: outcome %s (%s), expected %s' % (c['_file'], r['kind'], r.get('msg', '')[-150:], c.get('expect', 'ok')),
                   {'program': c['program']})
  n = ck.budget(28, 600)
  G.Gen.EMPTY_LISTS = False     # `l == [], x in l` types x as Singular, not as the generator's intended Num
  made = semcheck.make_programs(ck, n, G.Gen.ALL)
  jobs, meta = [], []
  for pr, model in made:
    preds = [p.name for p in pr.preds if p.kind != 'facts']
    intcols = [(p, c) for p in pr.preds if p.kind == 'facts' for c, t in zip(p.cols, p.types) if t == 'int']
    if intcols:
      fp, fc = ck.rng.choice(intcols)
      args = ', '.join(('%s: x' % c2 if not fp.positional() else 'x') if c2 == fc else ('tn%d' % k) for k, c2 in enumerate(fp.cols) if c2 == fc or fp.positional())
      pr = copy.deepcopy(pr)
      pr.extra_text = list(pr.extra_text) + ['Tcv(x, a, b) :- %s(%s), a == Sum{y :- y in [1, 2]}, b == List{z :- z in [x]};' % (fp.name, args)]
      tcv = G.Pred('Tcv', ['col0', 'col1', 'col2'], ['int', 'int', ('list', 'int')], 'concrete')
      pr.preds = list(pr.preds) + [tcv]
      preds = preds + ['Tcv']
    jobs.append((typed(pr.text()), preds))
    meta.append(('valid', pr, None))
    for op, bad, head in corruptions(ck.rng, pr):
      variants = [bad, M.permute_rules(bad, ck.rng), M.permute_conjuncts(M.permute_rules(bad, ck.rng), ck.rng)]
      for vi, v in enumerate(variants):
        jobs.append((typed(v.text()), []))
        meta.append(('corrupt:' + op, v, vi))
  for (kind, pr, vi), (text, preds), r in zip(meta, jobs, core.pmap(job_types, jobs)):
    if kind == 'valid':
      ck.case(text, any(len(p.cols) >= 2 for p in pr.preds if p.kind != 'facts'), ['valid', 'outcome:' + r['kind']])
      rp = {'program': text}
      if r['kind'] == 'type' and re.search(r'does not have argument col\d', r['msg']):
        ck.violation('typechecker-rejects-colN-access-to-positional-predicate',
                     'the type checker rejects a call naming a positional column (colN:) of a positionally defined predicate: %s' % r['msg'][-120:], rp)
        continue
      if r['kind'] != 'ok':
        ck.violation('c05:well-typed-rejected:%s' % r['kind'], 'a well-typed program is rejected (%s): %s' % (r.get('exc'), r['msg'][:200]), rp)
        continue
      for p in pr.preds:
        if p.kind == 'facts' or p.name in pr.tie_preds:
          continue
        exp = expected_signature(p)
        got = r['sigs'].get(p.name)
        if got != exp:
          ck.violation('c05:signature:%s' % p.kind, 'predicate %s is given signature %s, the consistent typing is %s' % (p.name, got, exp), dict(rp, pred=p.name))
        rows = r['rows'].get(p.name, {})
        if rows.get('kind') == 'ok':
          for row in rows['rows']:
            for v, t, c in zip(row, p.types, p.cols):
              if not inhabits(v, t):
                ck.violation('c05:value-outside-type', 'predicate %s column %s: value %r does not inhabit %s' % (p.name, c, v, render(t)), dict(rp, pred=p.name))
    else:
      ck.case(text, True, [kind, 'order:%d' % vi, 'outcome:' + r['kind']])
      if r['kind'] != 'type':
        ck.violation('c05:clash-not-rejected:%s:%s' % (kind.split(':')[1], 'original-order' if vi == 0 else 'permuted'),
                     '%s (order variant %d): outcome %s %s instead of a type error' % (kind, vi, r['kind'], r.get('msg', '')[:150]),
                     {'program': text, 'operator': kind, 'order_variant': vi})


def replay(ck, rep):
  print(core.canon(rep))
