"""Entry point of every registered check:  ./check Cxx --tier quick|thorough  [--replay file]"""
import argparse
import importlib
import json
import os
import sys
import traceback

sys.path.insert(0, os.path.dirname(os.path.abspath(__file__)))
import core  # noqa: E402


def main():
  import faulthandler, signal
  faulthandler.register(signal.SIGUSR1, all_threads=True)    # kill -USR1 <pid> dumps the Python stack (debugging)
  ap = argparse.ArgumentParser()
  ap.add_argument('pid')
  ap.add_argument('--tier', default=os.environ.get('VERIF_TIER', 'quick'))
  ap.add_argument('--replay', default=None)
  ap.add_argument('--no-lean', action='store_true', help='debugging only: skip the Lean obligations')
  args = ap.parse_args()
  seed = int(os.environ.get('VERIF_SEED', '0') or 0)
  tier = args.tier if args.tier in ('quick', 'thorough') else 'quick'
  pid = args.pid.upper()
  mod = importlib.import_module('props.' + pid.lower())
  # watchdog: a check that cannot finish is an error of the check (exit 2), never a violation and never a hang
  import signal
  limit = int(os.environ.get('VERIF_MAX_WALL', '2400' if tier == 'quick' else '18000'))

  def on_alarm(signum, frame):
    print('%s: did not finish within %d s (exit 2)' % (pid, limit))
    sys.stdout.flush()
    import multiprocessing
    for child in multiprocessing.active_children():
      try:
        child.kill()
      except Exception:  # noqa: BLE001
        pass
    os._exit(2)
  signal.signal(signal.SIGALRM, on_alarm)
  signal.alarm(limit)
  ck = core.Check(pid, tier, seed)
  ck.debug_no_lean = bool(args.no_lean)
  if args.replay:
    with open(args.replay) as f:
      rep = json.load(f)
    mod.replay(ck, rep)
    return 0
  try:
    if hasattr(mod, 'translate'):
      mod.translate(ck)            # regenerate Generated/*.lean from /repo (translator tie)
    lean_ok = True if args.no_lean else ck.lean()
    mod.run(ck)
    if (not lean_ok or ck.disagreements) and not ck.violations:
      # proof obligation or correspondence broken: search for a concrete failing input
      ck.searching = True
      ck.notes.append('tie/proof broken -> failing-input search with enlarged budget')
      mod.run(ck)
  except Exception:
    traceback.print_exc()
    print('%s: internal error of the check itself (exit 2)' % pid)
    return 2
  return ck.finish(level='proof', rule=getattr(mod, 'RULE', ''), assumptions=getattr(mod, 'ASSUMPTIONS', ()))


if __name__ == '__main__':
  sys.exit(main())
