"""Shared semantic oracle: rows returned by the real pipeline on SQLite versus the Lean reference
evaluator `Sem.denote` on the generator's own AST; compared as multisets of canonical rows."""
import json

import core
import realcode as R
import gen_program as G


def job_real(job):
  """job = (text, [preds]) -> {pred: {'kind', 'header', 'rows', 'message', 'sql'}} (one parse, one program per pred)"""
  text, preds = job[0], job[1]
  out = {}
  try:
    with R.quiet():
      rules = R.parse.ParseFile(text)['rule']
  except Exception as e:  # noqa: BLE001
    k = R.classify(e)
    return {p: {'kind': k, 'message': R.diag_text(e)[:400], 'exc_type': type(e).__name__} for p in preds}
  for p in preds:
    o = R.run_sqlite(text, p, rules=rules)
    d = {'kind': o.kind, 'message': getattr(o, 'message', '')[:400]}
    if o.kind == 'ok':
      d['header'] = o.header
      d['rows'] = o.rows
      d['sql'] = o.sql
    elif hasattr(o, 'exc_type'):
      d['exc_type'] = o.exc_type
    out[p] = d
  return out


def job_real_root(job):
  """like job_real, with an import root: job = (text, [preds], import_root)"""
  text, preds, root = job
  out = {}
  try:
    with R.quiet():
      rules = R.parse.ParseFile(text, import_root=root)['rule']
  except Exception as e:  # noqa: BLE001
    k = R.classify(e)
    return {p: {'kind': k, 'message': R.diag_text(e)[:400], 'exc_type': type(e).__name__} for p in preds}
  for p in preds:
    o = R.run_sqlite(text, p, rules=rules)
    d = {'kind': o.kind, 'message': getattr(o, 'message', '')[:400]}
    if o.kind == 'ok':
      d['header'] = o.header
      d['rows'] = o.rows
    elif hasattr(o, 'exc_type'):
      d['exc_type'] = o.exc_type
    out[p] = d
  return out


def canon_real_rows(res, pred):
  """-> sorted list of canonical JSON rows (dict col -> value)."""
  rows = []
  for r in res['rows']:
    d = {}
    for c, v, t in zip(res['header'], r, pred.types + ['?'] * 10):
      d[c] = norm(G.canon_value(v, t), t)
    rows.append(json.dumps(d, sort_keys=True))
  return sorted(rows)


def canon_model_rows(rows, pred):
  out = []
  for r in rows:
    d = {}
    for (c, v), t in zip(r, pred.types + ['?'] * 10):
      d[c] = norm(G.canon_model_value(v), t)
    out.append(json.dumps(d, sort_keys=True))
  return sorted(out)


def norm(v, t):
  # List aggregates are bags: element order is unspecified
  if isinstance(t, tuple) and t[0] == 'list' and isinstance(v, list):
    try:
      return sorted(v, key=lambda x: json.dumps(x, sort_keys=True))
    except TypeError:
      return v
  return v


def any_rules(rules):
  """ArgMin/ArgMax head aggregates are evaluated as the set of admissible winners."""
  out = []
  for r in rules:
    r2 = dict(r)
    r2['args'] = [[f, (dict(x, aggop=x['aggop'] + 'Any') if isinstance(x, dict) and x.get('aggop') in ('ArgMin', 'ArgMax') else x)]
                  for f, x in r['args']]
    out.append(r2)
  return out


def model_requests(prog, preds, any_winners=False):
  a = prog.ast()
  if any_winners:
    a['rules'] = any_rules(a['rules'])
  return {'op': 'denote', 'rules': a['rules'], 'strata': a['strata'], 'query': [p.name for p in preds]}


def compare(ck, prog, text, preds, real, model, key_of, extra=None, ignore_empty_list=False):
  """Report property violations (real rows / columns differ from the denotation)."""
  n_bad = 0
  if 'error' in model:
    ck.notes.append('reference evaluator error: %s' % model['error'])
    ck.features['model-error'] += 1
    return 0
  for p in preds:
    if p.name in getattr(prog, 'tie_preds', ()):
      ck.features['tie-skipped-pred'] += 1
      continue
    r = real[p.name]
    exp_rows = canon_model_rows(model['result'][p.name], p)
    rp = {'program': text, 'pred': p.name, 'expected_rows': exp_rows[:50]}
    if extra:
      rp.update(extra)
    if r['kind'] == 'parsing' and 'Signature differs for bodies' in r.get('message', ''):
      # the rules of a multi-body aggregating predicate must spell their arguments in one order: a documented
      # restriction reported by a diagnostic; when such a program is accepted its rows are judged as usual
      ck.features['multi-body-signature-order-rejected'] += 1
      continue
    if r['kind'] == 'too_big':
      ck.features['capacity-skipped'] += 1      # the plan exceeds the harness's SQLite budget: abandoned, not judged
      continue
    if r['kind'] != 'ok':
      ck.violation(key_of(p, 'outcome:' + r['kind']),
                   'predicate %s: real pipeline gives %s (%s) but the program is valid; expected %d rows' % (
                       p.name, r['kind'], r.get('message', '')[:200], len(exp_rows)), rp)
      n_bad += 1
      continue
    if getattr(prog, 'named_shuffled', False) and sorted(r['header']) == sorted(p.cols):
      pass      # named arguments were written in another order: columns are identified by name
    elif list(r['header']) != list(p.cols):
      ck.violation(key_of(p, 'columns'), 'predicate %s: columns %s, expected %s' % (p.name, r['header'], p.cols), rp)
      n_bad += 1
      continue
    got = canon_real_rows(r, p)
    if got != exp_rows:
      # documented: aggregating nothing gives null; SQLite's JSON_GROUP_ARRAY gives [] (known finding)
      def empties_to_null(rows):
        out = []
        for x in rows:
          d = json.loads(x)
          out.append(json.dumps({k: (None if v == [] else v) for k, v in d.items()}, sort_keys=True))
        return sorted(out)
      if empties_to_null(got) == empties_to_null(exp_rows):
        if ignore_empty_list:
          continue    # a C02 matter (recorded there), not this property's
        ck.violation('list-aggregating-nothing-gives-empty-list',
                     'predicate %s: List over no solutions returns [] instead of null' % p.name, rp)
        n_bad += 1
        continue
      rp['got_rows'] = got[:50]
      ck.violation(key_of(p, 'rows'), 'predicate %s: SQLite returns %d rows %s..., the denotation has %d rows %s...' % (
          p.name, len(got), got[:3], len(exp_rows), exp_rows[:3]), rp)
      n_bad += 1
  return n_bad


# ------------------------------------------------------------------------------------------------
# size-checked program generation (the reference evaluator is run once per candidate, with a timeout)
# ------------------------------------------------------------------------------------------------
MAX_ROWS = 250


def _gen_one(job):
  import random
  import subprocess
  seed, mask, kwargs, builder = job
  rng = random.Random(seed)
  for attempt in range(12):
    if builder is None:
      prog = G.Gen(rng, mask, **kwargs).generate()
    else:
      prog = builder(rng, mask, dict(kwargs, _seed=seed))
    req = model_requests(prog, prog.preds)
    try:
      o = subprocess.run([core.DRIVER], input=(json.dumps(req, ensure_ascii=False) + '\n').encode('utf-8'),
                         stdout=subprocess.PIPE, stderr=subprocess.PIPE, timeout=4)
      model = json.loads(o.stdout.decode('utf-8'))
    except Exception:  # noqa: BLE001  (timeout: program too big)
      continue
    if 'error' in model:
      if attempt < 11:
        continue
      return prog, model
    if max([len(v) for v in model['result'].values()] + [0]) > MAX_ROWS:
      continue
    prog.tie_preds = tie_affected(prog)
    return prog, model
  return None


def body_preds(x, acc):
  if isinstance(x, dict):
    if 'atom' in x:
      acc.add(x['atom'])
    if 'call' in x:
      acc.add(x['call'])
    for v in x.values():
      body_preds(v, acc)
  elif isinstance(x, list):
    for v in x:
      body_preds(v, acc)
  return acc


def tie_affected(prog):
  """Predicates whose value depends on the choice among tied ArgMin/ArgMax candidates (ties are excepted by
  the property): found by evaluating the reference semantics with 'all admissible winners'."""
  import subprocess
  if not any(p.anycols for p in prog.preds):
    return set()
  req = model_requests(prog, prog.preds, any_winners=True)
  try:
    o = subprocess.run([core.DRIVER], input=(json.dumps(req, ensure_ascii=False) + '\n').encode('utf-8'),
                       stdout=subprocess.PIPE, stderr=subprocess.PIPE, timeout=8)
    m = json.loads(o.stdout.decode('utf-8'))
  except Exception:  # noqa: BLE001
    return {p.name for p in prog.preds}
  if 'error' in m:
    return {p.name for p in prog.preds if p.kind != 'facts'}
  tied = set()
  for p in prog.preds:
    if not p.anycols:
      continue
    for row in m['result'][p.name]:
      for c, v in row:
        if c in p.anycols and isinstance(v, dict) and '$r' in v and len(v['$r'][0][1]) > 1:
          tied.add(p.name)
  # transitive dependents
  deps = {}
  for r in prog.rules:
    deps.setdefault(r['head'], set()).update(body_preds(r, set()) - {r['head']})
  changed = True
  while changed:
    changed = False
    for h, ds in deps.items():
      if h not in tied and ds & tied:
        tied.add(h)
        changed = True
  return tied


def make_programs(ck, n, mask, kwargs=None, builder=None):
  """n generated programs together with their reference denotation."""
  base = ck.rng.randrange(1 << 30)
  jobs = [(base + i, mask, kwargs or {}, builder) for i in range(n)]
  return [r for r in core.pmap(_gen_one, jobs) if r is not None]
