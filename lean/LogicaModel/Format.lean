/-
Model of the string templating the expression translator performs for built-in functions and infix
operators (`compiler/expr_translate.py: QL.Function, QL.Infix`) and of the lexical structure of the SQL
text it produces (C09): Python `%`-formatting and `str.format` on the template syntaxes that occur in the
dialect tables, and a scanner for brackets and quotes.
Characters are Unicode code points (`Nat`): kernel evaluation of the live-table check is two orders of
magnitude faster than on `Char`; the driver and the translator convert.
-/
namespace Logica.Format

/-! ### lexical structure of SQL text -/

structure St where
  depth : Nat
  quote : Option Nat
  deriving DecidableEq, Repr

def isQuote (c : Nat) : Bool := c == 39 || c == 34 || c == 96
def isOpen (c : Nat) : Bool := c == 40 || c == 91
def isClose (c : Nat) : Bool := c == 41 || c == 93

/-- one character; `none`: a closing bracket that matches nothing -/
def stepC (st : St) (c : Nat) : Option St :=
  match st.quote with
  | some q => if c = q then some ⟨st.depth, none⟩ else some st
  | none =>
    if isQuote c then some ⟨st.depth, some c⟩
    else if isOpen c then some ⟨st.depth + 1, none⟩
    else if isClose c then (match st.depth with | 0 => none | d + 1 => some ⟨d, none⟩)
    else some st

def scan : List Nat → St → Option St
  | [], st => some st
  | c :: cs, st => (stepC st c).bind (scan cs)

/-- brackets and string literals balance, whatever the surrounding depth -/
def Balanced (s : List Nat) : Prop := ∀ d, scan s ⟨d, none⟩ = some ⟨d, none⟩

/-! ### templates -/

inductive Piece
  | lit (c : Nat)
  | hole (n : Nat)
  deriving Repr, DecidableEq

/-- `%`-formatting: `%s` is the next argument, `%%` a percent sign, anything else after `%` raises -/
def parsePct : List Nat → Nat → Option (List Piece)
  | [], _ => some []
  | c :: rest, k =>
    if c = 37 then
      match rest with
      | d :: rest' =>
        if d = 115 then (parsePct rest' (k + 1)).map (Piece.hole k :: ·)
        else if d = 37 then (parsePct rest' k).map (Piece.lit 37 :: ·)
        else none
      | [] => none
    else (parsePct rest k).map (Piece.lit c :: ·)

def digitOf (c : Nat) : Option Nat :=
  if 48 ≤ c ∧ c ≤ 57 then some (c - 48) else none

/-- `str.format`: `{d}` positional hole, `{left}` / `{right}` the holes of an infix operator, `{{` `}}` braces -/
def parseBrace : List Nat → Option (List Piece)
  | [] => some []
  | c :: rest =>
    if c = 123 then
      match rest with
      | 123 :: rest' => (parseBrace rest').map (Piece.lit 123 :: ·)
      | 108 :: 101 :: 102 :: 116 :: 125 :: rest' => (parseBrace rest').map (Piece.hole 0 :: ·)
      | 114 :: 105 :: 103 :: 104 :: 116 :: 125 :: rest' => (parseBrace rest').map (Piece.hole 1 :: ·)
      | d :: 125 :: rest' =>
        match digitOf d with
        | some n => (parseBrace rest').map (Piece.hole n :: ·)
        | none => none
      | _ => none
    else if c = 125 then
      match rest with
      | 125 :: rest' => (parseBrace rest').map (Piece.lit 125 :: ·)
      | _ => none
    else (parseBrace rest).map (Piece.lit c :: ·)

def holeCount : List Piece → Nat
  | [] => 0
  | .lit _ :: ps => holeCount ps
  | .hole _ :: ps => holeCount ps + 1

/-- fill the holes; `none`: a hole without argument (IndexError / TypeError in Python) -/
def fill : List Piece → List (List Nat) → Option (List Nat)
  | [], _ => some []
  | .lit c :: ps, args => (fill ps args).map (c :: ·)
  | .hole n :: ps, args =>
    match args[n]? with
    | some a => (fill ps args).map (a ++ ·)
    | none => none

def hasPctS : List Nat → Bool
  | [] => false
  | [_] => false
  | c :: d :: rest => (c == 37 && d == 115) || hasPctS (d :: rest)

def joinArgs : List (List Nat) → List Nat
  | [] => []
  | [a] => a
  | a :: b :: rest => a ++ 44 :: 32 :: joinArgs (b :: rest)

/-- `QL.Function(f, args)`: one `%s` receives the comma-joined arguments, otherwise positional holes -/
def function (f : List Nat) (args : List (List Nat)) : Option (List Nat) :=
  if hasPctS f then
    (parsePct f 0).bind fun ps => if holeCount ps = 1 then fill ps [joinArgs args] else none
  else (parseBrace f).bind fun ps => fill ps args

/-- `QL.Infix(op, args)` followed by the parenthesis `ConvertToSql` puts around it -/
def infixOp (op : List Nat) (l r : List Nat) : Option (List Nat) :=
  ((if hasPctS op then
    (parsePct op 0).bind fun ps => if holeCount ps = 2 then fill ps [l, r] else none
  else (parseBrace op).bind fun ps => fill ps [l, r])).map fun s => 40 :: s ++ [41]

/-! ### the static check applied to every template of the live dialect tables -/

/-- scan the literal characters; a hole must stand outside string literals and is neutral -/
def checkPieces : List Piece → St → Option St
  | [], st => some st
  | .lit c :: ps, st => (stepC st c).bind (checkPieces ps)
  | .hole _ :: ps, st => if st.quote = none then checkPieces ps st else none

def piecesOK (ps : List Piece) : Bool := checkPieces ps ⟨0, none⟩ == some ⟨0, none⟩

def functionTemplateOK (f : List Nat) : Bool :=
  if hasPctS f then
    match parsePct f 0 with
    | some ps => holeCount ps == 1 && piecesOK ps
    | none => false
  else
    match parseBrace f with
    | some ps => piecesOK ps
    | none => false

def infixTemplateOK (op : List Nat) : Bool :=
  if hasPctS op then
    match parsePct op 0 with
    | some ps => holeCount ps == 2 && piecesOK ps
    | none => false
  else
    match parseBrace op with
    | some ps => piecesOK ps
    | none => false

def holesBelowB (n : Nat) : List Piece → Bool
  | [] => true
  | .lit _ :: ps => holesBelowB n ps
  | .hole k :: ps => decide (k < n) && holesBelowB n ps

/-- an infix template never lacks an argument: `%s %s` or holes among `{left}`, `{right}`, `{0}`, `{1}` -/
def infixTemplateTotal (op : List Nat) : Bool :=
  if hasPctS op then true
  else match parseBrace op with
    | some ps => holesBelowB 2 ps
    | none => false

end Logica.Format
