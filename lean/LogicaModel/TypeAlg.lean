/-
Model of `type_inference/research/reference_algebra.py: Unify / UnifyFriendlyRecords / Rank` as a pure
function on *views* (`VeryConcreteType` of a reference), for clash-free, tree-shaped inputs.

`BadType` carries the two clashing types only for the error message; the model drops the payload
(`Ty.bad`), and the correspondence compares views with payloads erased.

Record fields are association lists sorted by key with unique keys (`Fields.Sorted`); the harness
sorts what comes out of Python dicts.  Field keys are natural numbers: the harness encodes a positional key `k` as `2k` and a named key by an
injective odd code; only the linear order and equality of keys matter.
-/
namespace Logica.TypeAlg

mutual
  inductive Ty
    | any | singular | sequential | num | str | bool | time
    | list (e : Ty)
    | record (closed : Bool) (fs : Fields)
    | bad
  inductive Fields
    | nil
    | cons (k : Nat) (t : Ty) (rest : Fields)
end

deriving instance Repr for Ty
deriving instance Repr for Fields

mutual
  def Ty.beq : Ty → Ty → Bool
    | .any, .any | .singular, .singular | .sequential, .sequential | .num, .num | .str, .str
    | .bool, .bool | .time, .time | .bad, .bad => true
    | .list a, .list b => Ty.beq a b
    | .record c1 f1, .record c2 f2 => c1 == c2 && Fields.beq f1 f2
    | _, _ => false
  def Fields.beq : Fields → Fields → Bool
    | .nil, .nil => true
    | .cons k1 t1 r1, .cons k2 t2 r2 => k1 == k2 && Ty.beq t1 t2 && Fields.beq r1 r2
    | _, _ => false
end

/-- `Rank` of reference_algebra.py. -/
def rank : Ty → Int
  | .bad => -1 | .any => 0 | .singular => 1 | .sequential => 2 | .num => 3 | .str => 4
  | .bool => 5 | .time => 6 | .list _ => 7 | .record false _ => 8 | .record true _ => 9

def Fields.lookup : Fields → Nat → Option Ty
  | .nil, _ => none
  | .cons k t r, q => if k = q then some t else r.lookup q

def Fields.keys : Fields → List Nat
  | .nil => []
  | .cons k _ r => k :: r.keys

/-- every key of `a` is a key of `b` -/
def Fields.subKeys (a b : Fields) : Bool := a.keys.all (fun k => (b.lookup k).isSome)

def Fields.sameKeys (a b : Fields) : Bool := a.subKeys b && b.subKeys a

mutual
  /-- does a `bad` occur anywhere -/
  def Ty.clash : Ty → Bool
    | .bad => true
    | .list e => e.clash
    | .record _ fs => fs.clash
    | _ => false
  def Fields.clash : Fields → Bool
    | .nil => false
    | .cons _ t r => t.clash || r.clash
end

mutual
  /-- The view both references have after `Unify(a, b)` (clash-free inputs).  `bad` is absorbing. -/
  def meet : Ty → Ty → Ty
    | .bad, _ => .bad
    | _, .bad => .bad
    | .any, t => t
    | t, .any => t
    -- Singular: anything that is not a list; Singular ∧ Sequential = Str
    | .singular, .list _ => .bad
    | .list _, .singular => .bad
    | .singular, .sequential => .str
    | .sequential, .singular => .str
    | .singular, t => t
    | t, .singular => t
    -- Sequential: Str or a list
    | .sequential, .sequential => .sequential
    | .sequential, .str => .str
    | .str, .sequential => .str
    | .sequential, .list e => .list e
    | .list e, .sequential => .list e
    | .sequential, _ => .bad
    | _, .sequential => .bad
    -- ground types
    | .num, .num => .num
    | .str, .str => .str
    | .bool, .bool => .bool
    | .time, .time => .time
    -- lists: element-wise; a clashing element makes the lists clash
    | .list a, .list b =>
      match meet a b with
      | .bad => .bad
      | m => .list m
    -- records
    | .record false f1, .record false f2 => .record false (mergeF f1 f2)
    | .record false f1, .record true f2 => if f1.subKeys f2 then .record true (mergeF f1 f2) else .bad
    | .record true f1, .record false f2 => if f2.subKeys f1 then .record true (mergeF f1 f2) else .bad
    | .record true f1, .record true f2 => if f1.sameKeys f2 then .record true (mergeF f1 f2) else .bad
    | _, _ => .bad
  termination_by a b => sizeOf a + sizeOf b
  /-- Sorted merge of two field lists; common fields are met. A field clash stays in the field
  (as written in `UnifyFriendlyRecords`: the record itself is not marked). -/
  def mergeF : Fields → Fields → Fields
    | .nil, f2 => f2
    | f1, .nil => f1
    | .cons k1 t1 r1, .cons k2 t2 r2 =>
      if k1 < k2 then .cons k1 t1 (mergeF r1 (.cons k2 t2 r2))
      else if k2 < k1 then .cons k2 t2 (mergeF (.cons k1 t1 r1) r2)
      else .cons k1 (meet t1 t2) (mergeF r1 r2)
  termination_by a b => sizeOf a + sizeOf b
end

/-- keys strictly increasing -/
def Fields.Sorted : Fields → Prop
  | .nil => True
  | .cons _ _ .nil => True
  | .cons k1 _ (.cons k2 t2 r) => k1 < k2 ∧ (Fields.cons k2 t2 r).Sorted

mutual
  /-- well-formed: all records sorted, no `bad` -/
  def Ty.WF : Ty → Prop
    | .bad => False
    | .list e => e.WF
    | .record _ fs => fs.Sorted ∧ fs.WFs
    | _ => True
  def Fields.WFs : Fields → Prop
    | .nil => True
    | .cons _ t r => t.WF ∧ r.WFs
end

end Logica.TypeAlg
