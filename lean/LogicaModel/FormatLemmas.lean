import LogicaModel.Format

namespace Logica.Format

theorem scan_append (a b : List Nat) : ∀ st, scan (a ++ b) st = (scan a st).bind (scan b) := by
  induction a with
  | nil => intro st; rfl
  | cons c cs ih =>
    intro st
    simp only [List.cons_append, scan]
    cases h : stepC st c with
    | none => rfl
    | some st1 => simpa using ih st1

theorem stepC_shift (st st' : St) (c : Nat) (k : Nat) (h : stepC st c = some st') :
    stepC ⟨st.depth + k, st.quote⟩ c = some ⟨st'.depth + k, st'.quote⟩ := by
  obtain ⟨d, q⟩ := st
  cases q with
  | some q =>
    simp only [stepC] at h ⊢
    split at h <;> rename_i hc
    · cases h; simp [hc]
    · cases h; simp [hc]
  | none =>
    simp only [stepC] at h ⊢
    by_cases h1 : isQuote c
    · simp only [h1, if_true] at h ⊢; cases h; rfl
    · simp only [h1] at h ⊢
      by_cases h2 : isOpen c
      · simp only [h2, if_true] at h ⊢; cases h
        simp; omega
      · simp only [h2] at h ⊢
        by_cases h3 : isClose c
        · simp only [h3, if_true] at h ⊢
          cases d with
          | zero => simp at h
          | succ d =>
            simp at h; cases h
            have : d + 1 + k = (d + k) + 1 := by omega
            simp [this]
        · simp only [h3] at h ⊢
          simp at h ⊢; cases h; exact ⟨rfl, rfl⟩

theorem scan_shift (s : List Nat) : ∀ (st st' : St) (k : Nat), scan s st = some st' →
    scan s ⟨st.depth + k, st.quote⟩ = some ⟨st'.depth + k, st'.quote⟩ := by
  induction s with
  | nil => intro st st' k h; simp [scan] at h ⊢; cases h; exact ⟨rfl, rfl⟩
  | cons c cs ih =>
    intro st st' k h
    simp only [scan] at h ⊢
    cases h1 : stepC st c with
    | none => simp [h1] at h
    | some st1 =>
      rw [h1] at h
      rw [stepC_shift st st1 c k h1]
      exact ih st1 st' k h

theorem checkPieces_shift (ps : List Piece) : ∀ (st st' : St) (k : Nat), checkPieces ps st = some st' →
    checkPieces ps ⟨st.depth + k, st.quote⟩ = some ⟨st'.depth + k, st'.quote⟩ := by
  induction ps with
  | nil => intro st st' k h; simp [checkPieces] at h ⊢; cases h; exact ⟨rfl, rfl⟩
  | cons p ps ih =>
    intro st st' k h
    cases p with
    | lit c =>
      simp only [checkPieces] at h ⊢
      cases h1 : stepC st c with
      | none => simp [h1] at h
      | some st1 =>
        rw [h1] at h
        rw [stepC_shift st st1 c k h1]
        exact ih st1 st' k h
    | hole n =>
      simp only [checkPieces] at h ⊢
      by_cases hq : st.quote = none
      · simp only [hq, if_true] at h ⊢
        have := ih st st' k h
        rw [hq] at this
        exact this
      · simp [hq] at h

theorem piecesOK_all (ps : List Piece) (h : piecesOK ps = true) (d : Nat) :
    checkPieces ps ⟨d, none⟩ = some ⟨d, none⟩ := by
  have h0 : checkPieces ps ⟨0, none⟩ = some ⟨0, none⟩ := by simpa [piecesOK] using h
  simpa using checkPieces_shift ps ⟨0, none⟩ ⟨0, none⟩ d h0

/-- filling balanced arguments into a checked template follows the scan of the template -/
theorem fill_scan (args : List (List Nat)) (hargs : ∀ a ∈ args, Balanced a) :
    ∀ (ps : List Piece) (st st' : St) (out : List Nat),
      checkPieces ps st = some st' → fill ps args = some out → scan out st = some st' := by
  intro ps
  induction ps with
  | nil =>
    intro st st' out hc hf
    simp [fill] at hf; subst hf
    simpa [checkPieces, scan] using hc
  | cons p ps ih =>
    intro st st' out hc hf
    cases p with
    | lit c =>
      simp only [fill, Option.map_eq_some_iff] at hf
      obtain ⟨out', hf', rfl⟩ := hf
      simp only [checkPieces] at hc
      simp only [scan]
      cases h1 : stepC st c with
      | none => simp [h1] at hc
      | some st1 =>
        rw [h1] at hc
        exact ih st1 st' out' hc hf'
    | hole n =>
      simp only [fill] at hf
      cases ha : args[n]? with
      | none => simp [ha] at hf
      | some a =>
        simp only [ha, Option.map_eq_some_iff] at hf
        obtain ⟨out', hf', rfl⟩ := hf
        simp only [checkPieces] at hc
        by_cases hq : st.quote = none
        · simp only [hq, if_true] at hc
          have hbal : Balanced a := hargs a (List.mem_of_getElem? ha)
          obtain ⟨d, q⟩ := st
          simp only at hq; subst hq
          rw [scan_append, hbal d]
          exact ih ⟨d, none⟩ st' out' hc hf'
        · simp [hq] at hc

def holesBelow (n : Nat) : List Piece → Prop
  | [] => True
  | .lit _ :: ps => holesBelow n ps
  | .hole k :: ps => k < n ∧ holesBelow n ps

theorem fill_total (args : List (List Nat)) : ∀ (ps : List Piece), holesBelow args.length ps →
    ∃ out, fill ps args = some out := by
  intro ps
  induction ps with
  | nil => intro _; exact ⟨[], rfl⟩
  | cons p ps ih =>
    intro h
    cases p with
    | lit c =>
      obtain ⟨o, ho⟩ := ih h
      exact ⟨c :: o, by simp [fill, ho]⟩
    | hole k =>
      obtain ⟨o, ho⟩ := ih h.2
      have hk : k < args.length := h.1
      exact ⟨args[k] ++ o, by simp [fill, ho, List.getElem?_eq_getElem hk]⟩

theorem holesBelow_mono (ps : List Piece) (n m : Nat) (hnm : n ≤ m) (h : holesBelow n ps) : holesBelow m ps := by
  induction ps with
  | nil => trivial
  | cons p ps ih =>
    cases p with
    | lit c => exact ih h
    | hole k => exact ⟨Nat.lt_of_lt_of_le h.1 hnm, ih h.2⟩

/-- `%s` holes are numbered consecutively -/
theorem parsePct_holes : ∀ (f : List Nat) (k : Nat) (ps : List Piece), parsePct f k = some ps →
    holesBelow (k + holeCount ps) ps
  | [], k, ps, h => by simp [parsePct] at h; subst h; trivial
  | c :: rest, k, ps, h => by
    unfold parsePct at h
    by_cases hc : c = 37
    · simp only [hc, if_true] at h
      cases rest with
      | nil => simp at h
      | cons d rest' =>
        simp only at h
        by_cases hd : d = 115
        · simp only [hd, if_true, Option.map_eq_some_iff] at h
          obtain ⟨ps', hp, rfl⟩ := h
          have ih := parsePct_holes rest' (k + 1) ps' hp
          refine ⟨by simp [holeCount], ?_⟩
          have : k + 1 + holeCount ps' = k + holeCount (Piece.hole k :: ps') := by simp [holeCount]; omega
          rw [← this]; exact ih
        · simp only [hd, if_false] at h
          by_cases hp : d = 37
          · simp only [hp, if_true, Option.map_eq_some_iff] at h
            obtain ⟨ps', hp', rfl⟩ := h
            exact parsePct_holes rest' k ps' hp'
          · simp [hp] at h
    · simp only [hc, if_false, Option.map_eq_some_iff] at h
      obtain ⟨ps', hp, rfl⟩ := h
      exact parsePct_holes rest k ps' hp

theorem balanced_nil : Balanced [] := fun _ => rfl

theorem balanced_append (a b : List Nat) (ha : Balanced a) (hb : Balanced b) : Balanced (a ++ b) := by
  intro d; rw [scan_append, ha d]; exact hb d

theorem balanced_sep : Balanced [44, 32] := by
  intro d; simp [scan, stepC, isQuote, isOpen, isClose]

theorem balanced_join : ∀ (args : List (List Nat)), (∀ a ∈ args, Balanced a) → Balanced (joinArgs args)
  | [], _ => balanced_nil
  | [a], h => h a (by simp)
  | a :: b :: rest, h => by
    have ih := balanced_join (b :: rest) (fun x hx => h x (by simp [hx]))
    show Balanced (a ++ ([44, 32] ++ joinArgs (b :: rest)))
    exact balanced_append _ _ (h a (by simp)) (balanced_append _ _ balanced_sep ih)

theorem balanced_paren (s : List Nat) (h : Balanced s) : Balanced (40 :: s ++ [41]) := by
  intro d
  have h1 := h (d + 1)
  show (stepC ⟨d, none⟩ 40).bind (scan (s ++ [41])) = _
  have : stepC ⟨d, none⟩ 40 = some ⟨d + 1, none⟩ := by simp [stepC, isQuote, isOpen]
  rw [this, Option.bind_some, scan_append, h1]
  simp [scan, stepC, isQuote, isOpen, isClose]

end Logica.Format
