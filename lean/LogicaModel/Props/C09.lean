import LogicaModel.FormatLemmas
import LogicaModel.Generated.Templates
/-!
# C09 — every dialect compiles the core language into well-scoped SQL

What is proved: the *templating layer* shared by all eight dialects.  `Generated/Templates.lean` is
regenerated from the live dialect tables on every run (translator `tools/gen_templates.py`); the theorems say
that every template passes a static check and that, for **every** template passing the check and **all**
argument texts in which brackets and string literals balance, formatting a built-in call or an infix operator
either raises the arity diagnostic or yields text in which brackets and string literals balance again, with
every placeholder replaced — by induction, for expressions of any nesting depth.

Alias scoping, WITH ordering, the absence of internal errors elsewhere in the pipeline and the statement
assembly (`RuleStructure.AsSql`) are not modelled: they are decided by the static scope checker applied to the
SQL the real compiler emits for generated programs on all eight dialects (hence `_partial` below).
-/
namespace Logica.Format
open Logica.Generated

/-- **Every live function template is well-formed**: one `%s` (no other conversion) or positional holes
with well-formed braces; brackets and quotes of the template text balance; no hole stands inside a string
literal.  (Re-checked by the kernel against the regenerated table on every run.) -/
theorem live_function_templates_ok : functionTemplates.all functionTemplateOK = true := by decide +kernel

/-- **Every live infix template is well-formed** and never lacks an argument. -/
theorem live_infix_templates_ok :
    infixTemplates.all (fun t => infixTemplateOK t && infixTemplateTotal t) = true := by decide +kernel

/-- **Formatting preserves balance**: for every checked template and all balanced arguments, what
`QL.Function` returns is balanced (brackets and string literals), at any surrounding depth. -/
theorem function_wellformed_partial (f : List Nat) (args : List (List Nat)) (out : List Nat)
    (hok : functionTemplateOK f = true) (hargs : ∀ a ∈ args, Balanced a)
    (h : function f args = some out) : Balanced out := by
  intro d
  unfold functionTemplateOK at hok
  unfold function at h
  by_cases hp : hasPctS f = true
  · simp only [hp, if_true] at hok h
    cases hps : parsePct f 0 with
    | none => simp [hps] at hok
    | some ps =>
      simp only [hps, Bool.and_eq_true, beq_iff_eq] at hok
      simp only [hps, Option.bind_some, hok.1, if_true] at h
      have hj : ∀ a ∈ [joinArgs args], Balanced a := by
        intro a ha; simp at ha; subst ha; exact balanced_join args hargs
      exact fill_scan [joinArgs args] hj ps _ _ out (piecesOK_all ps hok.2 d) h
  · simp only [hp] at hok h
    cases hps : parseBrace f with
    | none => simp [hps] at hok
    | some ps =>
      simp only [hps] at hok
      simp only [hps, Option.bind_some] at h
      exact fill_scan args hargs ps _ _ out (piecesOK_all ps hok d) h

/-- **`%s` templates never fail**: whatever the number of arguments, a checked `%s` template formats. -/
theorem function_pct_total (f : List Nat) (args : List (List Nat))
    (hp : hasPctS f = true) (hok : functionTemplateOK f = true) : ∃ out, function f args = some out := by
  unfold functionTemplateOK at hok
  unfold function
  simp only [hp, if_true] at hok ⊢
  cases hps : parsePct f 0 with
  | none => simp [hps] at hok
  | some ps =>
    simp only [hps, Bool.and_eq_true, beq_iff_eq] at hok
    simp only [Option.bind_some, hok.1, if_true]
    have hb := parsePct_holes f 0 ps hps
    rw [hok.1] at hb
    exact fill_total [joinArgs args] ps (by simpa using hb)

/-- **Positional templates fail only for a missing argument** (the arity diagnostic): with at least as many
arguments as the largest hole index requires, formatting succeeds. -/
theorem function_brace_total (f : List Nat) (args : List (List Nat)) (ps : List Piece)
    (hp : hasPctS f = false) (hps : parseBrace f = some ps) (hb : holesBelow args.length ps) :
    ∃ out, function f args = some out := by
  unfold function
  simp only [hp, hps, Option.bind_some]
  exact fill_total args ps hb

theorem holesBelowB_sound (n : Nat) : ∀ ps, holesBelowB n ps = true → holesBelow n ps
  | [], _ => trivial
  | .lit _ :: ps, h => holesBelowB_sound n ps (by simpa [holesBelowB] using h)
  | .hole k :: ps, h => by
    simp only [holesBelowB, Bool.and_eq_true, decide_eq_true_eq] at h
    exact ⟨h.1, holesBelowB_sound n ps h.2⟩

/-- **Infix operators**: a checked template always formats, and the parenthesised result is balanced. -/
theorem infix_wellformed_partial (op l r : List Nat)
    (hok : infixTemplateOK op = true) (htot : infixTemplateTotal op = true)
    (hl : Balanced l) (hr : Balanced r) : ∃ out, infixOp op l r = some out ∧ Balanced out := by
  have hargs : ∀ a ∈ [l, r], Balanced a := by
    intro a ha; simp at ha; rcases ha with rfl | rfl <;> assumption
  unfold infixTemplateOK at hok
  unfold infixTemplateTotal at htot
  unfold infixOp
  by_cases hp : hasPctS op = true
  · simp only [hp, if_true] at hok ⊢
    cases hps : parsePct op 0 with
    | none => simp [hps] at hok
    | some ps =>
      simp only [hps, Bool.and_eq_true, beq_iff_eq] at hok
      simp only [Option.bind_some, hok.1, if_true]
      have hb := parsePct_holes op 0 ps hps
      rw [hok.1] at hb
      obtain ⟨o, ho⟩ := fill_total [l, r] ps (by simpa using hb)
      refine ⟨40 :: o ++ [41], by simp [ho], balanced_paren o ?_⟩
      intro d
      exact fill_scan [l, r] hargs ps _ _ o (piecesOK_all ps hok.2 d) ho
  · simp only [hp] at hok htot ⊢
    cases hps : parseBrace op with
    | none => simp [hps] at hok
    | some ps =>
      simp only [hps] at hok htot
      simp only [Option.bind_some]
      obtain ⟨o, ho⟩ := fill_total [l, r] ps (by simpa using holesBelowB_sound 2 ps htot)
      refine ⟨40 :: o ++ [41], by simp [ho], balanced_paren o ?_⟩
      intro d
      exact fill_scan [l, r] hargs ps _ _ o (piecesOK_all ps hok d) ho

def codes (s : String) : List Nat := s.toList.map Char.toNat

/-- the hypotheses are met by a real template and real argument texts, and the conclusion is not trivial -/
example : functionTemplateOK (codes "DATE_ADD({0}, INTERVAL {1} DAY)") = true ∧
    function (codes "DATE_ADD({0}, INTERVAL {1} DAY)") [codes "t_0.col0", codes "(1 + 2)"]
      = some (codes "DATE_ADD(t_0.col0, INTERVAL (1 + 2) DAY)") ∧
    function (codes "{0} || {1}") [codes "x"] = none := by decide +kernel

end Logica.Format
