import LogicaModel.SemLemmas
import LogicaModel.AggLemmas
/-!
# C07 — results do not depend on the textual order used in a program

Stated on the reference semantics `Sem` (the executable denotation the correspondence runs against SQLite).
-/
namespace Logica.Sem

/-- **Permuting the rules (or facts) of a program** permutes the rows of a non-aggregating predicate: same
multiset; and the evaluation fails for one order iff it fails for the other. -/
theorem rules_perm_rows (db : DB) (p : String) {rules1 rules2 : List Rule} (h : rules1.Perm rules2)
    (hplain : ∀ r ∈ rules1, r.head = p → (r.distinct || hasAgg r) = false) (rows1 : Rel)
    (h1 : predRows db rules1 p = .ok rows1) :
    ∃ rows2, predRows db rules2 p = .ok rows2 ∧ rows1.Perm rows2 := by
  have hf : ((rules1.filter (fun r => r.head == p)).map inlineRule).Perm ((rules2.filter (fun r => r.head == p)).map inlineRule) :=
    (h.filter _).map _
  have hany1 : ((rules1.filter (fun r => r.head == p)).map inlineRule).any (fun r => r.distinct || hasAgg r) = false := by
    rw [List.any_eq_false]
    intro r hr
    obtain ⟨r0, hr0, rfl⟩ := List.mem_map.mp hr
    have hm := List.mem_filter.mp hr0
    have := hplain r0 hm.1 (by simpa using hm.2)
    simp only [Bool.not_eq_true]
    -- inlining calls keeps `distinct` and the aggregation shape of the head
    have hd : (inlineRule r0).distinct = r0.distinct := rfl
    have ha : hasAgg (inlineRule r0) = hasAgg r0 := inlineRule_hasAgg r0
    rw [hd, ha]; exact this
  have hany2 : ((rules2.filter (fun r => r.head == p)).map inlineRule).any (fun r => r.distinct || hasAgg r) = false := by
    rw [List.any_eq_false] at hany1 ⊢
    intro r hr
    exact hany1 r (hf.symm.subset hr)
  unfold predRows at h1 ⊢
  simp only [hany1, hany2, Bool.false_eq_true, if_false] at h1 ⊢
  cases hm : mapM' (ruleRows db) ((rules1.filter (fun r => r.head == p)).map inlineRule) with
  | error e => rw [hm] at h1; cases h1
  | ok parts1 =>
    rw [hm] at h1
    simp only [bind, Except.bind, pure, Except.pure] at h1
    injection h1 with h1
    obtain ⟨parts2, hm2, hp2⟩ := mapM'_perm (ruleRows db) hf parts1 hm
    refine ⟨parts2.flatten, ?_, ?_⟩
    · rw [hm2]; rfl
    · rw [← h1]; exact flatten_perm hp2

end Logica.Sem

namespace Logica.Agg

/-- **Aggregated values do not depend on the order in which rows arrive** (Sum, Min, Max; see also
`Udf.argmin_perm` for ArgMin without ties). -/
theorem aggregates_arrival_order {a b : List (Option Int)} (h : a.Perm b) :
    sumN a = sumN b ∧ minN a = minN b ∧ maxN a = maxN b := by
  have hv := vals_perm h
  refine ⟨?_, minL_perm hv, maxL_perm hv⟩
  unfold sumN
  have hs := foldl_add_perm hv 0
  cases ha : vals a with
  | nil =>
    have : vals b = [] := by
      have := hv.length_eq; rw [ha] at this; exact List.eq_nil_of_length_eq_zero this.symm
    simp [this]
  | cons x xs =>
    cases hb : vals b with
    | nil => have := hv.length_eq; rw [ha, hb] at this; simp at this
    | cons y ys => rw [ha, hb] at hs; simp [hs]

end Logica.Agg
