import LogicaModel.ScanLemmas
/-!
# C15 — layout, comments and string contents never change what is parsed

Proved on the model of the scanner (`parse.py: Traverse`) that every parsing function of both parsers
consumes through `RemoveComments`, `IsWhole`, `SplitRaw`: what those consumers observe is the *view* — the
characters yielded, each with its bracket/string state, and the error events; never the positions.

* a block comment and a line comment inserted at a token boundary leave the view unchanged
  (`block_comment_insertion`, `line_comment_insertion`);
* the characters of a string literal are yielded in one non-empty state, whatever they are, and the text
  after the literal is scanned as if it were not there (`string_literal_opaque`): they are never split on,
  never counted as brackets, never start a comment.

Whitespace and newlines between tokens, redundant parentheses, trailing semicolons and source spans act
above the scanner (`Strip`, `SplitRaw`, `HeritageAwareString`): they are decided by the metamorphic oracle on
both real parsers (`_partial`).
-/
namespace Logica.Scan

theorem block_comment_insertion_partial (a cm b st : List Char) (i : Nat) (hs : SafeEnd a)
    (hend : endCfg a 0 [] 0 0 = some (i, st, 0, 0)) (hst : CodeMode st) (hcm : closeFree cm = true) :
    view (Py.traverse (a ++ '/' :: '*' :: (cm ++ '*' :: '/' :: b))) = view (Py.traverse (a ++ b)) :=
  block_comment_insertion a cm b st i hs hend hst hcm

theorem line_comment_insertion_partial (a cm b st : List Char) (i : Nat) (hs : SafeEnd a)
    (hend : endCfg a 0 [] 0 0 = some (i, st, 0, 0)) (hst : CodeMode st) (hcm : '\n' ∉ cm) :
    view (Py.traverse (a ++ '#' :: (cm ++ '\n' :: b))) = view (Py.traverse (a ++ '\n' :: b)) :=
  line_comment_insertion a cm b st i hs hend hst hcm

theorem string_literal_opaque_partial (a body b st : List Char) (i : Nat) (hs : SafeEnd a)
    (hend : endCfg a 0 [] 0 0 = some (i, st, 0, 0)) (hst : CodeMode st)
    (hq : '"' ∉ body) (hn : '\n' ∉ body) (hnt : body ≠ [] ∨ b.head? ≠ some '"') :
    view (Py.traverse (a ++ '"' :: (body ++ '"' :: b))) =
      view (Py.go a 0 [] 0 0) ++ V.ok '"' ('"' :: st) ::
        (body.map (fun c => V.ok c ('"' :: st)) ++ V.ok '"' st :: view (Py.go b 0 st 0 0)) :=
  string_literal_opaque a body b st i hs hend hst hq hn hnt

/-- **Blanks at the edges of a piece of text never matter**: `StripSpaces`, which `Strip` applies to every part
that `Split` produces (so: around every separator), returns the same text for every padding with white space
on either side, and is idempotent. -/
theorem blanks_around_parts_irrelevant (l r s : List Char) (hl : ∀ c ∈ l, isSp c = true) (hr : ∀ c ∈ r, isSp c = true) :
    stripSpaces (l ++ s ++ r) = stripSpaces s ∧ stripSpaces (stripSpaces s) = stripSpaces s :=
  ⟨stripSpaces_pad l r s hl hr, stripSpaces_idem s⟩

example : stripSpaces [' ', '\n', 'a', ' ', 'b', '\t', ' '] = ['a', ' ', 'b'] ∧ stripSpaces [' ', ' '] = [] := by decide

/-- positions never influence the scan -/
theorem positions_irrelevant (s : List Char) (i j : Nat) (st : List Char) (e k : Nat) :
    view (Py.go s i st e k) = view (Py.go s j st e k) :=
  view_go_idx s i j st e k

/-- the premises are met inside an argument list: after `F(x, ` the scanner is in code mode, nothing pending -/
example : endCfg ['F', '(', 'x', ',', ' '] 0 [] 0 0 = some (5, ['('], 0, 0) ∧ CodeMode ['('] ∧
    SafeEnd ['F', '(', 'x', ',', ' '] ∧ closeFree ['a', '*', ')', '#', '"'] = true := by
  refine ⟨by decide, Or.inl (by decide), by simp [SafeEnd, safeChar], by decide⟩

/-- and the hypothesis on the end of the prefix is needed: `/` followed by an inserted `/* */` … is fine, but a
comment inserted between `/` and `*` is not a token boundary -/
example : view (Py.traverse ['a', '/', '*', 'b', '*', '/']) ≠
    view (Py.traverse (['a', '/'] ++ '/' :: '*' :: ([] ++ '*' :: '/' :: ['*', 'b', '*', '/']))) := by
  decide

end Logica.Scan
