import LogicaModel.TypeSolveLemmas
/-!
# C05 — type checking accepts well-typed programs, rejects clashes, whatever the order

Scope of the theorems (`_partial` in the names): the *scalar* part of the type lattice — `Any`, `Singular`,
`Sequential`, `Num`, `Str`, `Bool`, `Time` and the clash — with constraints "x has type t" and "x is unified
with y", applied in an arbitrary order and arbitrarily often (a *schedule*).  Lists and records use the
structured `meet` of C16, for which associativity is not proved; signatures of generated programs, the
corruption catalogue under permuted rules / conjuncts and inhabitation of run-time values are decided by
the oracle on the real engine.
-/
namespace Logica.TypeSolve

/-- **Accepts well-typed, in every order**: if some clash-free assignment satisfies every constraint of the
program, then no schedule over those constraints (any order, any repetition, any sub-selection) ever
produces a clash, and what the engine has inferred at any moment is at most as specific as that assignment. -/
theorem welltyped_accepted_any_order_partial (cs sched : List Con) (ρ : Asg)
    (hsat : ∀ c ∈ cs, Sat ρ c) (hok : ¬ Clash ρ) (hsub : ∀ c ∈ sched, c ∈ cs) :
    ¬ Clash (run top sched) ∧ le ρ (run top sched) := by
  have hle := run_le ρ sched top (fun c h => hsat c (hsub c h)) (le_top ρ)
  refine ⟨?_, hle⟩
  rintro ⟨x, hx⟩
  have := hle x
  rw [hx, smeet_bad] at this
  exact hok ⟨x, this.symm⟩

/-- **Exactly that signature, whatever the order**: two schedules over the same constraints that have both
reached a fixed point (one more application of any constraint changes nothing) have inferred the same type
for every variable — the greatest solution of the constraints. -/
theorem signature_unique_any_order_partial (cs s1 s2 : List Con)
    (h1 : ∀ c ∈ s1, c ∈ cs) (h2 : ∀ c ∈ s2, c ∈ cs)
    (f1 : ∀ c ∈ cs, step (run top s1) c = run top s1) (f2 : ∀ c ∈ cs, step (run top s2) c = run top s2) :
    run top s1 = run top s2 := by
  apply le_antisymm
  · exact run_le _ s2 top (fun c h => fixpoint_sat _ c (f1 c (h2 c h))) (le_top _)
  · exact run_le _ s1 top (fun c h => fixpoint_sat _ c (f2 c (h1 c h))) (le_top _)

/-- **Rejects clashes, in every order**: if no clash-free assignment satisfies the constraints, every
schedule that has reached a fixed point reports a clash. -/
theorem clash_rejected_any_order_partial (cs sched : List Con)
    (hno : ∀ ρ : Asg, (∀ c ∈ cs, Sat ρ c) → Clash ρ)
    (hfix : ∀ c ∈ cs, step (run top sched) c = run top sched) :
    Clash (run top sched) :=
  hno _ (fun c h => fixpoint_sat _ c (hfix c h))

/-- a clash, once found, is never lost by continuing the inference -/
theorem clash_is_stable (σ : Asg) (more : List Con) (h : Clash σ) : Clash (run σ more) :=
  clash_run more σ h

/-- both directions are inhabited: a satisfiable and an unsatisfiable program -/
example :
    let cs := [Con.ground 0 .num, Con.same 0 1, Con.ground 2 .str]
    (∀ c ∈ cs, Sat (fun x => if x = 2 then STy.str else STy.num) c) ∧
      ¬ Clash (fun x => if x = 2 then STy.str else STy.num) := by
  refine ⟨?_, ?_⟩
  · intro c hc
    simp at hc
    rcases hc with rfl | rfl | rfl <;> simp [Sat, smeet]
  · rintro ⟨x, hx⟩
    by_cases h : x = 2 <;> simp [h] at hx

example : (run top [Con.ground 0 .num, Con.same 0 1, Con.ground 1 .str]) 1 = .bad := by decide

end Logica.TypeSolve
