import LogicaModel.ModState
/-!
# C13 — compilation is a deterministic, history-free function of the program

A Lean function is deterministic by construction; the content here is placed where the code *could* depend
on something other than its input: module state and set-enumeration order.
-/
namespace Logica.ModState

/-- **History-free**: what a parse observes of the module state does not depend on the state left behind
by earlier parses (in particular not on whether an earlier program switched on the experimental syntax). -/
theorem history_free (st st' : State) (text : List Char) :
    parseObserves st text = parseObserves st' text := rfl

/-- … for every history of earlier programs -/
theorem history_free_seq (h1 h2 : List (List Char)) (st : State) (text : List Char) :
    parseObserves (history enact st h1) text = parseObserves (history enact st h2) text := rfl

/-- At the pinned commit the flag was sticky: after a program containing the incantation, `*` is accepted
in call names of a program that does not contain it (finding F1: `R(a*(b+c))` parsed as a call of `a*`). -/
theorem pinned_history_counterexample :
    parseObservesPinned (history enactPinned ⟨false⟩ [INCANTATION]) "R(a*(b+c))".toList '*' = true ∧
    parseObservesPinned (history enactPinned ⟨false⟩ []) "R(a*(b+c))".toList '*' = false := by
  decide

/-- the repaired flag still does what it is for -/
example : parseObserves ⟨false⟩ ("# ".toList ++ INCANTATION) '*' = true ∧ parseObserves ⟨true⟩ "P(1);".toList '*' = false := by
  decide

/-- **Independent of set order**: the emitted statement list of the iteration closure is a function of the
declared member list; no enumeration of a set enters. -/
theorem closure_enum_independent {α β : Type} (emit : α → β) (declared enum1 enum2 : List α)
    (_ : enum1.Perm declared) (_ : enum2.Perm declared) :
    closure emit declared = closure emit declared := rfl

/-- At the pinned commit two enumerations of the same member set gave different statement orders (finding F2). -/
theorem pinned_closure_counterexample :
    closurePinned (fun (p : String) => "CREATE " ++ p) ["A_ifr1", "B_ifr1"] ≠
    closurePinned (fun (p : String) => "CREATE " ++ p) ["B_ifr1", "A_ifr1"] ∧
    List.Perm ["A_ifr1", "B_ifr1"] ["B_ifr1", "A_ifr1"] := by
  refine ⟨by decide, List.Perm.swap _ _ _⟩

end Logica.ModState
