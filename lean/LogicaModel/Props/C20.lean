import LogicaModel.UdfLemmas
/-!
# C20 — SQLite built-ins and aggregates compute their documented meaning

Theorems about the UDF models (`LogicaModel/Udf.lean`), tied to `common/sqlite3_logica.py` and to the
`Range` template by the correspondence check.  Rows are `(value, arg)` pairs of integers.
-/
namespace Logica.Udf
open Logica.OrderLimit

/-- `Range(n)` for positive `n`: the recursive CTE enumerates exactly `0, …, n-1`. -/
theorem range_cte (n : Nat) (h : 0 < n) : rangeCte (n : Int) = List.range n := range_cte_pos n h

/-- `Range(n)` is empty for `n ≤ 0` (the seed row `0` is filtered out). -/
theorem range_cte_empty (N : Int) (h : N ≤ 0) : rangeCte N = [] := range_cte_nonpos N h

/-- No ties: all values are different. -/
def NoTies (rows : List VA) : Prop := (rows.map (·.1)).Nodup

/-- **ArgMinK.** For every input list without value ties and every `k ≥ 1`, folding `step` over the
rows in any arrival order and finalising gives the `arg`s of the `k` smallest rows, in order. -/
theorem argmin_k_spec (rows : List VA) (k : Nat) (hk : 1 ≤ k) (h : NoTies rows) :
    argMin (some (k : Int)) rows = some (((sortRows leVA rows).take k).map (·.2)) := by
  unfold argMin
  have := foldStep_argMin k hk rows [] (by simpa [NoTies] using h)
  simp only [sortRows, List.take_nil, List.append_nil] at this
  rw [this, sortRows_reverse]
  rfl

/-- `Array` / unlimited ArgMin: all `arg`s in order of `(value, arg)`; no hypothesis on ties. -/
theorem argmin_unlimited_spec (rows : List VA) :
    argMin none rows = some ((sortRows leVA rows).map (·.2)) := by
  unfold argMin
  have := foldStep_unlimited rows []
  simp only [sortRows, List.append_nil] at this
  rw [this, sortRows_reverse]
  rfl

/-- **Order independence**: the aggregate returns the same value for every arrival order of its rows
(ties excepted). -/
theorem argmin_perm (rows rows' : List VA) (k : Nat) (hk : 1 ≤ k) (h : NoTies rows)
    (hp : rows.Perm rows') : argMin (some (k : Int)) rows = argMin (some (k : Int)) rows' := by
  have h' : NoTies rows' := (hp.map _).nodup_iff.mp h
  rw [argmin_k_spec rows k hk h, argmin_k_spec rows' k hk h']
  have : sortRows leVA rows = sortRows leVA rows' := by
    apply List.Perm.eq_of_pairwise (le := fun a b => leVA a b = true)
    · intro a b _ _ h1 h2; exact leVA_antisymm a b h1 h2
    · exact pairwise_sortRows leVA_trans leVA_total _
    · exact pairwise_sortRows leVA_trans leVA_total _
    · exact (sortRows_perm _).trans (hp.trans (sortRows_perm rows').symm)
  rw [this]

theorem argmin_unlimited_perm (rows rows' : List VA) (hp : rows.Perm rows') :
    argMin none rows = argMin none rows' := by
  rw [argmin_unlimited_spec, argmin_unlimited_spec]
  have : sortRows leVA rows = sortRows leVA rows' := by
    apply List.Perm.eq_of_pairwise (le := fun a b => leVA a b = true)
    · intro a b _ _ h1 h2; exact leVA_antisymm a b h1 h2
    · exact pairwise_sortRows leVA_trans leVA_total _
    · exact pairwise_sortRows leVA_trans leVA_total _
    · exact (sortRows_perm _).trans (hp.trans (sortRows_perm rows').symm)
  rw [this]

/-- **ArgMaxK.** For every input list without value ties and every `k ≥ 1`: the `arg`s of the `k` largest rows,
largest first, whatever the arrival order. -/
theorem argmax_k_spec (rows : List VA) (k : Nat) (hk : 1 ≤ k) (h : NoTies rows) :
    argMax (some (k : Int)) rows = some ((lastK k (sortRows leVA rows)).reverse.map (·.2)) := by
  unfold argMax
  have := foldStep_argMax k hk rows [] (by simpa [NoTies] using h)
  simp only [sortRows, List.append_nil] at this
  have h0 : lastK k ([] : List VA) = [] := by simp [lastK]
  rw [h0] at this
  rw [this, sortRows_reverse]
  rfl

theorem argmax_perm (rows rows' : List VA) (k : Nat) (hk : 1 ≤ k) (h : NoTies rows)
    (hp : rows.Perm rows') : argMax (some (k : Int)) rows = argMax (some (k : Int)) rows' := by
  have h' : NoTies rows' := (hp.map _).nodup_iff.mp h
  rw [argmax_k_spec rows k hk h, argmax_k_spec rows' k hk h']
  have : sortRows leVA rows = sortRows leVA rows' := by
    apply List.Perm.eq_of_pairwise (le := fun a b => leVA a b = true)
    · intro a b _ _ h1 h2; exact leVA_antisymm a b h1 h2
    · exact pairwise_sortRows leVA_trans leVA_total _
    · exact pairwise_sortRows leVA_trans leVA_total _
    · exact (sortRows_perm _).trans (hp.trans (sortRows_perm rows').symm)
  rw [this]

/-- A non-positive limit raises, whatever the row. -/
theorem argmin_bad_limit (l : Int) (h : l ≤ 0) (x : VA) (rows : List VA) :
    argMin (some l) (x :: rows) = none ∧ argMax (some l) (x :: rows) = none := by
  simp [argMin, argMax, foldStep, argMinStep, argMaxStep, h]

/-- Non-vacuity and the K variants on a concrete permutation (values 5,1,4,3 for args 10,20,30,40). -/
example : argMin (some 2) [(5, 10), (1, 20), (4, 30), (3, 40)] = some [20, 40] ∧
          argMax (some 2) [(5, 10), (1, 20), (4, 30), (3, 40)] = some [10, 30] ∧
          NoTies [(5, 10), (1, 20), (4, 30), (3, 40)] := by
  refine ⟨by decide, by decide, by unfold NoTies; decide⟩

end Logica.Udf
