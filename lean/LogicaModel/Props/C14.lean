import LogicaModel.ConcertinaLemmas
/-!
# C14 — execution order and repetition counts (Concertina state machine)

`mu` is the termination measure: one unit per queued non-iterated action, the number of repetitions
still owed per queued iterated action.
-/
namespace Logica.Concertina

/-- **The run terminates**, for every configuration, every queue and every behaviour of the stop-signal
oracle: `mu` strictly decreases with each executed action, so `mu` steps empty the queue. -/
theorem run_terminates_measure (c : Config) (raised : String → Nat → Bool) :
    ∀ (fuel : Nat) (st : RunState), mu c st.counts st.queue ≤ fuel →
      (runLoop c raised fuel st).queue = [] := by
  intro fuel
  induction fuel with
  | zero =>
    intro st h
    simp only [runLoop]
    cases hq : st.queue with
    | nil => rfl
    | cons a q =>
      have := weight_pos c st.counts a
      simp only [hq, mu, List.map_cons, List.sum_cons] at h
      omega
  | succ fuel ih =>
    intro st h
    simp only [runLoop]
    split
    · rename_i he; simpa using he
    · rename_i he
      have hne : st.queue ≠ [] := by simpa using he
      have := step_decreases c raised st hne
      exact ih _ (by omega)


/-- Each step executes exactly the action at the head of the queue (the trace is the execution history). -/
theorem step_trace (c : Config) (raised : String → Nat → Bool) (st : RunState) (a : String) (q : List String)
    (h : st.queue = a :: q) : (step c raised st).trace = st.trace ++ [a] := by
  unfold step
  simp only [h]
  split
  · rfl
  · split
    · rfl
    · split
      · rfl
      · split <;> rfl

/-- An empty queue is a fixed point: nothing runs after the run is complete. -/
theorem step_done (c : Config) (raised : String → Nat → Bool) (st : RunState) (h : st.queue = []) :
    step c raised st = st := by
  unfold step; simp [h]

/-- **The schedule respects the dependencies**: in the order `SortActions` returns, every action scheduled on its
own account (outside iterations, or the first member of an iteration) comes after everything it requires —
for every configuration whose iterations do not share members. -/
theorem schedule_respects_requirements (c : Config) (hwf : WFIter c) (order : List String)
    (h : sortActions c = .ok order) : wp c [] order = true :=
  sort_respects_requirements c hwf order h

/-- … where "requires" includes its own requirements … -/
theorem requirements_include_own (c : Config) (a r : String) (h : r ∈ c.rawRequires a) : r ∈ c.requiresOf a :=
  own_requirements_kept c a r h

/-- … and, for the first member of an iteration, whatever any member needs from outside the iteration (the
repaired finding F7; the pinned behaviour is `requiresOfPinned`, see the example below). -/
theorem first_member_waits_for_all (c : Config) (it : Iteration) (hit : it ∈ c.iterations) (h p r : String)
    (hh : it.predicates.head? = some h) (hhn : h ∈ c.names)
    (hp : p ∈ it.predicates) (hpn : p ∈ c.names) (hr : r ∈ c.requiresHalf p) (hout : r ∉ it.predicates) :
    r ∈ c.requiresOf h :=
  head_waits_for_members c it hit h p r hh hhn hp hpn hr hout

/-- the F7 plan: the repaired propagation makes U wait for X, the pinned one did not; the schedule is X U L -/
example :
    let c : Config := ⟨[⟨"X", []⟩, ⟨"U", []⟩, ⟨"L", ["U", "X"]⟩], [⟨"it", ["U", "L"], 2, "", false⟩]⟩
    c.requiresOf "U" = ["X"] ∧ c.requiresOfPinned "U" = [] ∧ sortActions c = .ok ["X", "U", "L"] ∧
    wp c [] ["X", "U", "L"] = true ∧ wp c [] ["U", "L", "X"] = false := by
  decide

/-- **Repetition counts**: when the run is over, every scheduled action outside iterations ran exactly once and
every member of an iteration ran exactly its declared number of repetitions (at least once), unless the stop
signal ended it — then at least once and at most that often.  For every configuration, schedule and behaviour
of the stop-signal oracle. -/
theorem repetition_counts (c : Config) (raised : String → Nat → Bool) (order : List String) (fuel : Nat)
    (hn : order.Nodup) (a : String) (ha : a ∈ order)
    (hdone : (runLoop c raised fuel (initState order)).queue = []) :
    let fin := runLoop c raised fuel (initState order)
    (c.isIterated a = false → fin.trace.count a = 1) ∧
    (∀ it, c.isIterated a = true → c.iterationOf a = some it →
       1 ≤ fin.trace.count a ∧ fin.trace.count a ≤ max it.repetitions 1 ∧
       (a ∈ fin.stopped ∨ fin.trace.count a = max it.repetitions 1)) :=
  execution_counts c raised order fuel hn a ha hdone

/-- the premises are met by the F7 plan and the conclusion is what the trace shows: X once, U and L twice -/
example :
    let c : Config := ⟨[⟨"X", []⟩, ⟨"U", []⟩, ⟨"L", ["U", "X"]⟩], [⟨"it", ["U", "L"], 2, "", false⟩]⟩
    (runLoop c (fun _ _ => false) 10 (initState ["X", "U", "L"])).queue = [] ∧
    (runLoop c (fun _ _ => false) 10 (initState ["X", "U", "L"])).trace = ["X", "U", "L", "U", "L"] := by
  decide

/-- Non-vacuity: the F7 plan (X, U, L requires U and X, iteration [U, L] twice) has measure 5. -/
example : mu ⟨[⟨"X", []⟩, ⟨"U", []⟩, ⟨"L", ["U", "X"]⟩], [⟨"it", ["U", "L"], 2, "", false⟩]⟩ [] ["X", "U", "L"] = 5 := by
  decide

end Logica.Concertina
