import LogicaModel.ConcertinaLemmas
/-!
# C14 — execution order and repetition counts (Concertina state machine)

`mu` is the termination measure: one unit per queued non-iterated action, the number of repetitions
still owed per queued iterated action.
-/
namespace Logica.Concertina

/-- **The run terminates**, for every configuration, every queue and every behaviour of the stop-signal
oracle: `mu` strictly decreases with each executed action, so `mu` steps empty the queue. -/
theorem run_terminates_measure (c : Config) (raised : String → Nat → Bool) :
    ∀ (fuel : Nat) (st : RunState), mu c st.counts st.queue ≤ fuel →
      (runLoop c raised fuel st).queue = [] := by
  intro fuel
  induction fuel with
  | zero =>
    intro st h
    simp only [runLoop]
    cases hq : st.queue with
    | nil => rfl
    | cons a q =>
      have := weight_pos c st.counts a
      simp only [hq, mu, List.map_cons, List.sum_cons] at h
      omega
  | succ fuel ih =>
    intro st h
    simp only [runLoop]
    split
    · rename_i he; simpa using he
    · rename_i he
      have hne : st.queue ≠ [] := by simpa using he
      have := step_decreases c raised st hne
      exact ih _ (by omega)


/-- Each step executes exactly the action at the head of the queue (the trace is the execution history). -/
theorem step_trace (c : Config) (raised : String → Nat → Bool) (st : RunState) (a : String) (q : List String)
    (h : st.queue = a :: q) : (step c raised st).trace = st.trace ++ [a] := by
  unfold step
  simp only [h]
  split
  · rfl
  · split
    · rfl
    · split
      · rfl
      · split <;> rfl

/-- An empty queue is a fixed point: nothing runs after the run is complete. -/
theorem step_done (c : Config) (raised : String → Nat → Bool) (st : RunState) (h : st.queue = []) :
    step c raised st = st := by
  unfold step; simp [h]

/-- Non-vacuity: the F7 plan (X, U, L requires U and X, iteration [U, L] twice) has measure 5. -/
example : mu ⟨[⟨"X", []⟩, ⟨"U", []⟩, ⟨"L", ["U", "X"]⟩], [⟨"it", ["U", "L"], 2, "", false⟩]⟩ [] ["X", "U", "L"] = 5 := by
  decide

end Logica.Concertina
