import LogicaModel.GroundLemmas
import LogicaModel.OrderLimit
/-!
# C08 — plan-selecting annotations never change results

A *plan* says, per intermediate predicate, whether it is materialised (@Ground) — `g` — and which grounded
tables a script creates (`order`); WITH table and inline sub-query are the same semantic function of the
relations read, so @With / @NoWith / @NoInject do not appear in the semantics at all (that they select
different SQL text is measured by the check).
-/
namespace Logica.Ground

/-- **Every plan returns the same rows**: two arbitrary choices of grounded predicates and creation orders,
run against faithful databases, give the same result for every requested predicate — the denotation. -/
theorem plans_agree (g1 g2 : Nat → Bool) (defs : List PredDef) (o1 o2 : List Nat) (q : Nat) (s1 s2 : Store)
    (hwf : WF defs) (h1 : Faithful defs s1) (h2 : Faithful defs s2) :
    (runScript g1 defs o1 q s1).2 = (runScript g2 defs o2 q s2).2 := by
  show eval g1 defs (o1.foldl (create g1 defs) s1) q = eval g2 defs (o2.foldl (create g2 defs) s2) q
  rw [eval_eq_den g1 defs _ hwf (foldl_create_faithful g1 defs hwf o1 s1 h1) q,
      eval_eq_den g2 defs _ hwf (foldl_create_faithful g2 defs hwf o2 s2 h2) q]

/-- In particular the fully inlined plan (nothing grounded, nothing created) is the reference. -/
theorem plan_eq_inline (g : Nat → Bool) (defs : List PredDef) (order : List Nat) (q : Nat) (store : Store)
    (hwf : WF defs) (hf : Faithful defs store) :
    (runScript g defs order q store).2 = (runScript (fun _ => false) defs [] q (fun _ => none)).2 :=
  plans_agree g (fun _ => false) defs order [] q store (fun _ => none) hwf hf (fun _ _ h => by cases h)

end Logica.Ground

namespace Logica.OrderLimit

/-- `OkInjection` decision logic: exactly the plan-selecting / order annotations forbid injection. -/
theorem ok_injection_spec (ob : Option (List String)) (lim : Option Int) (g n w : Bool) :
    okInjection ob lim g n w = true ↔
      ((ob = none ∨ ob = some []) ∧ lim = none ∧ g = false ∧ n = false ∧ w = false) := by
  cases ob with
  | none => cases lim <;> cases g <;> cases n <;> cases w <;> simp [okInjection]
  | some l => cases l <;> cases lim <;> cases g <;> cases n <;> cases w <;> simp [okInjection]

end Logica.OrderLimit
