import LogicaModel.ScanLemmas
/-!
# C06 — the C++ and Python parsers accept the same programs and build the same rules

Both parsers are built on one scanner discipline (`Traverse` / `Traverser::Next`), transcribed here
independently from the two sources (`Scan.Py`, `Scan.Cpp`: the C++ code encodes the pending yields after a
`"""` as `'\x01'` markers on its state stack, returns an end-of-line-in-string event *instead of* the character
and goes on after an unmatched bracket, where the Python generator uses index jumps, yields both and breaks).
What is proved is that these differences never reach the first consumer: `RemoveComments`, which both
`ParseFile`s apply to the whole file, returns the same text or raises the same error for **every** string.
Equality of the rule trees built afterwards (splitting, operators, rewrites: 2-3k lines on each side) is
not a theorem (`_partial`): it is decided by differential execution of the two real parsers.
-/
namespace Logica.Scan

/-- **Same comment-free text or same error, for every input** -/
theorem remove_comments_agree_partial (s : List Char) : Py.removeComments s = Cpp.removeComments s :=
  removeComments_agree s

/-- the statement is about related *configurations*, not only about whole files: wherever the Python scanner
has `emit` pending yields, the C++ scanner has that many markers on its stack -/
theorem scanners_simulate (s : List Char) (idx : Nat) (st : List Char) (e k : Nat)
    (hst : NoSoh st) (hek : e = 0 ∨ k = 0) :
    rc (Py.go s idx st e k) = rc (Cpp.go s idx (List.replicate e soh ++ st) k) :=
  rc_agree s idx st e k hst hek

/-- non-trivial instances: a triple-quoted string with brackets inside, an end of line inside a string
(reported at the same index), a closing bracket that matches nothing -/
example :
    Py.removeComments ['F', '(', '"', '"', '"', ')', '#', '"', '"', '"', ')', ' ', '#', 'c', '\n', ';'] =
      .ok ['F', '(', '"', '"', '"', ')', '#', '"', '"', '"', ')', ' ', '\n', ';'] ∧
    Cpp.removeComments ['F', '(', '"', '"', '"', ')', '#', '"', '"', '"', ')', ' ', '#', 'c', '\n', ';'] =
      .ok ['F', '(', '"', '"', '"', ')', '#', '"', '"', '"', ')', ' ', '\n', ';'] ∧
    Py.removeComments ['"', 'a', '\n', 'b', '"'] = .eolInString 2 ∧
    Cpp.removeComments ['"', 'a', '\n', 'b', '"'] = .eolInString 2 ∧
    Py.removeComments ['(', ']', 'x'] = .unmatched 1 ∧ Cpp.removeComments ['(', ']', 'x'] = .unmatched 1 := by
  decide

end Logica.Scan
