import LogicaModel.Checks
import LogicaModel.Imports
/-!
# C19 — invalid programs are rejected with a diagnostic (decision logic stated outright)
-/
namespace Logica.Checks

/-- **An annotation of a missing predicate is always reported**, wherever it stands among the other
annotations, and the report names an annotated predicate that does not exist. -/
theorem missing_annotated_predicate_rejected (allPreds : List String) (anns : List (String × String))
    (a p : String) (hmem : (a, p) ∈ anns) (hchecked : CHECKED.contains a = true) (hmissing : allPreds.contains p = false) :
    ∃ a' p', checkAnnotated allPreds anns = some (a', p') ∧ allPreds.contains p' = false ∧ (a', p') ∈ anns := by
  induction anns with
  | nil => cases hmem
  | cons x rest ih =>
    obtain ⟨a0, p0⟩ := x
    unfold checkAnnotated
    by_cases hc : (CHECKED.contains a0 && !allPreds.contains p0) = true
    · simp only [hc, if_true]
      simp only [Bool.and_eq_true, Bool.not_eq_true'] at hc
      exact ⟨a0, p0, rfl, hc.2, List.mem_cons_self⟩
    · simp only [hc, if_false]
      have hrest : (a, p) ∈ rest := by
        rcases List.mem_cons.mp hmem with h | h
        · exfalso
          injection h with h1 h2
          subst h1; subst h2
          apply hc
          rw [hchecked, hmissing]; rfl
        · exact h
      obtain ⟨a', p', h1, h2, h3⟩ := ih hrest
      exact ⟨a', p', h1, h2, List.mem_cons_of_mem _ h3⟩

/-- … and programs whose annotated predicates all exist pass the check. -/
theorem existing_annotated_predicates_accepted (allPreds : List String) (anns : List (String × String))
    (h : ∀ x ∈ anns, allPreds.contains x.2 = true) : checkAnnotated allPreds anns = none := by
  induction anns with
  | nil => rfl
  | cons x rest ih =>
    obtain ⟨a0, p0⟩ := x
    unfold checkAnnotated
    have := h (a0, p0) List.mem_cons_self
    simp only at this
    simp only [this, Bool.not_true, Bool.and_false, Bool.false_eq_true, if_false]
    exact ih (fun y hy => h y (List.mem_cons_of_mem _ hy))

/-- **Inconsistent `distinct` among the rules of a predicate is reported**: two rules of one predicate, one
distinct-denoted and one not, in either order and with any other rules around them. -/
theorem inconsistent_distinct_rejected (pre mid post : List (String × Bool)) (p : String) (d : Bool)
    (hpre : ∀ x ∈ pre, x.1 ≠ p) (hmid : ∀ x ∈ mid, x.1 ≠ p)
    (hok : checkDistinct [] pre = none ∨ True) :
    ∃ q, checkDistinct [] (pre ++ [(p, d)] ++ mid ++ [(p, !d)] ++ post) = some q := by
  -- generalise over the `seen` accumulator: it never contains p before the first p-rule
  have key : ∀ (l : List (String × Bool)) (seen : List (String × Bool)),
      (∃ d0, (p, d0) ∈ seen ∧ d0 = d ∧ ∀ x ∈ seen, x.1 = p → x.2 = d) →
      (∀ x ∈ l, x.1 ≠ p) → ∃ q, checkDistinct seen (l ++ [(p, !d)] ++ post) = some q := by
    intro l
    induction l with
    | nil =>
      intro seen ⟨d0, hm, hd, hall⟩ _
      simp only [List.nil_append, List.cons_append, checkDistinct]
      cases hf : seen.find? (fun x => x.1 == p) with
      | none =>
        have := List.find?_eq_none.mp hf (p, d0) hm
        simp at this
      | some y =>
        obtain ⟨yp, yd⟩ := y
        have hy := List.find?_some hf
        have hmy := List.mem_of_find?_eq_some hf
        simp only [beq_iff_eq] at hy
        have : yd = d := hall (yp, yd) hmy hy
        subst this
        cases yd <;> simp
    | cons x l ih =>
      intro seen hseen hl
      obtain ⟨xp, xd⟩ := x
      have hxp : xp ≠ p := hl (xp, xd) List.mem_cons_self
      simp only [List.cons_append, checkDistinct]
      cases hf : seen.find? (fun y => y.1 == xp) with
      | some y =>
        obtain ⟨yp, yd⟩ := y
        simp only
        by_cases hne : (yd != xd) = true
        · simp [hne]
        · simp only [hne, Bool.false_eq_true, if_false]
          exact ih seen hseen (fun z hz => hl z (List.mem_cons_of_mem _ hz))
      | none =>
        simp only
        apply ih (seen ++ [(xp, xd)])
        · obtain ⟨d0, hm, hd, hall⟩ := hseen
          refine ⟨d0, List.mem_append_left _ hm, hd, ?_⟩
          intro z hz hzp
          rcases List.mem_append.mp hz with h | h
          · exact hall z h hzp
          · simp at h; subst h; exact absurd hzp hxp
        · exact fun z hz => hl z (List.mem_cons_of_mem _ hz)
  -- run through `pre` first
  have key0 : ∀ (l : List (String × Bool)) (seen : List (String × Bool)),
      (∀ x ∈ seen, x.1 ≠ p) → (∀ x ∈ l, x.1 ≠ p) →
      (∃ q, checkDistinct seen (l ++ [(p, d)] ++ mid ++ [(p, !d)] ++ post) = some q) := by
    intro l
    induction l with
    | nil =>
      intro seen hs _
      simp only [List.nil_append, List.cons_append, List.append_assoc, checkDistinct]
      have hnone : seen.find? (fun x => x.1 == p) = none := by
        apply List.find?_eq_none.mpr
        intro x hx; simpa using hs x hx
      simp only [hnone]
      have := key mid (seen ++ [(p, d)]) ⟨d, by simp, rfl, by
        intro z hz hzp
        rcases List.mem_append.mp hz with h | h
        · exact absurd hzp (hs z h)
        · simp at h; subst h; rfl⟩ hmid
      simpa [List.append_assoc] using this
    | cons x l ih =>
      intro seen hs hl
      obtain ⟨xp, xd⟩ := x
      have hxp : xp ≠ p := hl (xp, xd) List.mem_cons_self
      simp only [List.cons_append, checkDistinct]
      cases hf : seen.find? (fun y => y.1 == xp) with
      | some y =>
        obtain ⟨yp, yd⟩ := y
        simp only
        by_cases hne : (yd != xd) = true
        · simp [hne]
        · simp only [hne, Bool.false_eq_true, if_false]
          exact ih seen hs (fun z hz => hl z (List.mem_cons_of_mem _ hz))
      | none =>
        simp only
        apply ih (seen ++ [(xp, xd)])
        · intro z hz
          rcases List.mem_append.mp hz with h | h
          · exact hs z h
          · simp at h; subst h; exact hxp
        · exact fun z hz => hl z (List.mem_cons_of_mem _ hz)
  exact key0 pre [] (fun _ h => by cases h) hpre

example : checkAnnotated ["Q"] [("@OrderBy", "Q"), ("@OrderBy", "Missing")] = some ("@OrderBy", "Missing") := by decide
example : checkDistinct [] [("P", true), ("Q", false), ("P", false)] = some "P" := by decide

end Logica.Checks
