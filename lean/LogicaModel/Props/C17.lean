import LogicaModel.GroundLemmas
/-!
# C17 — grounded predicates are materialised faithfully and re-running is idempotent

`defs` are the predicates of a program in dependency order (`WF`: each reads only earlier ones), `g` marks
the @Ground-ed ones, a script creates the tables listed in `order` and then selects the requested `q`.
-/
namespace Logica.Ground

/-- **Faithful materialisation.** Starting from a store whose existing tables are right (in particular an
empty database), after the script every created table holds exactly the denotation of its predicate, every
other table is untouched, and the result is the denotation of the requested predicate — whichever grounded
tables the dependants read and whichever are evaluated in place. -/
theorem run_faithful (g : Nat → Bool) (defs : List PredDef) (order : List Nat) (q : Nat) (store : Store)
    (hwf : WF defs) (hf : Faithful defs store) :
    let r := runScript g defs order q store
    r.2 = den defs q ∧ (∀ j ∈ order, r.1 j = some (den defs j)) ∧ (∀ j, j ∉ order → r.1 j = store j) ∧
      Faithful defs r.1 := by
  refine ⟨?_, ?_, ?_, ?_⟩
  · exact eval_eq_den g defs _ hwf (foldl_create_faithful g defs hwf order store hf) q
  · exact foldl_create_mem g defs hwf order store hf
  · exact fun j hj => foldl_create_other g defs order store j hj
  · exact foldl_create_faithful g defs hwf order store hf

/-- **Re-running is idempotent**: the same script against the database it left behind returns the same rows
and leaves the same tables. -/
theorem rerun_idempotent (g : Nat → Bool) (defs : List PredDef) (order : List Nat) (q : Nat) (store : Store)
    (hwf : WF defs) (hf : Faithful defs store) :
    let r1 := runScript g defs order q store
    let r2 := runScript g defs order q r1.1
    r2.2 = r1.2 ∧ ∀ j, r2.1 j = r1.1 j := by
  have h1 := run_faithful g defs order q store hwf hf
  have h2 := run_faithful g defs order q (runScript g defs order q store).1 hwf h1.2.2.2
  refine ⟨by rw [h2.1, h1.1], ?_⟩
  intro j
  by_cases hj : j ∈ order
  · rw [h2.2.1 j hj, h1.2.1 j hj]
  · exact h2.2.2.1 j hj

/-- Any history of runs (scripts for any requested predicates of the same program) keeps the database
faithful: the tables of grounded predicates are functions of the program only. -/
theorem history_faithful (g : Nat → Bool) (defs : List PredDef) (hwf : WF defs) :
    ∀ (history : List (List Nat × Nat)) (store : Store), Faithful defs store →
      Faithful defs (history.foldl (fun s h => (runScript g defs h.1 h.2 s).1) store) := by
  intro history
  induction history with
  | nil => intro s h; exact h
  | cons h history ih =>
    intro s hf
    exact ih _ (run_faithful g defs h.1 h.2 s hwf hf).2.2.2

/-- **Asking for a grounded predicate itself prints it without writing it**: the requested predicate is not
among the created tables, so its table is left exactly as it was. -/
theorem print_without_write (g : Nat → Bool) (defs : List PredDef) (order : List Nat) (q : Nat) (store : Store)
    (hq : q ∉ order) : (runScript g defs order q store).1 q = store q :=
  foldl_create_other g defs order store q hq

/-- Non-vacuity: two predicates, the second reads the first (grounded); the empty database is faithful. -/
example :
    let defs : List PredDef := [⟨fun _ => [[1], [2]]⟩, ⟨fun f => (f 0).map (fun r => r.map (· + 1))⟩]
    WF defs ∧ Faithful defs (fun _ => none) ∧ den defs 1 = [[2], [3]] := by
  refine ⟨?_, ?_, by decide⟩
  · intro i d hd f g' hfg
    match i, hd with
    | 0, hd => simp at hd; subst hd; rfl
    | 1, hd =>
      simp at hd; subst hd
      show (f 0).map _ = (g' 0).map _
      rw [hfg 0 (by decide)]
    | n + 2, hd => simp at hd
  · intro j t h; cases h

end Logica.Ground
