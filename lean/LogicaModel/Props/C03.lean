import LogicaModel.Fix
import LogicaModel.Sem
/-!
# C03 — recursion is the bounded iteration, and the least fixpoint once it converges
-/
namespace Logica.Fix

variable {α : Type} {T : SetOf α → SetOf α}

/-- The rounds grow: what is derivable in `n` applications is derivable in `n + 1`. -/
theorem iter_mono_step (hT : Monotone T) : ∀ n, Subset (iter T n) (iter T (n + 1))
  | 0 => fun _ h => absurd h id
  | n + 1 => hT _ _ (iter_mono_step hT n)

theorem iter_mono (hT : Monotone T) {m n : Nat} (h : m ≤ n) : Subset (iter T m) (iter T n) := by
  induction h with
  | refl => exact fun _ hx => hx
  | step _ ih => exact fun x hx => iter_mono_step hT _ x (ih x hx)

/-- **Nothing outside the least fixpoint**: every bounded iteration stays inside every set closed under the
rules, in particular inside the least fixed point — for every depth. -/
theorem bounded_within_closed (hT : Monotone T) (S : SetOf α) (hS : PreFixed T S) :
    ∀ n, Subset (iter T n) S
  | 0 => fun _ h => absurd h id
  | n + 1 => fun x hx => hS x (hT _ _ (bounded_within_closed hT S hS n) x hx)

theorem bounded_within_lfp (hT : Monotone T) (L : SetOf α) (hL : IsLeastFixed T L) (n : Nat) :
    Subset (iter T n) L :=
  bounded_within_closed hT L (fun x hx => (hL.1 x).mp hx) n

/-- **Equal to the least fixpoint whenever it is reached within the depth**: if one more application
changes nothing, the bounded iteration *is* the least fixed point. -/
theorem converged_is_lfp (hT : Monotone T) (n : Nat)
    (hconv : ∀ x, iter T (n + 1) x ↔ iter T n x) : IsLeastFixed T (iter T n) := by
  refine ⟨fun x => hconv x, ?_⟩
  intro S hS
  exact bounded_within_closed hT S hS n

/-- Once converged the result no longer depends on the depth. -/
theorem converged_stable (hT : Monotone T) (n : Nat)
    (hconv : ∀ x, iter T (n + 1) x ↔ iter T n x) : ∀ k x, iter T (n + k) x ↔ iter T n x := by
  intro k
  induction k with
  | zero => intro x; exact Iff.rfl
  | succ k ih =>
    intro x
    have e : iter T (n + (k + 1)) = T (iter T (n + k)) := rfl
    rw [e]
    have h1 : Subset (T (iter T (n + k))) (T (iter T n)) := hT _ _ (fun y hy => (ih y).mp hy)
    have h2 : Subset (T (iter T n)) (T (iter T (n + k))) := hT _ _ (fun y hy => (ih y).mpr hy)
    constructor
    · intro hx; exact (hconv x).mp (h1 x hx)
    · intro hx; exact h2 x ((hconv x).mpr hx)

/-- Everything derivable within `m ≤ n` rounds is contained in the depth-`n` result. -/
theorem contains_derivable_within_bound (hT : Monotone T) {m n : Nat} (h : m ≤ n) (x : α)
    (hx : iter T m x) : iter T n x := iter_mono hT h x hx

/-- Non-vacuity: the successor-below-3 operator on naturals is monotone, converges after 4 rounds and its
3rd iterate is not yet the fixpoint. -/
example : let T : SetOf Nat → SetOf Nat := fun S x => x = 0 ∨ ∃ y, S y ∧ x = y + 1 ∧ y < 3
    Monotone T ∧ iter T 2 1 ∧ ¬ iter T 1 1 := by
  refine ⟨?_, ?_, ?_⟩
  · intro a b hab x hx
    rcases hx with h | ⟨y, hy, h1, h2⟩
    · exact Or.inl h
    · exact Or.inr ⟨y, hab y hy, h1, h2⟩
  · exact Or.inr ⟨0, Or.inl rfl, rfl, by decide⟩
  · intro h
    rcases h with h | ⟨y, hy, _, _⟩
    · cases h
    · exact hy

end Logica.Fix

namespace Logica.Sem

/-- The executable reference (`Sem.iterate`, what the correspondence check runs against SQLite) performs
exactly `n` simultaneous applications: one more round is one application of all rules of the group to the
relations of the previous round. -/
theorem iterate_succ (rules : List Rule) (ps : List String) (n : Nat) (db : DB) :
    iterate rules ps (n + 1) db =
      (do let news ← mapM' (fun p => do pure (p, ← predRows db rules p)) ps
          iterate rules ps n (news.foldl (fun d pr => setRel d pr.1 pr.2) db)) := rfl

theorem iterate_zero (rules : List Rule) (ps : List String) (db : DB) : iterate rules ps 0 db = .ok db := rfl

end Logica.Sem
