import LogicaModel.TypeAlgLemmas
/-!
# C16 — type unification is a symmetric idempotent meet

`meet a b` is the view (`VeryConcreteType`, clash payload erased) that *both* references have after
`Unify(a, b)`; the correspondence check ties it to `reference_algebra.Unify` on every run, in both
argument orders, and checks on the real references that both sides do end with the same view.
All theorems are for type terms of any depth and any field alphabet.
-/
namespace Logica.TypeAlg

/-- Same outcome in either argument order — for *all* type terms, clashing ones included. -/
theorem unify_symmetric (a b : Ty) : meet a b = meet b a := meet_comm a b

/-- Unifying a clash-free type with itself changes nothing. -/
theorem unify_idempotent (a : Ty) (h : a.WF) : meet a a = a := meet_idem a h

/-- Repeating a unification changes nothing: the result already is below `b` (and, by symmetry, `a`). -/
theorem unify_repeat (a b : Ty) (ha : a.WF) (hb : b.WF) :
    meet (meet a b) b = meet a b ∧ meet (meet a b) a = meet a b := by
  refine ⟨meet_absorb a b ha hb, ?_⟩
  rw [meet_comm a b]
  exact meet_absorb b a hb ha

/-- `Any` carries no information: it is the unit of `meet`. -/
theorem unify_any (a : Ty) : meet .any a = a ∧ meet a .any = a := by
  cases a <;> simp [meet]

/-- Every record field known on either side is present in a merged record. -/
theorem unify_keeps_fields (f1 f2 : Fields) (k : Nat) (h : k ∈ f1.keys ∨ k ∈ f2.keys) :
    k ∈ (mergeF f1 f2).keys := (mem_keys_mergeF f1 f2 k).mpr h

/-- ... and no field is invented. -/
theorem unify_no_new_fields (f1 f2 : Fields) (k : Nat) (h : k ∈ (mergeF f1 f2).keys) :
    k ∈ f1.keys ∨ k ∈ f2.keys := (mem_keys_mergeF f1 f2 k).mp h

/-- Different ground types clash; a list never unifies with a scalar or a record; a closed record
missing an addressed field clashes (the three generators of "no common instance"). -/
theorem clash_generators :
    meet .num .str = .bad ∧ meet .str .bool = .bad ∧ meet .num .time = .bad ∧
    (∀ e, meet (.list e) .num = .bad) ∧ (∀ e, meet .singular (.list e) = .bad) ∧
    (∀ e c f, meet (.list e) (.record c f) = .bad) ∧
    (∀ f1 f2, f1.subKeys f2 = false → meet (.record false f1) (.record true f2) = .bad) := by
  refine ⟨by simp [meet], by simp [meet], by simp [meet], ?_, ?_, ?_, ?_⟩
  · intro e; simp [meet]
  · intro e; simp [meet]
  · intro e c f; simp [meet]
  · intro f1 f2 h; simp [meet, h]

/-- Non-vacuity: the hypotheses are met by a nested record/list term, and the meet is informative. -/
example :
    let a := Ty.record false (.cons 1 (.list .any) (.cons 3 .singular .nil))
    let b := Ty.record true (.cons 1 (.list .num) (.cons 3 .str (.cons 5 .bool .nil)))
    a.WF ∧ b.WF ∧
    meet a b = Ty.record true (.cons 1 (.list .num) (.cons 3 .str (.cons 5 .bool .nil))) := by
  simp [Ty.WF, Fields.WFs, Fields.Sorted, meet, mergeF, Fields.subKeys, Fields.keys, Fields.lookup]

end Logica.TypeAlg
