import LogicaModel.OrderLimitLemmas
/-!
# C18 — order_by and limit select the first K rows in the given order
-/
namespace Logica.OrderLimit

variable {le : Row → Row → Bool}

/-- `le` is a total order on the rows at hand (the property's "total order over the ordered
predicate's rows": no ties). -/
structure TotalOn (le : Row → Row → Bool) (rows : List Row) : Prop where
  trans : ∀ a b c, le a b → le b c → le a c
  total : ∀ a b, le a b || le b a
  antisymm : ∀ a b, a ∈ rows → b ∈ rows → le a b → le b a → a = b

/-- **The ordered result is determined.** Whatever algorithm the SQL engine uses, any output that is a
permutation of the predicate's rows and is sorted by the requested order is *the* list
`sortRows rows`; so "the rows in the requested order" is a function of the denoted multiset. -/
theorem ordered_result_unique (rows out : List Row) (h : TotalOn le rows)
    (hperm : out.Perm rows) (hsorted : out.Pairwise (fun a b => le a b)) :
    out = sortRows le rows := by
  have hp : out.Perm (sortRows le rows) := hperm.trans (sortRows_perm (le := le) rows).symm
  have hs : (sortRows le rows).Pairwise (fun a b => le a b) :=
    pairwise_sortRows (le := le) h.trans h.total rows
  refine List.Perm.eq_of_pairwise (le := fun a b => le a b = true) ?_ hsorted hs hp
  intro a b ha hb hab hba
  have ha' : a ∈ rows := hperm.subset ha
  have hb' : b ∈ rows := (sortRows_perm (le := le) rows).subset hb
  exact h.antisymm a b ha' hb' hab hba

/-- **Every K is honoured** (0 included): with the emitted LIMIT clause the predicate evaluates to the
first `k` rows of the sorted list. -/
theorem ordered_limited_result (rows : List Row) (k : Nat) :
    evalOrdered le (carriedLimit (some (k : Int))) rows = (sortRows le rows).take k := by
  have : ¬ ((k : Int) < 0) := by omega
  simp [evalOrdered, carriedLimit, this]

/-- At the pinned commit `LIMIT 0` was dropped: the predicate returned every row (finding F5). -/
theorem pinned_limit_zero_counterexample :
    evalOrdered (lexLe [⟨0, false⟩]) (carriedLimitPinned (some 0)) [[2], [1]] ≠
      (sortRows (lexLe [⟨0, false⟩]) ([[2], [1]] : List Row)).take 0 := by
  decide

/-- The truncated rows are a prefix of the order: everything kept is `≤` everything cut off. -/
theorem kept_before_dropped (rows : List Row) (k : Nat) (h : TotalOn le rows) :
    ∀ x ∈ (sortRows le rows).take k, ∀ y ∈ (sortRows le rows).drop k, le x y = true := by
  have hs : (sortRows le rows).Pairwise (fun a b => le a b) :=
    pairwise_sortRows (le := le) h.trans h.total rows
  intro x hx y hy
  have := List.pairwise_append.mp (by rw [List.take_append_drop]; exact hs :
    ((sortRows le rows).take k ++ (sortRows le rows).drop k).Pairwise (fun a b => le a b))
  exact this.2.2 x hx y hy

/-- A consumer reading the annotated predicate sees exactly those K rows, as a multiset: any
re-ordering of the truncated list by the consumer's own plan is a permutation of it, and it is a
sub-multiset of the predicate's rows of size `min k n`. -/
theorem consumer_reads_truncated (rows : List Row) (k : Nat) :
    (evalOrdered le (carriedLimit (some (k : Int))) rows).length = min k rows.length ∧
    (evalOrdered le (carriedLimit (some (k : Int))) rows).Sublist (sortRows le rows) := by
  rw [ordered_limited_result]
  refine ⟨?_, List.take_sublist _ _⟩
  simp [List.length_take, (sortRows_perm (le := le) rows).length_eq]

/-- A predicate with `@OrderBy` keys or `@Limit k` — for **every** k — is never injected, so neither
clause can be lost by inlining. -/
theorem never_injected (ob : Option (List String)) (lim : Option Int) (g n w : Bool)
    (h : (∃ x xs, ob = some (x :: xs)) ∨ lim.isSome) : okInjection ob lim g n w = false := by
  rcases h with ⟨x, xs, rfl⟩ | h
  · simp [okInjection]
  · simp [okInjection, h]

/-- At the pinned commit `@Limit(P, 0)` made `P` injectible. -/
theorem pinned_limit_zero_injectible : okInjectionPinned none (some 0) false false false = true := by
  decide

/-- Without annotations a predicate stays injectible (the decision is not constantly false). -/
example : okInjection none none false false false = true := by decide

/-- Non-vacuity of `TotalOn`: three rows ordered by (col0 asc, col1 desc). -/
example : evalOrdered (lexLe [⟨0, false⟩, ⟨1, true⟩]) (carriedLimit (some 2)) [[2, 1], [1, 1], [1, 5]]
    = [[1, 5], [1, 1]] := by decide

end Logica.OrderLimit
