import LogicaModel.AggLemmas
import LogicaModel.Sem
import LogicaModel.CQLemmas
/-!
# C02 — aggregation, distinct and negation follow the documented semantics

Aggregates over bags of nullable integers (`none` = null). `Sem.aggregate` (the executable reference that
the correspondence runs against SQLite) implements the same folds on `Val`.
-/
namespace Logica.Agg

/-- **Built-in aggregates ignore null inputs**: adding any number of nulls anywhere changes nothing. -/
theorem agg_ignores_null (l : List (Option Int)) (n : Nat) :
    sumN (l ++ List.replicate n none) = sumN l ∧ minN (l ++ List.replicate n none) = minN l ∧
    maxN (l ++ List.replicate n none) = maxN l ∧ countN (l ++ List.replicate n none) = countN l := by
  simp [sumN, minN, maxN, countN, vals_append, vals_nulls]

theorem agg_ignores_null_front (l : List (Option Int)) :
    sumN (none :: l) = sumN l ∧ minN (none :: l) = minN l ∧ maxN (none :: l) = maxN l ∧ countN (none :: l) = countN l := by
  simp [sumN, minN, maxN, countN, vals]

/-- **Aggregating nothing gives null** (also when every input is null); Count gives 0. -/
theorem agg_empty_null (n : Nat) :
    sumN (List.replicate n none) = none ∧ minN (List.replicate n none) = none ∧
    maxN (List.replicate n none) = none ∧ countN (List.replicate n none) = 0 := by
  simp [sumN, minN, maxN, countN, vals_nulls, minL, maxL]

/-- **Row-arrival order does not matter** for Sum, Min and Max. -/
theorem agg_perm {a b : List (Option Int)} (h : a.Perm b) :
    sumN a = sumN b ∧ minN a = minN b ∧ maxN a = maxN b := by
  have hv := vals_perm h
  refine ⟨?_, minL_perm hv, maxL_perm hv⟩
  unfold sumN
  have hs := foldl_add_perm hv 0
  cases ha : vals a with
  | nil =>
    have : vals b = [] := by
      have := hv.length_eq; rw [ha] at this; exact List.eq_nil_of_length_eq_zero this.symm
    simp [this]
  | cons x xs =>
    cases hb : vals b with
    | nil =>
      have := hv.length_eq; rw [ha, hb] at this; simp at this
    | cons y ys =>
      rw [ha, hb] at hs
      simp [hs]

/-- Min returns an input, and no input is smaller (the fold really is the minimum). -/
theorem minL_spec (a : Int) (l : List Int) : ∀ x ∈ a :: l, l.foldl min a ≤ x := by
  induction l generalizing a with
  | nil => intro x hx; simp at hx; subst hx; exact Int.le_refl _
  | cons b l ih =>
    intro x hx
    simp only [List.foldl]
    have h1 := ih (min a b)
    simp only [List.mem_cons] at hx
    rcases hx with rfl | rfl | hx
    · have := h1 (min x b) (by simp); omega
    · have := h1 (min a x) (by simp); omega
    · exact h1 x (by simp [hx])

example : sumN [some 3, none, some 4] = some 7 ∧ minN [none, some 5, some 2] = some 2 ∧ countN [some 1, some 1, none] = 1 := by decide

end Logica.Agg

namespace Logica.Sem

/-- **A negated proposition holds exactly when it has no solution** (reference semantics): with a ready
negation as the only conjunct left, the environment survives iff the negated body has no solution under it.
This is the semantics of `IsNull(combine Min= 1 :- body)`: the aggregate over no solution is null. -/
theorem negation_spec (db : DB) (n : Nat) (env : Env) (q : Prp) (sols : List Env)
    (h : solve db n env [q] = .ok sols) (hready : (pickReady n env [] [mkItem (.neg q)]) = some (.neg q, [])) :
    solveI db (n + 1) env [mkItem (.neg q)] = (if sols.isEmpty then solveI db n env [] else .ok []) := by
  simp [solveI, hready, h]
  rfl

end Logica.Sem

namespace Logica.CQ

/-- **Aggregation happens over exactly the denoted bag** (conjunctive fragment): grouping and aggregating the
rows of the compiled UNION ALL gives the aggregate of the documented semantics — the bag of solutions of all
rules with equal key values — for every database, every number of key columns and every operator. -/
theorem distinct_compile_correct_partial (db : DB) (n : Nat) (op : AggOp) (rs : List Rule)
    (har : ∀ r ∈ rs, ArityOK db r) :
    evalGroupBy db n op (rs.map compile) = denoteDistinct db n op rs := by
  unfold evalGroupBy denoteDistinct
  rw [compile_rules_correct db rs har]

example :
    let db : DB := fun p => if p = "a" then [[1, 2], [1, 2], [1, 5], [3, 4]] else []
    let r : Rule := ⟨[.var 0, .var 1], [⟨"a", [.var 0, .var 1]⟩]⟩
    denoteDistinct db 1 .sum [r] = [[1, 9], [3, 4]] ∧ denoteDistinct db 1 .count [r] = [[1, 2], [3, 1]] ∧
    evalGroupBy db 1 .min [compile r] = [[1, 2], [3, 4]] := by
  decide

end Logica.CQ
