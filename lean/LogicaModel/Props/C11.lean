import LogicaModel.Sugar
import LogicaModel.AggLemmas
/-!
# C11 — documented shorthand forms mean the same as their long forms

The shorthands are desugared by the parser; what can be *proved* is that the long forms they are desugared
into mean what the documentation says, in every context (any surrounding conjunction, any environment):
on the bag semantics of propositions (`Sugar`).  That the parser really produces those long forms, and that
positional arguments / `a:` / `F(x) = v` / the three combine syntaxes / `P(k) Op= e` — which are pure naming
conventions — compile alike, is decided by the oracle: every occurrence of a shorthand in generated programs
is rewritten into its long form and both programs are run on SQLite (`_partial`).
-/
namespace Logica.Sugar
variable {E : Type}

theorem maxOne_none_iff (a : Sol E) (e : E) : maxOne a e = none ↔ a e = [] := by
  unfold maxOne Agg.maxN
  cases h : a e with
  | nil => simp [Agg.vals, Agg.maxL]
  | cons x xs => simp [Agg.vals, Agg.maxL]

/-- **`~P` equals `Max{1 :- P} is null`**, under every environment. -/
theorem neg_eq_aggregate (a : Sol E) : neg a = negAsAggregate a := by
  funext e
  unfold neg negAsAggregate
  by_cases h : a e = []
  · simp [h, (maxOne_none_iff a e).mpr h]
  · have : maxOne a e ≠ none := fun hh => h ((maxOne_none_iff a e).mp hh)
    simp [h, this]

theorem neg_eq_nil (x : Sol E) (e : E) : neg x e = [] ↔ x e ≠ [] := by
  unfold neg
  by_cases h : x e = [] <;> simp [h]

/-- **`A => B` equals `~(A, ~B)`** and that means: every solution of `A` can be extended to one of `B`. -/
theorem impl_spec (a b : Sol E) (e : E) : holds (impl a b) e ↔ ∀ e' ∈ a e, holds b e' := by
  have h1 : holds (impl a b) e ↔ conj a (neg b) e = [] := by
    unfold holds impl
    constructor
    · intro h
      by_cases hc : conj a (neg b) e = []
      · exact hc
      · exact absurd ((neg_eq_nil _ e).mpr hc) h
    · intro h hn
      exact ((neg_eq_nil _ e).mp hn) h
  rw [h1]
  unfold conj holds
  rw [List.flatMap_eq_nil_iff]
  constructor
  · intro h e' he'; exact (neg_eq_nil b e').mp (h e' he')
  · intro h e' he'; exact (neg_eq_nil b e').mpr (h e' he')

/-- **`x in [a, b]` equals two alternatives** (and `in` over any literal list equals the disjunction of its
elements, with multiplicities). -/
theorem in_two (V : Type) (u : V → Sol E) (a b : V) : inList u [a, b] = disj (u a) (u b) := by
  funext e; simp [inList, disj]

theorem in_cons (V : Type) (u : V → Sol E) (v : V) (vs : List V) : inList u (v :: vs) = disj (u v) (inList u vs) := by
  funext e; simp [inList, disj]

/-- **Several rules equal one rule with `|`**: the rows of the rule whose body is `A | B` are the rows of the
rule with body `A` followed by the rows of the rule with body `B`. -/
theorem rules_eq_disjunction (R : Type) (h : E → R) (a b : Sol E) (e0 : E) :
    rows h (disj a b) e0 = rows h a e0 ++ rows h b e0 := by
  simp [rows, disj]

/-- **Disjunction distributes out of any context** (the parser's DNF rewrite) — on the right exactly … -/
theorem dnf_right (a b c : Sol E) : conj (disj a b) c = disj (conj a c) (conj b c) := by
  funext e; simp [conj, disj, List.flatMap_append]

theorem flatMap_append_perm {α β : Type} (f g : α → List β) : ∀ (l : List α),
    (l.flatMap fun x => f x ++ g x).Perm (l.flatMap f ++ l.flatMap g)
  | [] => by simp
  | x :: xs => by
    simp only [List.flatMap_cons]
    have ih := flatMap_append_perm f g xs
    calc (f x ++ g x ++ xs.flatMap fun x => f x ++ g x)
        _ |>.Perm (f x ++ g x ++ (xs.flatMap f ++ xs.flatMap g)) := List.Perm.append_left _ ih
        _ |>.Perm (f x ++ xs.flatMap f ++ (g x ++ xs.flatMap g)) := by
          simp only [List.append_assoc]
          apply List.Perm.append_left
          rw [← List.append_assoc, ← List.append_assoc]
          exact List.Perm.append_right _ List.perm_append_comm

/-- … and on the left as bags: each solution of the context meets both alternatives, nothing is lost or
duplicated. -/
theorem dnf_left (a b c : Sol E) (e : E) : (conj c (disj a b) e).Perm (disj (conj c a) (conj c b) e) := by
  exact flatMap_append_perm a b (c e)

/-- double negation keeps the environment exactly when the proposition has a solution (used by `A => B`) -/
theorem neg_neg (a : Sol E) (e : E) : neg (neg a) e = if a e = [] then [] else [e] := by
  unfold neg
  by_cases h : a e = [] <;> simp [h]

example : impl (fun (e : Nat) => [e + 1, e + 2]) (fun e => if e < 5 then [e] else []) 0 = [0] ∧
    impl (fun (e : Nat) => [e + 1, e + 7]) (fun e => if e < 5 then [e] else []) 0 = [] := by
  decide

end Logica.Sugar
