import LogicaModel.Imports
/-!
# C12 — imports isolate modules: distinct files never share a predicate prefix
-/
namespace Logica.Imports

theorem choosePrefix_fresh (existing : List String) (parts : List String) :
    ∀ (fuel k : Nat) (pre : String), choosePrefix existing parts fuel k = some pre → pre ∉ existing := by
  intro fuel
  induction fuel with
  | zero =>
    intro k pre h
    unfold choosePrefix at h
    split at h
    · cases h
    · rename_i hc; injection h with h; subst h
      simpa using hc
  | succ fuel ih =>
    intro k pre h
    unfold choosePrefix at h
    split at h
    · exact ih (k + 1) pre h
    · rename_i hc; injection h with h; subst h
      simpa using hc

/-- **Same-named private predicates of different files never collide**: the prefix given to a newly parsed
file differs from the prefix of every file parsed before. -/
theorem prefix_fresh (existing : List String) (parts : List String) (pre : String)
    (h : filePrefix existing parts = some pre) : pre ∉ existing :=
  choosePrefix_fresh existing parts _ 0 pre h

/-- Whenever a whole import sequence is accepted, all files got pairwise different prefixes. -/
theorem prefixes_unique : ∀ (files : List (List String)) (acc out : List String),
    acc.Nodup → assign files acc = some out → out.Nodup := by
  intro files
  induction files with
  | nil => intro acc out hn h; simp [assign] at h; subst h; exact hn
  | cons p rest ih =>
    intro acc out hn h
    unfold assign at h
    split at h
    · cases h
    · rename_i pre hp
      apply ih (acc ++ [pre]) out _ h
      have hfresh := prefix_fresh acc p pre hp
      exact List.nodup_append.mpr ⟨hn, by simp, by
        intro a ha b hb
        simp at hb; subst hb
        intro e; subst e; exact hfresh ha⟩

/-- Two files with the same base name in different directories are both accepted (repaired code) … -/
example : assign [["a", "util"], ["b", "util"]] [] = some ["Util_", "bUtil_"] := by decide

/-- … while the pinned loop rejected the second one (finding F4). -/
theorem pinned_shared_base_counterexample : filePrefixPinned ["Util_"] ["b", "util"] = none := by decide

/-- three levels: `x.y.util`, `x.z.util`, `w.y.util` -/
example : assign [["x", "y", "util"], ["x", "z", "util"], ["w", "y", "util"]] [] = some ["Util_", "zUtil_", "yUtil_"] := by decide

end Logica.Imports
