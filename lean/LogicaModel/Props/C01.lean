import LogicaModel.CQLemmas
/-!
# C01 — compiled SQL returns exactly the multiset the program denotes

The full statement quantifies over the whole core fragment.  What is *proved* here is the statement for the
conjunctive fragment F0 (atoms over variables and constants, repeated variables, constants in atoms, facts,
several rules per predicate): a verified compiler from rules to SELECT / FROM / WHERE that the check shows
to emit *literally the text structure* the real compiler emits (same FROM items in the same order, same
WHERE equalities in the same order and orientation, same SELECT list), together with a bag semantics of that SQL
shape that the check validates against SQLite on random tables.  The rest of the fragment (arithmetic, lists,
records, if-then-else, functional and injectible predicates, disjunction) is decided by the executable
reference semantics `Sem.denote` in correspondence with the real pipeline — hence `_partial`.
-/
namespace Logica.CQ

/-- **C01 on the conjunctive fragment**: executing the emitted SELECT returns exactly the rows (with
multiplicities, even in the same order) that the nested-loop semantics assigns to the rule. -/
theorem compile_correct_partial (db : DB) (r : Rule) (har : ArityOK db r) :
    evalSelect db (compile r) = denote db r :=
  compile_correct db r har

/-- **Several rules add multiplicities**: the UNION ALL of the compiled rules is the concatenation of the
denotations of the rules. -/
theorem rules_add (db : DB) (rs : List Rule) (har : ∀ r ∈ rs, ArityOK db r) :
    evalUnion db (rs.map compile) = denoteRules db rs :=
  compile_rules_correct db rs har

/-- **… with arithmetic in heads and comparisons in bodies**: heads are arithmetic expressions (+, -, *) over
variables and constants, bodies are atoms plus comparisons (<, <=, >, >=, !=, ==) between such expressions. -/
theorem compile_arith_cmp_correct_partial (db : DB) (r : XRule)
    (har : ∀ a ∈ r.body, ∀ row ∈ db a.pred, row.length = a.args.length) :
    evalXSelect db (xcompile r) = xdenote db r :=
  xcompile_correct db r har

example :
    let db : DB := fun p => if p = "a" then [[1, 2], [1, 2], [3, 1], [2, 5]] else []
    let r : XRule := ⟨[.bin .add (.term (.var 0)) (.term (.const 1)), .bin .mul (.term (.var 1)) (.term (.var 0))],
                      [⟨"a", [.var 0, .var 1]⟩], [(.lt, .term (.var 0), .term (.var 1)), (.ne, .bin .sub (.term (.var 1)) (.term (.var 0)), .term (.const 3))]⟩
    xdenote db r = [[2, 2], [2, 2]] ∧ evalXSelect db (xcompile r) = [[2, 2], [2, 2]] := by
  decide

theorem solve_append (db : DB) : ∀ (as bs : List Atom) (env : Env),
    solve db (as ++ bs) env = (solve db as env).flatMap (solve db bs)
  | [], bs, env => by simp [solve]
  | a :: as, bs, env => by
    simp only [List.cons_append, solve, List.flatMap_assoc]
    congr 1
    funext row
    cases h : matchArgs a.args row env with
    | none => simp
    | some e => simpa using solve_append db as bs e

/-- **Conjunction multiplies multiplicities**: the solutions of `A, B` are, for every solution of `A`, the
solutions of `B` under it — so a row derived `m` times by `A` and, given it, `n` times by `B` appears `m·n` times. -/
theorem conjunction_multiplies (db : DB) (as bs : List Atom) :
    (solve db (as ++ bs) []).length = ((solve db as []).map (fun e => (solve db bs e).length)).sum := by
  rw [solve_append, List.length_flatMap]

/-- the hypotheses are satisfiable and the statement is not trivial: a self-join with a repeated variable
and a constant over a table with a duplicate row -/
example :
    let db : DB := fun p => if p = "a" then [[1, 2], [1, 2], [2, 2], [3, 4]] else [[2, 7]]
    let r : Rule := ⟨[.var 0, .var 2, .const 5], [⟨"a", [.var 0, .var 1]⟩, ⟨"a", [.var 1, .var 1]⟩, ⟨"b", [.var 1, .var 2]⟩]⟩
    evalSelect db (compile r) = [[1, 7, 5], [1, 7, 5], [2, 7, 5]] ∧ denote db r = [[1, 7, 5], [1, 7, 5], [2, 7, 5]] := by
  decide

end Logica.CQ
