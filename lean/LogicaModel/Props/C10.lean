import LogicaModel.EscapeLemmas
/-!
# C10 — string literals and flag values are data, never SQL

Property theorems only.  `lex_strLiteral` is the unbounded statement: for every dialect, every string
and every continuation that does not start with a quote, the text emitted by `StrLiteral` is read back
by that dialect's lexical rule as exactly the original string, ending exactly where it should.
-/
namespace Logica.Escape

/-- **C10, main theorem.**  For every dialect `d`, every string `s` and every continuation `rest`
that does not continue the literal: the text `StrLiteral` emits, followed by `rest`, is read by `d`'s
lexical rule as one literal whose content is `s` character for character, and reading stops exactly
before `rest`. No bound on length or alphabet. -/
theorem lex_strLiteral (d : Dialect) (s rest : Str) (h : NoCont (fam d) rest) :
    lexDialect d (strLiteral d s ++ rest) = some (s, rest) := by
  cases d <;>
    simp [lexDialect, strLiteral, strLiteralFam, fam, openQ, closeQ, escBody, lexFam, NoCont] at h ⊢
  all_goals first
    | exact lex_plain s rest h
    | exact lex_bslash s rest h
    | exact lex_estr s rest h
    | exact lex_json s rest

/-- The literal is one token: what follows it is untouched, whatever `s` contains. -/
theorem literal_same_shape (d : Dialect) (s s' rest : Str) (h : NoCont (fam d) rest) :
    (lexDialect d (strLiteral d s ++ rest)).map (·.2) =
    (lexDialect d (strLiteral d s' ++ rest)).map (·.2) := by
  rw [lex_strLiteral d s rest h, lex_strLiteral d s' rest h]; rfl

/-- The pinned commit's ClickHouse branch (no backslash escaping) does **not** round-trip: the
one-character string `\` is emitted as `'\'`, whose backslash swallows the closing quote. This is the
witness of finding F6; the property theorem above is about the repaired code. -/
theorem clickhouse_pinned_counterexample :
    lexFam .bslash (strLiteralPinned .clickhouse ['\\'] ++ [' ', 'x']) ≠ some (['\\'], [' ', 'x']) := by
  decide

/-- Non-vacuity: a hostile string really goes through every dialect. -/
example : ∀ d : Dialect,
    lexDialect d (strLiteral d "a'b\\\"\n${x}%s{0}--/*".toList ++ ", 1)".toList)
      = some ("a'b\\\"\n${x}%s{0}--/*".toList, ", 1)".toList) := by
  intro d; exact lex_strLiteral d _ _ (by cases d <;> simp [NoCont, fam])

/-! ## flags -/

/-- Substitution terminates by construction (`useFlags` is a total function with fuel 100) and its
result is one of the two documented outcomes. -/
theorem flags_terminate (flags : List (Str × Str)) (sql : Str) :
    (∃ out, useFlags flags sql = .ok out) ∨ useFlags flags sql = .recursiveFlags := by
  cases h : useFlags flags sql with
  | ok out => exact Or.inl ⟨out, rfl⟩
  | recursiveFlags => exact Or.inr rfl

/-- A text on which one round of substitution changes nothing (in particular a text that contains no
`${name}` of a defined flag) is returned unchanged. -/
theorem only_dollar_brace (flags : List (Str × Str)) (sql : Str)
    (h : substRound flags sql = sql) : useFlags flags sql = .ok sql := by
  unfold useFlags
  split
  · rfl
  · exact useFlagsAux_fixed flags 99 sql h

/-- Whenever expansion succeeds the result is a fixed point: no expandable `${flag}` is left. -/
theorem flags_result_fixed (flags : List (Str × Str)) (sql out : Str)
    (h : useFlags flags sql = .ok out) : substRound flags out = out := by
  unfold useFlags at h
  split at h
  · rename_i he
    injection h with h; subst h; subst he
    exact substRound_nil flags
  · exact useFlagsAux_ok_fixed flags 100 sql (substRound flags sql) out rfl h

/-- A key set by the user wins over the default and the `@ResetFlagValue` value. -/
theorem flags_override (defaults resets user : List (Str × Str)) (k v : Str) (vals : List (Str × Str))
    (hu : dictGet (dictUpdate [] user) k = some v)
    (hb : buildFlagValues defaults resets user = .ok vals) :
    dictGet vals k = some v := by
  simp only [buildFlagValues] at hb
  split at hb
  · injection hb with hb
    subst hb
    rw [dictGet_dictUpdate user _ k, hu]
  · cases hb

/-- A user flag that was never defined is rejected, not silently ignored. -/
theorem undefined_flag_rejected (defaults resets user : List (Str × Str)) (k v : Str)
    (hmem : (k, v) ∈ user) (hnot : k ∉ defaults.map (·.1)) (hsys : k ≠ "logica_default_engine".toList) :
    buildFlagValues defaults resets user = .undefinedFlags := by
  simp only [buildFlagValues]
  split
  · rename_i h
    have := List.all_eq_true.mp h (k, v) hmem
    simp only [List.contains_eq_mem, List.mem_append, List.mem_singleton, decide_eq_true_eq] at this
    rcases this with h1 | h2
    · exact absurd h1 hnot
    · exact absurd h2 hsys
  · rfl

example : useFlags [("a".toList, "${b}".toList), ("b".toList, "7".toList)] "x=${a};".toList
    = .ok "x=7;".toList := by decide
set_option maxRecDepth 100000 in
example : useFlags [("a".toList, "${a}x".toList)] "${a}".toList = .recursiveFlags := by decide

end Logica.Escape
