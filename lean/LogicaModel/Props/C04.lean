import LogicaModel.Subst
/-!
# C04 — functor application is predicate substitution
-/
namespace Logica.Subst

/-- **Substitution law.** A cloned body in which every predicate `A` is replaced by `σ A` means the
original body read in the program where `A` denotes what `σ A` denotes. -/
theorem rename_sat (σ : String → String) (ρ : String → Rel) (ν : Valuation) (b : Body) :
    sat ρ ν (rename σ b) ↔ sat (fun p => ρ (σ p)) ν b := by
  induction b with
  | atom p args => exact Iff.rfl
  | conj a b iha ihb => simp only [rename, sat, iha, ihb]
  | disj a b iha ihb => simp only [rename, sat, iha, ihb]
  | neg a ih => simp only [rename, sat, ih]
  | test x y => exact Iff.rfl

/-- Lifted to rules: the clone of `F` under `σ` derives exactly what `F` derives when its arguments are
read through `σ`; the head is renamed too (`N` for `F`, fresh names for intermediates). -/
theorem clone_derives (σ : String → String) (rules : List Rule) (ρ : String → Rel) (p : String) (row : List Int)
    (hinj : ∀ r ∈ rules, ∀ q, σ r.head = σ q → r.head = q) :
    derives (rules.map (fun r => { r with head := σ r.head, body := rename σ r.body })) ρ (σ p) row ↔
      derives rules (fun q => ρ (σ q)) p row := by
  constructor
  · rintro ⟨r', hr', hh, ν, hs, hrow⟩
    obtain ⟨r, hr, rfl⟩ := List.mem_map.mp hr'
    exact ⟨r, hr, hinj r hr p hh, ν, (rename_sat σ ρ ν r.body).mp hs, hrow⟩
  · rintro ⟨r, hr, hh, ν, hs, hrow⟩
    exact ⟨_, List.mem_map.mpr ⟨r, hr, rfl⟩, by simp [hh], ν, (rename_sat σ ρ ν r.body).mpr hs, hrow⟩

/-- **Only the bindings of predicates that occur matter**: two substitutions that agree on the predicates a
body mentions produce the same clone — so sharing one instantiated predicate between applications whose
restricted bindings are equal is sound … -/
theorem rename_congr (σ τ : String → String) (b : Body) (h : ∀ p ∈ preds b, σ p = τ p) :
    rename σ b = rename τ b := by
  induction b with
  | atom p args => simp [rename, h p (by simp [preds])]
  | conj a b iha ihb =>
    simp only [rename]
    rw [iha (fun p hp => h p (by simp [preds, hp])), ihb (fun p hp => h p (by simp [preds, hp]))]
  | disj a b iha ihb =>
    simp only [rename]
    rw [iha (fun p hp => h p (by simp [preds, hp])), ihb (fun p hp => h p (by simp [preds, hp]))]
  | neg a ih => simp only [rename]; rw [ih (fun p hp => h p (by simp [preds, hp]))]
  | test x y => rfl

/-- … and **two applications with different (restricted) bindings never share a result**: the cache key
determines the restricted binding list. -/
theorem callKey_injective (f g : String) (argsOf : List String) (σ τ : List (String × String))
    (h : callKey f argsOf σ = callKey g argsOf τ) :
    f = g ∧ σ.filter (fun kv => argsOf.contains kv.1) = τ.filter (fun kv => argsOf.contains kv.1) := by
  unfold callKey at h
  exact ⟨(Prod.mk.inj h).1, (Prod.mk.inj h).2⟩

/-- Predicates not mentioned keep their meaning: renaming with the identity outside `dom σ` leaves a body that
mentions no predicate of `dom σ` unchanged. -/
theorem rename_untouched (σ : String → String) (b : Body) (h : ∀ p ∈ preds b, σ p = p) : rename σ b = b := by
  have := rename_congr σ id b (by simpa using h)
  rw [this]
  induction b with
  | atom p args => rfl
  | conj a b iha ihb =>
    simp only [rename]
    rw [iha (fun p hp => h p (by simp [preds, hp])) (rename_congr σ id a (fun p hp => by simpa using h p (by simp [preds, hp]))),
        ihb (fun p hp => h p (by simp [preds, hp])) (rename_congr σ id b (fun p hp => by simpa using h p (by simp [preds, hp])))]
  | disj a b iha ihb =>
    simp only [rename]
    rw [iha (fun p hp => h p (by simp [preds, hp])) (rename_congr σ id a (fun p hp => by simpa using h p (by simp [preds, hp]))),
        ihb (fun p hp => h p (by simp [preds, hp])) (rename_congr σ id b (fun p hp => by simpa using h p (by simp [preds, hp])))]
  | neg a ih =>
    simp only [rename]
    rw [ih (fun p hp => h p (by simp [preds, hp])) (rename_congr σ id a (fun p hp => by simpa using h p (by simp [preds, hp])))]
  | test x y => rfl

/-- Chained applications compose as substitutions. -/
theorem rename_comp (σ τ : String → String) (b : Body) : rename τ (rename σ b) = rename (fun p => τ (σ p)) b := by
  induction b with
  | atom p args => rfl
  | conj a b iha ihb => simp only [rename, iha, ihb]
  | disj a b iha ihb => simp only [rename, iha, ihb]
  | neg a ih => simp only [rename, ih]
  | test x y => rfl

/-- Non-vacuity: `F(x) :- A(x) | B(x)`; `G := F(A: C, B: D)` acts as `G(x) :- C(x) | D(x)`. -/
example : rename (fun p => if p = "A" then "C" else if p = "B" then "D" else p) (.disj (.atom "A" [0]) (.atom "B" [0]))
    = .disj (.atom "C" [0]) (.atom "D" [0]) := by decide

end Logica.Subst
