/-
Built-in aggregate operators as folds over a bag of nullable integers (`none` = SQL null):
Sum, Min, Max, Count (distinct non-null).  These are the operators `Sem.aggregate` implements on `Val`;
here they are stated on `Option Int` so that their algebra can be proved.
-/
namespace Logica.Agg

/-- non-null inputs -/
def vals : List (Option Int) → List Int
  | [] => []
  | none :: l => vals l
  | some x :: l => x :: vals l

def sumN (l : List (Option Int)) : Option Int :=
  match vals l with
  | [] => none
  | v => some (v.foldl (· + ·) 0)

def minL : List Int → Option Int
  | [] => none
  | a :: l => some (l.foldl min a)

def maxL : List Int → Option Int
  | [] => none
  | a :: l => some (l.foldl max a)

def minN (l : List (Option Int)) : Option Int := minL (vals l)
def maxN (l : List (Option Int)) : Option Int := maxL (vals l)

def countN (l : List (Option Int)) : Nat := (vals l).eraseDups.length

end Logica.Agg
