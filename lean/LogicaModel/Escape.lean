/-
Model of `compiler/expr_translate.py: QL.StrLiteral` (per dialect), of the lexical rules by which each
SQL dialect reads a string literal back, and of `universe.py: UseFlagsAsParameters / BuildFlagValues`.

Strings are `List Char` (Python `str` without lone surrogates).  No imports outside core.
-/
namespace Logica.Escape

abbrev Str := List Char

inductive Dialect
  | sqlite | psql | presto | trino | clickhouse | duckdb | bigquery | databricks
  deriving DecidableEq, Repr

def Dialect.ofName : String → Option Dialect
  | "SqLite" => some .sqlite | "PostgreSQL" => some .psql | "Presto" => some .presto
  | "Trino" => some .trino | "ClickHouse" => some .clickhouse | "DuckDB" => some .duckdb
  | "BigQuery" => some .bigquery | "Databricks" => some .databricks | _ => none

/-- Which literal syntax `StrLiteral` uses for a dialect. -/
inductive Fam | plain | bslash | estr | json
  deriving DecidableEq, Repr

/-- As the code stands after the `fix:` commit for ClickHouse (backslash doubled there). -/
def fam : Dialect → Fam
  | .duckdb => .estr
  | .clickhouse => .bslash
  | .sqlite | .psql | .presto | .trino => .plain
  | .bigquery | .databricks => .json

/-- The code as found at the pinned commit: ClickHouse shared the `plain` branch. -/
def famPinned : Dialect → Fam
  | .clickhouse => .plain
  | d => fam d

/-! ### escaping, one source character at a time

`str.replace` chains in the Python are sequential, but no replacement introduces a character that a
later replacement matches, so they equal a per-character map (tied by correspondence). -/

def escPlain (c : Char) : Str := if c = '\'' then ['\'', '\''] else [c]

def escBslash (c : Char) : Str :=
  if c = '\\' then ['\\', '\\'] else if c = '\'' then ['\'', '\''] else [c]

def escE (c : Char) : Str :=
  if c = '\\' then ['\\', '\\']
  else if c = '\'' then ['\'', '\'']
  else if c = '\t' then ['\\', 't']
  else if c = '\n' then ['\\', 'n']
  else [c]

def hexDigit (n : Nat) : Char := if n < 10 then Char.ofNat (48 + n) else Char.ofNat (87 + n)

/-- `json.dumps(s, ensure_ascii=False)` per character. -/
def escJson (c : Char) : Str :=
  if c = '"' then ['\\', '"']
  else if c = '\\' then ['\\', '\\']
  else if c = '\n' then ['\\', 'n']
  else if c = '\r' then ['\\', 'r']
  else if c = '\t' then ['\\', 't']
  else if c = '\x08' then ['\\', 'b']
  else if c = '\x0c' then ['\\', 'f']
  else if c.toNat < 32 then ['\\', 'u', '0', '0', hexDigit (c.toNat / 16), hexDigit (c.toNat % 16)]
  else [c]

def escBody : Fam → Str → Str
  | .plain, s => s.flatMap escPlain
  | .bslash, s => s.flatMap escBslash
  | .estr, s => s.flatMap escE
  | .json, s => s.flatMap escJson

def openQ : Fam → Str
  | .plain => ['\''] | .bslash => ['\''] | .estr => ['E', '\''] | .json => ['"']
def closeQ : Fam → Char
  | .json => '"' | _ => '\''

def strLiteralFam (f : Fam) (s : Str) : Str := openQ f ++ escBody f s ++ [closeQ f]

/-- `QL.StrLiteral` for dialect `d`. -/
def strLiteral (d : Dialect) (s : Str) : Str := strLiteralFam (fam d) s
def strLiteralPinned (d : Dialect) (s : Str) : Str := strLiteralFam (famPinned d) s

/-! ### how each family of dialects reads a literal (the lexical specification) -/

def push (c : Char) (p : Str × Str) : Str × Str := (c :: p.1, p.2)

/-- Body of a standard-SQL single-quoted literal (quote doubling only; SQLite, PostgreSQL with
standard_conforming_strings, Presto, Trino): returns decoded content and the rest after the closing quote. -/
def lexPlainBody : Str → Option (Str × Str)
  | [] => none
  | c :: cs =>
    if c = '\'' then
      match cs with
      | [] => some ([], [])
      | d :: ds => if d = '\'' then (lexPlainBody ds).map (push '\'') else some ([], d :: ds)
    else (lexPlainBody cs).map (push c)

def unescBslash (d : Char) : Char :=
  if d = 'n' then '\n' else if d = 't' then '\t' else if d = 'r' then '\r'
  else if d = 'b' then '\x08' else if d = 'f' then '\x0c' else if d = '0' then '\x00'
  else if d = 'a' then '\x07' else if d = 'v' then '\x0b' else d

/-- Body of a single-quoted literal in which backslash escapes the next character and `''` is a quote
(ClickHouse; PostgreSQL/DuckDB `E'…'` strings). -/
def lexBslashBody : Str → Option (Str × Str)
  | [] => none
  | c :: cs =>
    if c = '\\' then
      match cs with
      | [] => none
      | d :: ds => (lexBslashBody ds).map (push (unescBslash d))
    else if c = '\'' then
      match cs with
      | [] => some ([], [])
      | d :: ds => if d = '\'' then (lexBslashBody ds).map (push '\'') else some ([], d :: ds)
    else (lexBslashBody cs).map (push c)

def hexVal (c : Char) : Option Nat :=
  let n := c.toNat
  if 48 ≤ n ∧ n ≤ 57 then some (n - 48)
  else if 97 ≤ n ∧ n ≤ 102 then some (n - 87)
  else if 65 ≤ n ∧ n ≤ 70 then some (n - 55)
  else none

/-- Scanner state inside a double-quoted literal. -/
inductive JSt
  | norm | esc | uni (k acc : Nat)

/-- Body of a double-quoted literal with backslash escapes incl. `\uXXXX` (BigQuery, Spark/Databricks),
as a character-by-character state machine. -/
def lexJ : JSt → Str → Option (Str × Str)
  | _, [] => none
  | .norm, c :: cs =>
    if c = '\\' then lexJ .esc cs
    else if c = '"' then some ([], cs)
    else (lexJ .norm cs).map (push c)
  | .esc, d :: cs =>
    if d = 'u' then lexJ (.uni 4 0) cs else (lexJ .norm cs).map (push (unescBslash d))
  | .uni k acc, h :: cs =>
    match hexVal h with
    | none => none
    | some v =>
      if k ≤ 1 then (lexJ .norm cs).map (push (Char.ofNat (acc * 16 + v)))
      else lexJ (.uni (k - 1) (acc * 16 + v)) cs

def lexJsonBody (s : Str) : Option (Str × Str) := lexJ .norm s

/-- Read one literal of family `f` from the front of the text. -/
def lexFam : Fam → Str → Option (Str × Str)
  | .plain, '\'' :: cs => lexPlainBody cs
  | .bslash, '\'' :: cs => lexBslashBody cs
  | .estr, 'E' :: '\'' :: cs => lexBslashBody cs
  | .json, '"' :: cs => lexJsonBody cs
  | _, _ => none

/-- Lexical family with which dialect `d` reads what `StrLiteral` emits for it. -/
def lexDialect (d : Dialect) : Str → Option (Str × Str) := lexFam (fam d)

/-- A following text "does not continue the literal" when it does not start with the closing quote
(for families where a doubled quote is an escape). -/
def NoCont (f : Fam) (rest : Str) : Prop :=
  match f with
  | .json => True
  | _ => rest.head? ≠ some '\''

/-! ### flags -/

/-- `str.startswith`. -/
def isPrefix : Str → Str → Bool
  | [], _ => true
  | _ :: _, [] => false
  | p :: ps, c :: cs => p == c && isPrefix ps cs

/-- Python `s.replace(pat, v)` for non-empty `pat` (left-to-right, non-overlapping).  Fuel = length. -/
def replaceAux (pat v : Str) : Nat → Str → Str
  | 0, s => s
  | _ + 1, [] => []
  | n + 1, c :: cs =>
    if isPrefix pat (c :: cs) then v ++ replaceAux pat v n ((c :: cs).drop pat.length)
    else c :: replaceAux pat v n cs

def replace (s pat v : Str) : Str := if pat = [] then s else replaceAux pat v (s.length + 1) s

def flagPattern (name : Str) : Str := ['$', '{'] ++ name ++ ['}']

/-- One pass of the `for flag, value in flag_values.items()` loop. -/
def substRound (flags : List (Str × Str)) (sql : Str) : Str :=
  flags.foldl (fun acc fv => replace acc (flagPattern fv.1) fv.2) sql

inductive FlagsResult
  | ok (sql : Str)
  | recursiveFlags
  deriving DecidableEq, Repr

/-- `UseFlagsAsParameters`: iterate to the fixed point, error after more than 100 rounds.
`n` counts the rounds still allowed. -/
def useFlagsAux (flags : List (Str × Str)) : Nat → Str → Str → FlagsResult
  | 0, _, _ => .recursiveFlags
  | n + 1, prev, sql =>
    if sql = prev then .ok sql
    else useFlagsAux flags n sql (substRound flags sql)

def useFlags (flags : List (Str × Str)) (sql : Str) : FlagsResult :=
  if sql = [] then .ok sql else
  -- first iteration compares with '' and always substitutes; at most 100 substitution rounds.
  useFlagsAux flags 100 sql (substRound flags sql)

/-- Python `d[k] = v` on an association list that keeps first-insertion order (keys unique). -/
def dictSet : List (Str × Str) → Str → Str → List (Str × Str)
  | [], k, v => [(k, v)]
  | (k', v') :: d, k, v => if k' = k then (k, v) :: d else (k', v') :: dictSet d k v

/-- `dict.update`. -/
def dictUpdate (d upd : List (Str × Str)) : List (Str × Str) :=
  upd.foldl (fun acc kv => dictSet acc kv.1 kv.2) d

def dictGet : List (Str × Str) → Str → Option Str
  | [], _ => none
  | (k', v') :: d, k => if k' = k then some v' else dictGet d k

inductive BuildResult
  | ok (values : List (Str × Str))
  | undefinedFlags
  deriving DecidableEq, Repr

/-- `Annotations.BuildFlagValues`: defaults < @ResetFlagValue < user flags; a user flag that is neither
defined nor the system flag is rejected. -/
def buildFlagValues (defaults resets user : List (Str × Str)) : BuildResult :=
  let allowed := defaults.map (·.1) ++ ["logica_default_engine".toList]
  if user.all (fun kv => allowed.contains kv.1) then
    .ok (dictUpdate (dictUpdate defaults resets) user)
  else .undefinedFlags

end Logica.Escape
