/-
Model of the file-prefix construction of `parse.ParseFile` (and `ParseFileInternal` in the C++ parser):
an imported file gets the prefix `<Capitalised last path component>_`, extended to the left with parent
directory names while it collides with the prefix of an already parsed file.  After the `fix:` commit every
component of the path may be used; at the pinned commit the Python loop asserted on the first extension.
-/
namespace Logica.Imports

/-- Python's `str.capitalize()` on ASCII: first character upper-cased, the rest lower-cased -/
def capitalizePy (s : String) : String :=
  match s.toList with
  | [] => ""
  | c :: cs => String.ofList (c.toUpper :: cs.map Char.toLower)

/-- prefix built from the last `k+1` components: earlier components are prepended verbatim -/
def prefixOf (parts : List String) (k : Nat) : String :=
  let rev := parts.reverse
  (rev.drop 1 |>.take k).foldl (fun acc p => p ++ acc) (capitalizePy (rev.headD "") ++ "_")

/-- the extension loop: smallest `k ≤ fuel` whose prefix is new, or `none` (the "paths equal modulo _ and /" error) -/
def choosePrefix (existing : List String) (parts : List String) : Nat → Nat → Option String
  | 0, k => if existing.contains (prefixOf parts k) then none else some (prefixOf parts k)
  | fuel + 1, k =>
    if existing.contains (prefixOf parts k) then choosePrefix existing parts fuel (k + 1)
    else some (prefixOf parts k)

/-- prefix of a file with path `parts` given the prefixes already in use -/
def filePrefix (existing : List String) (parts : List String) : Option String :=
  choosePrefix existing parts (parts.length - 1) 0

/-- the pinned Python loop: any collision raised an AssertionError (`assert idx > 0` with a negative idx) -/
def filePrefixPinned (existing : List String) (parts : List String) : Option String :=
  if existing.contains (prefixOf parts 0) then none else some (prefixOf parts 0)

/-- prefixes handed out to a sequence of imported files, in parse order; `none` = a file was rejected -/
def assign : List (List String) → List String → Option (List String)
  | [], acc => some acc
  | p :: rest, acc =>
    match filePrefix acc p with
    | none => none
    | some pre => assign rest (acc ++ [pre])

end Logica.Imports
