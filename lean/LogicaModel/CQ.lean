/-
Conjunctive core of the language (fragment F0 of DESIGN.md): rules whose bodies are conjunctions of atoms
over variables and constants, facts, several rules per predicate.  Three things live here:

* the reference semantics `denote` — nested loops over the body atoms with unification against an
  environment (conjunction multiplies multiplicities), which is what `Sem.solve` does on this fragment;
* the SQL shape the compiler emits for such a rule — `SELECT exprs FROM t_0, …, t_n WHERE e = e' AND …` —
  with its bag semantics `evalSelect` (cartesian product in FROM order, filter, project);
* the compiler `compile`: every atom becomes a FROM item, the first occurrence of a variable defines its
  column (`vars_map`), every further occurrence and every constant becomes an equality constraint
  (`ExtractRuleStructure` + `ElliminateInternalVariables` + `AsSql` on this fragment).
-/
namespace Logica.CQ

abbrev Val := Int
abbrev Row := List Val
abbrev DB := String → List Row

inductive Term
  | var (x : Nat)
  | const (c : Val)
  deriving Repr, DecidableEq

structure Atom where
  pred : String
  args : List Term
  deriving Repr

structure Rule where
  head : List Term
  body : List Atom
  deriving Repr

abbrev Env := List (Nat × Val)

def lookup (x : Nat) : Env → Option Val
  | [] => none
  | (y, v) :: e => if y = x then some v else lookup x e

/-! ### reference semantics -/

/-- unify the arguments of an atom with a row: unbound variables are bound, bound variables and constants tested -/
def matchArgs : List Term → Row → Env → Option Env
  | [], [], env => some env
  | .const c :: ts, v :: vs, env => if c = v then matchArgs ts vs env else none
  | .var x :: ts, v :: vs, env =>
    match lookup x env with
    | some w => if w = v then matchArgs ts vs env else none
    | none => matchArgs ts vs ((x, v) :: env)
  | _, _, _ => none

/-- all solutions of a conjunction: nested loops in atom order -/
def solve (db : DB) : List Atom → Env → List Env
  | [], env => [env]
  | a :: as, env =>
    (db a.pred).flatMap (fun row =>
      match matchArgs a.args row env with
      | some e => solve db as e
      | none => [])

def evalTerm (env : Env) : Term → Val
  | .const c => c
  | .var x => (lookup x env).getD 0

/-- rows of one rule: one row per solution (multiset as list, in loop order) -/
def denote (db : DB) (r : Rule) : List Row := (solve db r.body []).map (fun env => r.head.map (evalTerm env))

/-- several rules of a predicate add their multiplicities -/
def denoteRules (db : DB) (rs : List Rule) : List Row := rs.flatMap (denote db)

/-! ### SQL -/

inductive ArithOp
  | add | sub | mul
  deriving Repr, DecidableEq

inductive CmpOp
  | lt | le | gt | ge | ne | eq
  deriving Repr, DecidableEq

def ArithOp.eval : ArithOp → Val → Val → Val
  | .add, a, b => a + b
  | .sub, a, b => a - b
  | .mul, a, b => a * b

def CmpOp.holds : CmpOp → Val → Val → Bool
  | .lt, a, b => decide (a < b)
  | .le, a, b => decide (a ≤ b)
  | .gt, a, b => decide (a > b)
  | .ge, a, b => decide (a ≥ b)
  | .ne, a, b => a != b
  | .eq, a, b => a == b

inductive SExpr
  | col (t c : Nat)       -- t_<t>.col<c>
  | const (v : Val)
  | bin (op : ArithOp) (a b : SExpr)   -- ((a) op (b))
  deriving Repr, DecidableEq

structure Select where
  tables : List String
  conds : List (SExpr × SExpr)
  sel : List SExpr
  deriving Repr

/-- a candidate: one row per FROM item -/
abbrev Cand := List Row

def valAt (cand : Cand) (t c : Nat) : Val := (cand.getD t []).getD c 0

def evalS (cand : Cand) : SExpr → Val
  | .col t c => valAt cand t c
  | .const v => v
  | .bin op a b => op.eval (evalS cand a) (evalS cand b)

def product : List (List Row) → List Cand
  | [] => [[]]
  | t :: ts => t.flatMap (fun row => (product ts).map (fun c => row :: c))

def condsHold (conds : List (SExpr × SExpr)) (cand : Cand) : Bool :=
  conds.all (fun p => evalS cand p.1 == evalS cand p.2)

def evalSelect (db : DB) (q : Select) : List Row :=
  ((product (q.tables.map db)).filter (condsHold q.conds)).map (fun cand => q.sel.map (evalS cand))

/-- `SELECT * FROM (s1 UNION ALL s2 …)` -/
def evalUnion (db : DB) (qs : List Select) : List Row := qs.flatMap (evalSelect db)

/-! ### compiler -/

abbrev VMap := List (Nat × (Nat × Nat))

def lookupV (x : Nat) : VMap → Option (Nat × Nat)
  | [] => none
  | (y, p) :: m => if y = x then some p else lookupV x m

structure CState where
  vmap : VMap
  conds : List (SExpr × SExpr)

/-- arguments of the atom that became FROM item `t`, starting at column `j` -/
def compileArgs (t : Nat) : List Term → Nat → CState → CState
  | [], _, st => st
  | .const c :: ts, j, st => compileArgs t ts (j + 1) { st with conds := st.conds ++ [(.col t j, .const c)] }
  | .var x :: ts, j, st =>
    match lookupV x st.vmap with
    | some (t0, c0) => compileArgs t ts (j + 1) { st with conds := st.conds ++ [(.col t j, .col t0 c0)] }
    | none => compileArgs t ts (j + 1) { st with vmap := (x, (t, j)) :: st.vmap }

def compileAtoms : List Atom → Nat → CState → CState
  | [], _, st => st
  | a :: as, t, st => compileAtoms as (t + 1) (compileArgs t a.args 0 st)

def compileTerm (vm : VMap) : Term → SExpr
  | .const c => .const c
  | .var x => match lookupV x vm with
    | some (t, c) => .col t c
    | none => .const 0

def compile (r : Rule) : Select :=
  let st := compileAtoms r.body 0 ⟨[], []⟩
  { tables := r.body.map (·.pred), conds := st.conds, sel := r.head.map (compileTerm st.vmap) }

/-- every row of a table has as many columns as the atom reading it has arguments -/
def ArityOK (db : DB) (r : Rule) : Prop := ∀ a ∈ r.body, ∀ row ∈ db a.pred, row.length = a.args.length

end Logica.CQ

namespace Logica.CQ

/-! ### aggregating rules: `Q(k1, …, kn, v? Op= e) distinct :- body` compiles to GROUP BY over the same SELECT -/

inductive AggOp
  | sum | min | max | count
  deriving Repr, DecidableEq

def aggregate : AggOp → List Val → Val
  | .sum, vs => vs.foldl (· + ·) 0
  | .min, [] => 0
  | .min, v :: vs => vs.foldl min v
  | .max, [] => 0
  | .max, v :: vs => vs.foldl max v
  | .count, vs => vs.eraseDups.length

/-- group rows `keys ++ [value]` by their first `n` columns (first-occurrence order), aggregate the last.
With `n = 0` and no row SQL answers one row holding null; values here are integers, so that corner is outside
this model (it is `Agg.agg_empty_null`). -/
def groupAgg (n : Nat) (op : AggOp) (rows : List Row) : List Row :=
  let keys := (rows.map (·.take n)).eraseDups
  keys.map fun k => k ++ [aggregate op ((rows.filter (fun r => r.take n == k)).map (fun r => r.getD n 0))]

/-- `SELECT k1..kn, OP(e) FROM (rules UNION ALL) GROUP BY k1..kn` -/
def evalGroupBy (db : DB) (n : Nat) (op : AggOp) (qs : List Select) : List Row := groupAgg n op (evalUnion db qs)

/-- the documented meaning: aggregate over all solutions of all rules with equal key values -/
def denoteDistinct (db : DB) (n : Nat) (op : AggOp) (rs : List Rule) : List Row := groupAgg n op (denoteRules db rs)

end Logica.CQ

namespace Logica.CQ

/-! ### arithmetic in heads and comparisons in bodies -/

inductive Expr
  | term (t : Term)
  | bin (op : ArithOp) (a b : Expr)
  deriving Repr

structure XRule where
  head : List Expr
  body : List Atom
  tests : List (CmpOp × Expr × Expr)
  deriving Repr

def evalE (env : Env) : Expr → Val
  | .term t => evalTerm env t
  | .bin op a b => op.eval (evalE env a) (evalE env b)

def testsHoldEnv (env : Env) (ts : List (CmpOp × Expr × Expr)) : Bool :=
  ts.all fun t => t.1.holds (evalE env t.2.1) (evalE env t.2.2)

/-- solutions of the atoms that pass every comparison, projected by the head -/
def xdenote (db : DB) (r : XRule) : List Row :=
  ((solve db r.body []).filter (fun env => testsHoldEnv env r.tests)).map (fun env => r.head.map (evalE env))

structure XSelect where
  tables : List String
  tests : List (CmpOp × SExpr × SExpr)       -- comparisons of the body, first in the WHERE clause
  conds : List (SExpr × SExpr)                -- equalities from the atoms
  sel : List SExpr
  deriving Repr

def testsHold (ts : List (CmpOp × SExpr × SExpr)) (cand : Cand) : Bool :=
  ts.all fun t => t.1.holds (evalS cand t.2.1) (evalS cand t.2.2)

def evalXSelect (db : DB) (q : XSelect) : List Row :=
  ((product (q.tables.map db)).filter (fun c => condsHold q.conds c && testsHold q.tests c)).map
    (fun cand => q.sel.map (evalS cand))

def compileE (vm : VMap) : Expr → SExpr
  | .term t => compileTerm vm t
  | .bin op a b => .bin op (compileE vm a) (compileE vm b)

def xcompile (r : XRule) : XSelect :=
  let st := compileAtoms r.body 0 ⟨[], []⟩
  { tables := r.body.map (·.pred),
    tests := r.tests.map (fun t => (t.1, compileE st.vmap t.2.1, compileE st.vmap t.2.2)),
    conds := st.conds,
    sel := r.head.map (compileE st.vmap) }

end Logica.CQ
