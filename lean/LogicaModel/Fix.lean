/-
Bounded iteration of a monotone operator on sets (sets as predicates): the abstract content of
"recursion = depth+1 simultaneous applications from empty relations; least fixpoint once it converges".
`T` is the simultaneous application of all rules of a recursive group to the tuple of its relations.
-/
namespace Logica.Fix

abbrev SetOf (α : Type) := α → Prop

def Subset {α : Type} (a b : SetOf α) : Prop := ∀ x, a x → b x
def Empty {α : Type} : SetOf α := fun _ => False

def Monotone {α : Type} (T : SetOf α → SetOf α) : Prop := ∀ a b, Subset a b → Subset (T a) (T b)

/-- `n` simultaneous applications starting from the empty relations -/
def iter {α : Type} (T : SetOf α → SetOf α) : Nat → SetOf α
  | 0 => Empty
  | n + 1 => T (iter T n)

/-- `S` is closed under the rules -/
def PreFixed {α : Type} (T : SetOf α → SetOf α) (S : SetOf α) : Prop := Subset (T S) S

/-- `L` is the least fixed point: a fixed point below every closed set -/
def IsLeastFixed {α : Type} (T : SetOf α → SetOf α) (L : SetOf α) : Prop :=
  (∀ x, T L x ↔ L x) ∧ ∀ S, PreFixed T S → Subset L S

end Logica.Fix
