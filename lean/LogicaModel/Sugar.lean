import LogicaModel.Agg
/-
Propositions as solution functions (C11): a proposition maps an environment to the bag (list) of its
extensions — the reading `Sem.solveI` gives to conjunction (`flatMap`), disjunction (`++`), negation (no
solution) and `in` (one alternative per element).  The documented shorthands are definitions on top of these;
the theorems of Props/C11.lean state what each of them means.
-/
namespace Logica.Sugar

abbrev Sol (E : Type) := E → List E

variable {E : Type}

def conj (a b : Sol E) : Sol E := fun e => (a e).flatMap b
def disj (a b : Sol E) : Sol E := fun e => a e ++ b e
def neg (a : Sol E) : Sol E := fun e => if (a e).isEmpty then [e] else []
def holds (a : Sol E) (e : E) : Prop := a e ≠ []

/-- `A => B` is parsed as `~(A, ~B)` (`ParsePropositionalImplication`) -/
def impl (a b : Sol E) : Sol E := neg (conj a (neg b))

/-- `Max{1 :- P}`: the aggregate of the constant 1 over the solutions of `P` -/
def maxOne (a : Sol E) (e : E) : Option Int := Agg.maxN ((a e).map fun _ => some 1)

/-- `~P` as the parser builds it (`NegationTree`): `Max{1 :- P} is null` -/
def negAsAggregate (a : Sol E) : Sol E := fun e => if maxOne a e = none then [e] else []

/-- `x in [v1, …, vn]`: one alternative per element (`u v` binds or tests `x` against `v`) -/
def inList {V : Type} (u : V → Sol E) (vs : List V) : Sol E := fun e => vs.flatMap (fun v => u v e)

/-- rows of a rule with head `h` and body `a`, from the empty environment `e0` -/
def rows {R : Type} (h : E → R) (a : Sol E) (e0 : E) : List R := (a e0).map h

end Logica.Sugar
