import LogicaModel.OrderLimit
/-! Insertion sort is a sorted permutation (helper lemmas for `Props/C18.lean`). -/
namespace Logica.OrderLimit

variable {α : Type} {le : α → α → Bool}

theorem insertRow_perm (a : α) (l : List α) : (insertRow le a l).Perm (a :: l) := by
  induction l with
  | nil => simp [insertRow]
  | cons b l ih =>
    simp only [insertRow]
    split
    · exact List.Perm.refl _
    · exact (List.Perm.cons b ih).trans (List.Perm.swap a b l)

theorem sortRows_perm (l : List α) : (sortRows le l).Perm l := by
  induction l with
  | nil => simp [sortRows]
  | cons a l ih =>
    simp only [sortRows]
    exact (insertRow_perm a _).trans (List.Perm.cons a ih)

theorem pairwise_insertRow
    (trans : ∀ a b c, le a b → le b c → le a c) (total : ∀ a b, le a b || le b a)
    (a : α) (l : List α) (h : l.Pairwise (fun x y => le x y)) :
    (insertRow le a l).Pairwise (fun x y => le x y) := by
  induction l with
  | nil => simp [insertRow]
  | cons b l ih =>
    simp only [insertRow]
    have hb := List.pairwise_cons.mp h
    split
    · rename_i hab
      refine List.pairwise_cons.mpr ⟨?_, h⟩
      intro c hc
      rcases List.mem_cons.mp hc with rfl | hc
      · exact hab
      · exact trans a b c hab (hb.1 c hc)
    · rename_i hab
      have hba : le b a = true := by
        have := total a b
        simp only [Bool.or_eq_true] at this
        rcases this with h1 | h1
        · exact absurd h1 hab
        · exact h1
      refine List.pairwise_cons.mpr ⟨?_, ih hb.2⟩
      intro c hc
      have : c ∈ a :: l := (insertRow_perm a l).subset hc
      rcases List.mem_cons.mp this with rfl | hc'
      · exact hba
      · exact hb.1 c hc'

theorem pairwise_sortRows
    (trans : ∀ a b c, le a b → le b c → le a c) (total : ∀ a b, le a b || le b a)
    (l : List α) : (sortRows le l).Pairwise (fun x y => le x y) := by
  induction l with
  | nil => simp [sortRows]
  | cons a l ih => exact pairwise_insertRow trans total a _ ih

end Logica.OrderLimit
