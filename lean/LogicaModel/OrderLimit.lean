/-
Model of `compiler/universe.py: Annotations.OrderByClause / LimitClause / OkInjection` and of the list
semantics of `SELECT … ORDER BY keys LIMIT k` (sort, then take).
-/
namespace Logica.OrderLimit

abbrev Row := List Int

/-- Items of the ORDER BY clause: every element gets a trailing comma unless the next one is `DESC`. -/
def orderByItems : List String → List String
  | [] => []
  | [x] => [x]
  | x :: y :: rest => (if y != "DESC" then x ++ "," else x) :: orderByItems (y :: rest)

def orderByClause : Option (List String) → String
  | none => ""
  | some [] => ""
  | some l => " ORDER BY " ++ " ".intercalate (orderByItems l)

/-- `LimitClause` after the `fix:` commit (`is not None`). -/
def limitClause : Option Int → String
  | none => ""
  | some k => " LIMIT " ++ toString k

/-- `LimitClause` at the pinned commit: `if limit:` drops `LIMIT 0`. -/
def limitClausePinned : Option Int → String
  | none => ""
  | some 0 => ""
  | some k => " LIMIT " ++ toString k

/-- The limit the emitted clause really carries (what the SQL engine sees). -/
def carriedLimit : Option Int → Option Int := id
def carriedLimitPinned : Option Int → Option Int
  | some 0 => none
  | l => l

/-- `OkInjection` (fixed): any @OrderBy with keys, any @Limit (every k), @Ground, @NoInject, @With forbid injection. -/
def okInjection (orderBy : Option (List String)) (limit : Option Int) (ground noInject forceWith : Bool) : Bool :=
  !((match orderBy with | some (_ :: _) => true | _ => false) || limit.isSome || ground || noInject || forceWith)

def okInjectionPinned (orderBy : Option (List String)) (limit : Option Int) (ground noInject forceWith : Bool) : Bool :=
  !((match orderBy with | some (_ :: _) => true | _ => false) ||
    (match limit with | some 0 => false | some _ => true | none => false) || ground || noInject || forceWith)

/-! ### ordered evaluation -/

/-- One ORDER BY key: column index and direction. -/
structure Key where
  col : Nat
  desc : Bool
  deriving Repr

def cmpKey (k : Key) (r s : Row) : Ordering :=
  let a := r.getD k.col 0
  let b := s.getD k.col 0
  if k.desc then compare b a else compare a b

/-- Lexicographic `≤` of rows by a key list. -/
def lexLe : List Key → Row → Row → Bool
  | [], _, _ => true
  | k :: ks, r, s =>
    match cmpKey k r s with
    | .lt => true
    | .gt => false
    | .eq => lexLe ks r s

/-- Insertion sort (structural, so that concrete instances evaluate in the kernel). -/
def insertRow {α : Type} (le : α → α → Bool) (a : α) : List α → List α
  | [] => [a]
  | b :: l => if le a b then a :: b :: l else b :: insertRow le a l

def sortRows {α : Type} (le : α → α → Bool) : List α → List α
  | [] => []
  | a :: l => insertRow le a (sortRows le l)

/-- What a consumer of `SELECT … ORDER BY le LIMIT k` sees: sorted rows, truncated when a limit is carried.
A negative limit means "no limit" in SQLite. -/
def evalOrdered (le : Row → Row → Bool) (limit : Option Int) (rows : List Row) : List Row :=
  let s := sortRows le rows
  match limit with
  | none => s
  | some k => if k < 0 then s else s.take k.toNat

end Logica.OrderLimit
