import LogicaModel.OrderLimit
/-
Model of the SQLite UDF aggregates `ArgMin` / `ArgMax` of `common/sqlite3_logica.py` and of the
recursive CTE behind `Range`.

The Python keeps the K best rows in a heap whose root is the worst kept row; which row is the root
only depends on the *multiset* kept (it is the maximum / minimum `(value, arg)` tuple), so the model
keeps the buffer as a list sorted by `(value, arg)` and "replace the root" is "replace the last /
first element".  `finalize` sorts anyway.  The correspondence compares `finalize` after every prefix.
-/
namespace Logica.Udf
open Logica.OrderLimit (insertRow sortRows)

/-- (value, arg) -/
abbrev VA := Int × Int

/-- Python tuple order on `(value, arg)` -/
def leVA (a b : VA) : Bool := decide (a.1 < b.1 ∨ (a.1 = b.1 ∧ a.2 ≤ b.2))

inductive UdfResult
  | ok (buf : List VA)
  | error
  deriving Repr, DecidableEq

/-- `ArgMin.step` on the sorted buffer. -/
def argMinStep (limit : Option Int) (b : List VA) (x : VA) : UdfResult :=
  match limit with
  | none => .ok (insertRow leVA x b)
  | some l =>
    if l ≤ 0 then .error
    else if (b.length : Int) < l then .ok (insertRow leVA x b)
    else if (b.length : Int) = l then
      match b.getLast? with
      | some m => if m.1 > x.1 then .ok (insertRow leVA x b.dropLast) else .ok b
      | none => .ok b
    else .error

/-- `ArgMax.step`: the root is the smallest kept tuple = head of the ascending buffer. -/
def argMaxStep (limit : Option Int) (b : List VA) (x : VA) : UdfResult :=
  match limit with
  | none => .ok (insertRow leVA x b)
  | some l =>
    if l ≤ 0 then .error
    else if (b.length : Int) < l then .ok (insertRow leVA x b)
    else if (b.length : Int) = l then
      match b with
      | m :: rest => if m.1 < x.1 then .ok (insertRow leVA x rest) else .ok b
      | [] => .ok b
    else .error

def foldStep (step : List VA → VA → UdfResult) : List VA → List VA → UdfResult
  | b, [] => .ok b
  | b, x :: xs =>
    match step b x with
    | .ok b' => foldStep step b' xs
    | .error => .error

def argMinFinal (b : List VA) : List Int := b.map (·.2)
def argMaxFinal (b : List VA) : List Int := b.reverse.map (·.2)

/-- rows arrive as (arg, value) -/
def argMin (limit : Option Int) (rows : List VA) : Option (List Int) :=
  match foldStep (argMinStep limit) [] rows with
  | .ok b => some (argMinFinal b)
  | .error => none

def argMax (limit : Option Int) (rows : List VA) : Option (List Int) :=
  match foldStep (argMaxStep limit) [] rows with
  | .ok b => some (argMaxFinal b)
  | .error => none

/-! ### Range: `with recursive t as (select 0 as n union all select n+1 from t where n+1 < N) select n from t where n < N` -/

/-- rows of the recursive CTE produced from row `n` on (fuel = upper bound on the number of steps) -/
def cteRows (N : Int) : Nat → Nat → List Nat
  | 0, n => [n]
  | fuel + 1, n => n :: (if (n : Int) + 1 < N then cteRows N fuel (n + 1) else [])

def rangeCte (N : Int) : List Nat := (cteRows N N.toNat 0).filter (fun n => decide ((n : Int) < N))

end Logica.Udf
