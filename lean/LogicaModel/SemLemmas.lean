import LogicaModel.Sem
/-! Lemmas about the reference evaluator (helpers of `Props/C07.lean`, `Props/C01.lean`). -/
namespace Logica.Sem

theorem mapM'_perm {α β : Type} (f : α → Except String β) {l1 l2 : List α} (h : l1.Perm l2) :
    ∀ r1, mapM' f l1 = .ok r1 → ∃ r2, mapM' f l2 = .ok r2 ∧ r1.Perm r2 := by
  induction h with
  | nil => intro r1 h; exact ⟨r1, h, List.Perm.refl _⟩
  | @cons x la lb hp ih =>
    intro r1 h
    simp only [mapM'] at h ⊢
    cases hx : f x with
    | error e => rw [hx] at h; cases h
    | ok b =>
      rw [hx] at h
      simp only [bind, Except.bind] at h ⊢
      cases hr : mapM' f la with
      | error e => rw [hr] at h; cases h
      | ok rs =>
        rw [hr] at h
        simp only [pure, Except.pure] at h
        injection h with h
        obtain ⟨r2, h2, hp2⟩ := ih rs hr
        refine ⟨b :: r2, ?_, ?_⟩
        · simp [h2, pure, Except.pure]
        · rw [← h]; exact List.Perm.cons b hp2
  | swap x y l =>
    intro r1 h
    simp only [mapM'] at h ⊢
    cases hx : f x <;> cases hy : f y <;> rw [hx, hy] at h <;> simp only [bind, Except.bind] at h ⊢ <;> try cases h
    rename_i bx by'
    cases hr : mapM' f l with
    | error e => rw [hr] at h; cases h
    | ok rs =>
      rw [hr] at h
      simp only [pure, Except.pure] at h
      injection h with h
      refine ⟨bx :: by' :: rs, by simp [pure, Except.pure], ?_⟩
      rw [← h]; exact List.Perm.swap _ _ _
  | trans _ _ ih1 ih2 =>
    intro r1 h
    obtain ⟨r2, h2, p2⟩ := ih1 r1 h
    obtain ⟨r3, h3, p3⟩ := ih2 r2 h2
    exact ⟨r3, h3, p2.trans p3⟩

theorem flatten_perm {α : Type} {a b : List (List α)} (h : a.Perm b) : a.flatten.Perm b.flatten := by
  induction h with
  | nil => exact List.Perm.refl _
  | cons x _ ih => simp only [List.flatten_cons]; exact List.Perm.append_left x ih
  | swap x y l =>
    simp only [List.flatten_cons]
    rw [← List.append_assoc, ← List.append_assoc]
    exact List.Perm.append_right _ List.perm_append_comm
  | trans _ _ ih1 ih2 => exact ih1.trans ih2

def isAggArg (a : String × HeadArg) : Bool := match a.2 with | .agg _ _ => true | _ => false

theorem hasAgg_eq (r : Rule) : hasAgg r = r.args.any isAggArg := rfl

theorem inlineRule_hasAgg (r : Rule) : hasAgg (inlineRule r) = hasAgg r := by
  rw [hasAgg_eq, hasAgg_eq]
  have key : ∀ (args : List (String × HeadArg)) (acc : List (String × HeadArg) × List Prp × Nat),
      (args.foldl inlineStep acc).1.any isAggArg = (acc.1.any isAggArg || args.any isAggArg) := by
    intro args
    induction args with
    | nil => intro acc; simp
    | cons a args ih =>
      intro acc
      simp only [List.foldl]
      rw [ih]
      obtain ⟨f, ha⟩ := a
      cases ha <;> simp [inlineStep, isAggArg, List.any_append, Bool.or_assoc]
  have := key r.args ([], [], (inlineP FUEL 0 r.body).2)
  simpa [inlineRule] using this

end Logica.Sem
