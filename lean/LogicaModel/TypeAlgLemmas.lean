import LogicaModel.TypeAlg
/-! Helper lemmas about `meet` / `mergeF` (used by `Props/C16.lean`). -/
namespace Logica.TypeAlg

theorem sameKeys_comm (a b : Fields) : a.sameKeys b = b.sameKeys a := by
  simp [Fields.sameKeys, Bool.and_comm]

theorem WF_ne_bad {a : Ty} (h : a.WF) : a ≠ .bad := by
  intro e; subst e; simp [Ty.WF] at h

theorem lookup_isSome_of_mem_keys : (f : Fields) → (k : Nat) → k ∈ f.keys → (f.lookup k).isSome
  | .nil, k, h => by simp [Fields.keys] at h
  | .cons k' t r, k, h => by
    simp only [Fields.keys, List.mem_cons] at h
    by_cases e : k' = k
    · simp [Fields.lookup, e]
    · have : k ∈ r.keys := by
        rcases h with h | h
        · exact absurd h.symm e
        · exact h
      simp [Fields.lookup, e, lookup_isSome_of_mem_keys r k this]

theorem mem_keys_of_lookup_isSome : (f : Fields) → (k : Nat) → (f.lookup k).isSome → k ∈ f.keys
  | .nil, k, h => by simp [Fields.lookup] at h
  | .cons k' t r, k, h => by
    by_cases e : k' = k
    · simp [Fields.keys, e]
    · simp only [Fields.lookup, e, if_false] at h
      simp [Fields.keys, mem_keys_of_lookup_isSome r k h]

theorem subKeys_iff (a b : Fields) : a.subKeys b = true ↔ ∀ k ∈ a.keys, k ∈ b.keys := by
  simp only [Fields.subKeys, List.all_eq_true]
  constructor
  · intro h k hk; exact mem_keys_of_lookup_isSome b k (h k hk)
  · intro h k hk; exact lookup_isSome_of_mem_keys b k (h k hk)

theorem subKeys_self (f : Fields) : f.subKeys f = true := by
  rw [subKeys_iff]; intro k hk; exact hk

theorem sameKeys_self (f : Fields) : f.sameKeys f = true := by
  simp [Fields.sameKeys, subKeys_self]

theorem mem_keys_mergeF (f1 f2 : Fields) (k : Nat) :
    k ∈ (mergeF f1 f2).keys ↔ k ∈ f1.keys ∨ k ∈ f2.keys := by
  cases f1 <;> cases f2 <;> try (simp [mergeF, Fields.keys]; done)
  case cons.cons k1 t1 r1 k2 t2 r2 =>
    by_cases h1 : k1 < k2
    · simp only [mergeF, h1, if_true, Fields.keys, List.mem_cons]
      rw [mem_keys_mergeF r1 _ k]
      simp only [Fields.keys, List.mem_cons]
      grind
    · by_cases h2 : k2 < k1
      · simp only [mergeF, h1, h2, if_true, if_false, Fields.keys, List.mem_cons]
        rw [mem_keys_mergeF _ r2 k]
        simp only [Fields.keys, List.mem_cons]
        grind
      · have : k1 = k2 := by omega
        subst this
        simp only [mergeF, h1, if_false, Fields.keys, List.mem_cons]
        rw [mem_keys_mergeF r1 r2 k]
        grind
termination_by sizeOf f1 + sizeOf f2

mutual
theorem meet_idem (a : Ty) (h : a.WF) : meet a a = a := by
  cases a <;> try (simp [meet]; done)
  case list e =>
    simp only [Ty.WF] at h
    have ih := meet_idem e h
    simp only [meet, ih]
    have := WF_ne_bad h
    cases e <;> simp_all
  case record c f =>
    simp only [Ty.WF] at h
    cases c <;> simp [meet, mergeF_idem f h.2, sameKeys_self]
theorem mergeF_idem (f : Fields) (h : f.WFs) : mergeF f f = f := by
  cases f with
  | nil => simp [mergeF]
  | cons k t r =>
    simp only [Fields.WFs] at h
    simp [mergeF, meet_idem t h.1, mergeF_idem r h.2]
end

mutual
theorem meet_comm (a b : Ty) : meet a b = meet b a := by
  cases a <;> cases b <;> try (simp [meet]; done)
  case list.list a b => simp only [meet]; rw [meet_comm a b]
  case record.record c1 f1 c2 f2 =>
    cases c1 <;> cases c2 <;> simp [meet, mergeF_comm f1 f2, sameKeys_comm f1 f2]
termination_by sizeOf a + sizeOf b
theorem mergeF_comm (f1 f2 : Fields) : mergeF f1 f2 = mergeF f2 f1 := by
  cases f1 <;> cases f2 <;> try (simp [mergeF]; done)
  case cons.cons k1 t1 r1 k2 t2 r2 =>
    by_cases h1 : k1 < k2
    · have h2 : ¬ k2 < k1 := by omega
      simp only [mergeF, h1, h2, if_true, if_false]
      rw [mergeF_comm r1 _]
    · by_cases h2 : k2 < k1
      · simp only [mergeF, h1, h2, if_true, if_false]
        rw [mergeF_comm _ r2]
      · have : k1 = k2 := by omega
        subst this
        simp only [mergeF, h1, if_false]
        rw [meet_comm t1 t2, mergeF_comm r1 r2]
termination_by sizeOf f1 + sizeOf f2
end

theorem subKeys_merge_right (f1 f2 : Fields) : f2.subKeys (mergeF f1 f2) = true := by
  rw [subKeys_iff]; intro k hk; rw [mem_keys_mergeF]; exact Or.inr hk

theorem subKeys_merge_of_sub (f1 f2 : Fields) (h : f1.subKeys f2 = true) :
    (mergeF f1 f2).subKeys f2 = true := by
  rw [subKeys_iff] at h ⊢
  intro k hk; rw [mem_keys_mergeF] at hk
  rcases hk with hk | hk
  · exact h k hk
  · exact hk

mutual
theorem meet_absorb (a b : Ty) (ha : a.WF) (hb : b.WF) : meet (meet a b) b = meet a b := by
  cases a <;> cases b <;> try (simp [meet]; done)
  all_goals try (simp [Ty.WF] at ha hb; done)
  all_goals try (simp [meet, meet_idem _ hb]; done)
  case list.list ea eb =>
    simp only [Ty.WF] at ha hb
    have ih := meet_absorb ea eb ha hb
    simp only [meet]
    cases hm : meet ea eb <;> simp only [meet] <;> rw [hm] at ih <;> simp [ih]
  case record.record c1 f1 c2 f2 =>
    simp only [Ty.WF] at ha hb
    have ihf := mergeF_absorb f1 f2 ha.2 hb.2
    cases c1 <;> cases c2 <;> simp only [meet]
    · simp [ihf]
    · by_cases hs : f1.subKeys f2 = true
      · simp [hs, meet, Fields.sameKeys, subKeys_merge_right, subKeys_merge_of_sub _ _ hs, ihf]
      · simp [hs, meet]
    · by_cases hs : f2.subKeys f1 = true
      · simp [hs, meet, subKeys_merge_right, ihf]
      · simp [hs, meet]
    · by_cases hs : f1.sameKeys f2 = true
      · have hs' := hs
        simp only [Fields.sameKeys, Bool.and_eq_true] at hs'
        rw [if_pos hs]
        simp [meet, Fields.sameKeys, subKeys_merge_right, subKeys_merge_of_sub _ _ hs'.1, ihf]
      · simp [hs, meet]
termination_by sizeOf a + sizeOf b
theorem mergeF_absorb (f1 f2 : Fields) (h1 : f1.WFs) (h2 : f2.WFs) :
    mergeF (mergeF f1 f2) f2 = mergeF f1 f2 := by
  cases f1 <;> cases f2 <;> try (simp [mergeF]; done)
  case nil.cons k t r => rw [show mergeF Fields.nil (Fields.cons k t r) = Fields.cons k t r by simp [mergeF]]; exact mergeF_idem _ h2
  case cons.cons k1 t1 r1 k2 t2 r2 =>
    simp only [Fields.WFs] at h1 h2
    by_cases hlt : k1 < k2
    · simp only [mergeF, hlt, if_true]
      rw [mergeF_absorb r1 (.cons k2 t2 r2) h1.2 (by simp [Fields.WFs, h2])]
    · by_cases hgt : k2 < k1
      · simp only [mergeF, hlt, hgt, if_true, if_false]
        have : ¬ k2 < k2 := by omega
        simp only [mergeF, this, if_false]
        rw [meet_idem t2 h2.1, mergeF_absorb (.cons k1 t1 r1) r2 (by simp [Fields.WFs, h1]) h2.2]
      · have : k1 = k2 := by omega
        subst this
        simp only [mergeF, hlt, if_false]
        rw [meet_absorb t1 t2 h1.1 h2.1, mergeF_absorb r1 r2 h1.2 h2.2]
termination_by sizeOf f1 + sizeOf f2
end

end Logica.TypeAlg
