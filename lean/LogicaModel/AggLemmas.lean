import LogicaModel.Agg
/-! Permutation lemmas for the aggregate folds (helpers of `Props/C02.lean`). -/
namespace Logica.Agg

theorem vals_append (a b : List (Option Int)) : vals (a ++ b) = vals a ++ vals b := by
  induction a with
  | nil => rfl
  | cons x a ih => cases x <;> simp [vals, ih]

theorem vals_nulls (n : Nat) : vals (List.replicate n none) = [] := by
  induction n with
  | zero => rfl
  | succ n ih => simp [List.replicate, vals, ih]

theorem vals_perm {a b : List (Option Int)} (h : a.Perm b) : (vals a).Perm (vals b) := by
  induction h with
  | nil => exact List.Perm.refl _
  | cons x _ ih => cases x <;> simp [vals, ih]
  | swap x y l => cases x <;> cases y <;> simp [vals, List.Perm.swap]
  | trans _ _ ih1 ih2 => exact ih1.trans ih2

theorem foldl_add_perm {a b : List Int} (h : a.Perm b) (z : Int) : a.foldl (· + ·) z = b.foldl (· + ·) z := by
  induction h generalizing z with
  | nil => rfl
  | cons x _ ih => simp [List.foldl, ih]
  | swap x y l => simp only [List.foldl]; congr 1; omega
  | trans _ _ ih1 ih2 => rw [ih1, ih2]

theorem foldl_min_perm {a b : List Int} (h : a.Perm b) (z : Int) : a.foldl min z = b.foldl min z := by
  induction h generalizing z with
  | nil => rfl
  | cons x _ ih => simp [List.foldl, ih]
  | swap x y l => simp only [List.foldl]; congr 1; omega
  | trans _ _ ih1 ih2 => rw [ih1, ih2]

theorem foldl_max_perm {a b : List Int} (h : a.Perm b) (z : Int) : a.foldl max z = b.foldl max z := by
  induction h generalizing z with
  | nil => rfl
  | cons x _ ih => simp [List.foldl, ih]
  | swap x y l => simp only [List.foldl]; congr 1; omega
  | trans _ _ ih1 ih2 => rw [ih1, ih2]

theorem foldl_min_comm (a b : Int) (l : List Int) : (b :: l).foldl min a = (a :: l).foldl min b := by
  simp only [List.foldl]; congr 1; omega

theorem foldl_max_comm (a b : Int) (l : List Int) : (b :: l).foldl max a = (a :: l).foldl max b := by
  simp only [List.foldl]; congr 1; omega

theorem minL_perm {a b : List Int} (h : a.Perm b) : minL a = minL b := by
  induction h with
  | nil => rfl
  | cons x h _ => simp [minL, foldl_min_perm h]
  | swap x y l => simp only [minL]; congr 1; exact foldl_min_comm y x l
  | trans _ _ ih1 ih2 => rw [ih1, ih2]

theorem maxL_perm {a b : List Int} (h : a.Perm b) : maxL a = maxL b := by
  induction h with
  | nil => rfl
  | cons x h _ => simp [maxL, foldl_max_perm h]
  | swap x y l => simp only [maxL]; congr 1; exact foldl_max_comm y x l
  | trans _ _ ih1 ih2 => rw [ih1, ih2]

end Logica.Agg
