/-
Module-level state that survives between compiles in one process, and the places where the compiler
iterates a Python `set` (an arbitrary enumeration order).
-/
namespace Logica.ModState

/-- `parse.TOO_MUCH == 'fun'` (and the C++ static of the same name) -/
structure State where
  tooMuch : Bool
  deriving DecidableEq, Repr

def INCANTATION : List Char := "Signa inter verba conjugo, symbolum infixus evoco!".toList

def isInfixOf (pat : List Char) : List Char → Bool
  | [] => pat.isEmpty
  | c :: cs => (pat.isPrefixOf (c :: cs)) || isInfixOf pat cs

/-- `EnactIncantations` after the `fix:` commit: the flag is a function of the main text only -/
def enact (_ : State) (mainText : List Char) : State := ⟨isInfixOf INCANTATION mainText⟩

/-- at the pinned commit the flag was only ever switched on -/
def enactPinned (st : State) (mainText : List Char) : State := ⟨st.tooMuch || isInfixOf INCANTATION mainText⟩

/-- the characters allowed in a predicate name before `(` depend on the flag: this is how the flag reaches the
parsed rules (`a*(b+c)` is a call of `a*` under the experimental syntax) -/
def goodChar (st : State) (c : Char) : Bool :=
  c.isAlphanum || "@_.${}+-`".toList.contains c || (st.tooMuch && "*^%/".toList.contains c)

/-- what one parse observes of the state: the acceptance test for call names -/
def parseObserves (st : State) (mainText : List Char) : Char → Bool := goodChar (enact st mainText)
def parseObservesPinned (st : State) (mainText : List Char) : Char → Bool := goodChar (enactPinned st mainText)

/-- a history of parses threads the state -/
def history (enactF : State → List Char → State) (st : State) (texts : List (List Char)) : State :=
  texts.foldl enactF st

/-! ### set iteration -/

/-- `PerformIterationClosure` visits the members of an iteration and allocates / emits in visiting order.
`emit` abstracts "translate the table and append its export statement"; the closure is the list of
statements in emission order. After the `fix:` commit the declared list is visited … -/
def closure {α β : Type} (emit : α → β) (declared : List α) : List β := declared.map emit

/-- … at the pinned commit an arbitrary enumeration `enum` of the set of members was visited -/
def closurePinned {α β : Type} (emit : α → β) (enum : List α) : List β := enum.map emit

end Logica.ModState
