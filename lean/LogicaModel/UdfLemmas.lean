import LogicaModel.Udf
import LogicaModel.OrderLimitLemmas
/-! Helper lemmas for `Props/C20.lean`: the Range CTE and the K-buffer invariant of ArgMin. -/
namespace Logica.Udf
open Logica.OrderLimit

theorem cteRows_eq (k : Nat) : ∀ (fuel n : Nat), n < k → k ≤ n + fuel + 1 →
    cteRows (k : Int) fuel n = List.range' n (k - n) := by
  intro fuel
  induction fuel with
  | zero =>
    intro n h1 h2
    have : k - n = 1 := by omega
    simp [cteRows, this, List.range']
  | succ fuel ih =>
    intro n h1 h2
    by_cases hlt : n + 1 < k
    · have hc : (n : Int) + 1 < (k : Int) := by omega
      have := ih (n + 1) hlt (by omega)
      simp only [cteRows, hc, if_true, this]
      have e : k - n = (k - (n + 1)) + 1 := by omega
      rw [e, List.range'_succ]
    · have hc : ¬ ((n : Int) + 1 < (k : Int)) := by omega
      have : k - n = 1 := by omega
      simp [cteRows, hc, this, List.range']

theorem range_cte_pos (k : Nat) (hk : 0 < k) : rangeCte (k : Int) = List.range k := by
  unfold rangeCte
  have := cteRows_eq k (Int.toNat (k : Int)) 0 hk (by simp)
  rw [this]
  simp only [Nat.sub_zero]
  rw [List.range_eq_range']
  apply List.filter_eq_self.mpr
  intro a ha
  have := List.mem_range'_1.mp ha
  simp
  omega

theorem range_cte_nonpos (N : Int) (h : N ≤ 0) : rangeCte N = [] := by
  unfold rangeCte
  have : N.toNat = 0 := by omega
  rw [this]
  simp [cteRows]
  omega

theorem leVA_trans (a b c : VA) : leVA a b → leVA b c → leVA a c := by
  simp only [leVA, decide_eq_true_eq]; omega
theorem leVA_total (a b : VA) : leVA a b || leVA b a := by
  simp only [leVA, Bool.or_eq_true, decide_eq_true_eq]; omega
theorem leVA_antisymm (a b : VA) : leVA a b → leVA b a → a = b := by
  simp only [leVA, decide_eq_true_eq]
  intro h1 h2
  have : a.1 = b.1 ∧ a.2 = b.2 := by omega
  exact Prod.ext this.1 this.2

section generic
variable {α : Type} {le : α → α → Bool}

theorem take_insertRow_take (x : α) : ∀ (k : Nat) (l : List α),
    (insertRow le x (l.take k)).take k = (insertRow le x l).take k := by
  intro k l
  induction l generalizing k with
  | nil => simp
  | cons b l ih =>
    cases k with
    | zero => simp
    | succ k =>
      simp only [List.take_succ_cons, insertRow]
      split
      · simp only [List.take_succ_cons]
        congr 1
        cases k with
        | zero => simp
        | succ k => simp [List.take_take]
      · simp only [List.take_succ_cons]
        congr 1
        exact ih k

theorem insertRow_append_last (x m : α) (h : le x m = true) : ∀ (init : List α),
    insertRow le x (init ++ [m]) = insertRow le x init ++ [m] := by
  intro init
  induction init with
  | nil => simp [insertRow, h]
  | cons b l ih =>
    simp only [List.cons_append, insertRow]
    split
    · rfl
    · rw [ih]; rfl

theorem insertRow_greatest (x : α) : ∀ (b : List α), (∀ y ∈ b, le x y = false) →
    insertRow le x b = b ++ [x] := by
  intro b
  induction b with
  | nil => intro _; rfl
  | cons y l ih =>
    intro h
    have hy := h y (List.mem_cons_self)
    simp only [insertRow, hy, Bool.false_eq_true, if_false, List.cons_append]
    rw [ih (fun z hz => h z (List.mem_cons_of_mem _ hz))]

theorem length_insertRow (x : α) (l : List α) : (insertRow le x l).length = l.length + 1 :=
  (insertRow_perm (le := le) x l).length_eq
end generic

/-- one step on a sorted buffer of at most `k` rows, no value tie with the new row -/
theorem argMinStep_eq (k : Nat) (hk : 1 ≤ k) (b : List VA) (x : VA)
    (hs : b.Pairwise (fun a c => leVA a c)) (hl : b.length ≤ k) (hv : ∀ y ∈ b, y.1 ≠ x.1) :
    argMinStep (some (k : Int)) b x = .ok ((insertRow leVA x b).take k) := by
  unfold argMinStep
  have h0 : ¬ ((k : Int) ≤ 0) := by omega
  simp only [h0, if_false]
  by_cases hlt : b.length < k
  · have : ((b.length : Int) < (k : Int)) := by omega
    simp only [this, if_true]
    rw [List.take_of_length_le]
    rw [length_insertRow]; omega
  · have heq : b.length = k := by omega
    have hne : b ≠ [] := by intro e; rw [e] at heq; simp at heq; omega
    rcases List.eq_nil_or_concat b with hnil | ⟨init, m, hcc⟩
    · exact absurd hnil hne
    · rw [List.concat_eq_append] at hcc
      subst hcc
      have hlen : init.length + 1 = k := by simpa using heq
      have h1 : ¬ (((init ++ [m]).length : Int) < (k : Int)) := by simp; omega
      have h2 : (((init ++ [m]).length : Int) = (k : Int)) := by simp; omega
      simp only [h1, h2, if_false, if_true, List.getLast?_concat, List.dropLast_concat]
      have hall : ∀ y ∈ init ++ [m], leVA y m = true := by
        intro y hy
        rcases List.mem_append.mp hy with hy | hy
        · exact (List.pairwise_append.mp hs).2.2 y hy m (by simp)
        · simp at hy; subst hy
          simp [leVA]
      by_cases hgt : m.1 > x.1
      · simp only [hgt, if_true]
        have hxm : leVA x m = true := by simp [leVA]; omega
        have hkk : ¬ ((k : Int) < (k : Int)) := by omega
        have hlen2 : (insertRow leVA x init).length = k := by rw [length_insertRow]; omega
        rw [insertRow_append_last x m hxm, List.take_left' hlen2]
        simp [hkk]
      · simp only [hgt, if_false]
        have hmx : m.1 < x.1 := by
          have := hv m (by simp)
          omega
        have hg : ∀ y ∈ init ++ [m], leVA x y = false := by
          intro y hy
          have h1 := hall y hy
          simp only [leVA, decide_eq_true_eq] at h1
          simp only [leVA, decide_eq_false_iff_not]
          omega
        have hkk : ¬ ((k : Int) < (k : Int)) := by omega
        rw [insertRow_greatest x _ hg, List.take_left' heq]
        simp [hkk]

theorem pairwise_take_sortRows (acc : List VA) (k : Nat) :
    ((sortRows leVA acc).take k).Pairwise (fun a c => leVA a c) :=
  (pairwise_sortRows (le := leVA) leVA_trans leVA_total acc).sublist (List.take_sublist _ _)

theorem foldStep_argMin (k : Nat) (hk : 1 ≤ k) : ∀ (rows acc : List VA),
    ((acc ++ rows).map (·.1)).Nodup →
    foldStep (argMinStep (some (k : Int))) ((sortRows leVA acc).take k) rows
      = .ok ((sortRows leVA (rows.reverse ++ acc)).take k) := by
  intro rows
  induction rows with
  | nil => intro acc _; simp [foldStep]
  | cons x xs ih =>
    intro acc hnd
    have hstep : argMinStep (some (k : Int)) ((sortRows leVA acc).take k) x
        = .ok ((sortRows leVA (x :: acc)).take k) := by
      rw [argMinStep_eq k hk _ x (pairwise_take_sortRows acc k) (List.length_take_le _ _)]
      · rw [take_insertRow_take]; rfl
      · intro y hy
        have hy' : y ∈ acc := (sortRows_perm (le := leVA) acc).subset (List.mem_of_mem_take hy)
        intro e
        rw [List.map_append, List.map_cons] at hnd
        have := (List.nodup_append.mp hnd).2.2 y.1 (List.mem_map_of_mem hy') x.1 (by simp)
        exact this e
    simp only [foldStep, hstep]
    have := ih (x :: acc) (by
      have : (acc ++ x :: xs) = ((acc ++ [x]) ++ xs) := by simp
      rw [this] at hnd
      have hp : ((acc ++ [x]) ++ xs).Perm ((x :: acc) ++ xs) := by
        apply List.Perm.append_right
        exact List.perm_append_singleton x acc
      exact (hp.map _).nodup_iff.mp hnd)
    rw [this]
    simp [List.reverse_cons, List.append_assoc]

theorem sortRows_reverse (rows : List VA) : sortRows leVA rows.reverse = sortRows leVA rows := by
  apply List.Perm.eq_of_pairwise (le := fun a b => leVA a b = true)
  · intro a b _ _ h1 h2; exact leVA_antisymm a b h1 h2
  · exact pairwise_sortRows leVA_trans leVA_total _
  · exact pairwise_sortRows leVA_trans leVA_total _
  · exact (sortRows_perm _).trans ((List.reverse_perm rows).trans (sortRows_perm rows).symm)


theorem foldStep_unlimited : ∀ (rows acc : List VA),
    foldStep (argMinStep none) (sortRows leVA acc) rows = .ok (sortRows leVA (rows.reverse ++ acc)) := by
  intro rows
  induction rows with
  | nil => intro acc; simp [foldStep]
  | cons x xs ih =>
    intro acc
    simp only [foldStep, argMinStep]
    have := ih (x :: acc)
    simp only [sortRows] at this
    rw [this]
    simp [List.reverse_cons, List.append_assoc]

end Logica.Udf

set_option linter.unusedSimpArgs false
namespace Logica.Udf
open Logica.OrderLimit

/-- the last `k` elements -/
def lastK {α : Type} (k : Nat) (l : List α) : List α := l.drop (l.length - k)

section generic
variable {α : Type} {le : α → α → Bool}

theorem lastK_of_le (k : Nat) (l : List α) (h : l.length ≤ k) : lastK k l = l := by
  unfold lastK
  have : l.length - k = 0 := by omega
  simp [this]

theorem lastK_cons_of_ge (k : Nat) (a : α) (l : List α) (h : k ≤ l.length) : lastK k (a :: l) = lastK k l := by
  unfold lastK
  have : (a :: l).length - k = (l.length - k) + 1 := by simp; omega
  rw [this]; rfl

theorem length_lastK (k : Nat) (l : List α) : (lastK k l).length = min k l.length := by
  unfold lastK; simp; omega

theorem mem_lastK (k : Nat) (l : List α) (y : α) (h : y ∈ lastK k l) : y ∈ l := List.mem_of_mem_drop h

/-- dual of `take_insertRow_take`: inserting into the last `k` rows of a sorted list and keeping the last `k` -/
theorem lastK_insertRow_lastK (htrans : ∀ a b c, le a b = true → le b c = true → le a c = true)
    (x : α) (k : Nat) : ∀ (l : List α), l.Pairwise (fun a b => le a b = true) →
    lastK k (insertRow le x (lastK k l)) = lastK k (insertRow le x l) := by
  intro l
  induction l with
  | nil => intro _; simp [lastK]
  | cons a l ih =>
    intro hs
    by_cases hk : (a :: l).length ≤ k
    · rw [lastK_of_le k _ hk]
    · have hkl : k ≤ l.length := by simp at hk; omega
      have hs' := (List.pairwise_cons.mp hs).2
      have ha := (List.pairwise_cons.mp hs).1
      rw [lastK_cons_of_ge k a l hkl]
      by_cases hxa : le x a = true
      · -- x goes in front of everything
        have hr : insertRow le x (a :: l) = x :: a :: l := by simp [insertRow, hxa]
        rw [hr, lastK_cons_of_ge k x (a :: l) (by simp; omega), lastK_cons_of_ge k a l hkl]
        cases hlk : lastK k l with
        | nil => 
          have : k = 0 := by
            have := length_lastK k l; rw [hlk] at this; simp at this; omega
          subst this
          simp [insertRow, lastK]
        | cons y0 rest =>
          have hy0 : y0 ∈ l := mem_lastK k l y0 (by rw [hlk]; simp)
          have hxy : le x y0 = true := htrans x a y0 hxa (ha y0 hy0)
          have hl : (y0 :: rest).length = k := by
            have := length_lastK k l; rw [hlk] at this; omega
          simp only [insertRow, hxy, if_true]
          rw [lastK_cons_of_ge k x (y0 :: rest) (by omega), lastK_of_le k _ (by omega)]
      · have hr : insertRow le x (a :: l) = a :: insertRow le x l := by simp [insertRow, hxa]
        rw [hr, lastK_cons_of_ge k a _ (by rw [length_insertRow]; omega)]
        exact ih hs'
end generic

/-- one step on a sorted buffer of at most `k` rows, no value tie with the new row -/
theorem argMaxStep_eq (k : Nat) (hk : 1 ≤ k) (b : List VA) (x : VA)
    (hl : b.length ≤ k) (hv : ∀ y ∈ b, y.1 ≠ x.1) :
    argMaxStep (some (k : Int)) b x = .ok (lastK k (insertRow leVA x b)) := by
  unfold argMaxStep
  have h0 : ¬ ((k : Int) ≤ 0) := by omega
  simp only [h0, if_false]
  by_cases hlt : b.length < k
  · have : ((b.length : Int) < (k : Int)) := by omega
    simp only [this, if_true]
    rw [lastK_of_le]
    rw [length_insertRow]; omega
  · have heq : b.length = k := by omega
    have h1 : ¬ ((b.length : Int) < (k : Int)) := by omega
    have h2 : ((b.length : Int) = (k : Int)) := by omega
    simp only [h1, h2, if_false, if_true]
    cases b with
    | nil => simp at heq; omega
    | cons m rest =>
      simp only
      have hm := hv m (by simp)
      have hrl : rest.length + 1 = k := by simpa using heq
      by_cases hlt' : m.1 < x.1
      · simp only [hlt', if_true]
        have hxm : leVA x m = false := by simp [leVA]; omega
        have : insertRow leVA x (m :: rest) = m :: insertRow leVA x rest := by simp [insertRow, hxm]
        rw [this, lastK_cons_of_ge k m _ (by rw [length_insertRow]; omega), lastK_of_le k _ (by rw [length_insertRow]; omega)]
        have hkk : ¬ ((k : Int) < (k : Int)) := by omega
        simp [hkk]
      · simp only [hlt', if_false]
        have hxm : leVA x m = true := by simp [leVA]; omega
        have : insertRow leVA x (m :: rest) = x :: m :: rest := by simp [insertRow, hxm]
        rw [this, lastK_cons_of_ge k x _ (by simp; omega), lastK_of_le k _ (by simp; omega)]
        have hkk : ¬ ((k : Int) < (k : Int)) := by omega
        simp [hkk]

theorem foldStep_argMax (k : Nat) (hk : 1 ≤ k) : ∀ (rows acc : List VA),
    ((acc ++ rows).map (·.1)).Nodup →
    foldStep (argMaxStep (some (k : Int))) (lastK k (sortRows leVA acc)) rows
      = .ok (lastK k (sortRows leVA (rows.reverse ++ acc))) := by
  intro rows
  induction rows with
  | nil => intro acc _; simp [foldStep]
  | cons x xs ih =>
    intro acc hnd
    have hstep : argMaxStep (some (k : Int)) (lastK k (sortRows leVA acc)) x
        = .ok (lastK k (sortRows leVA (x :: acc))) := by
      rw [argMaxStep_eq k hk _ x (by rw [length_lastK]; omega)]
      · rw [lastK_insertRow_lastK leVA_trans x k _ (pairwise_sortRows leVA_trans leVA_total acc)]; rfl
      · intro y hy
        have hy' : y ∈ acc := (sortRows_perm (le := leVA) acc).subset (mem_lastK k _ y hy)
        intro e
        rw [List.map_append, List.map_cons] at hnd
        have := (List.nodup_append.mp hnd).2.2 y.1 (List.mem_map_of_mem hy') x.1 (by simp)
        exact this e
    simp only [foldStep, hstep]
    have := ih (x :: acc) (by
      have : (acc ++ x :: xs) = ((acc ++ [x]) ++ xs) := by simp
      rw [this] at hnd
      have hp : ((acc ++ [x]) ++ xs).Perm ((x :: acc) ++ xs) := by
        apply List.Perm.append_right
        exact List.perm_append_singleton x acc
      exact (hp.map _).nodup_iff.mp hnd)
    rw [this]
    simp [List.reverse_cons, List.append_assoc]

end Logica.Udf
