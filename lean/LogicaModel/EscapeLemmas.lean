import LogicaModel.Escape
/-! Helper lemmas for `Props/C10.lean` (round trips per literal family, dictionary lemmas). -/
namespace Logica.Escape

theorem lexPlainBody_cons (c : Char) (cs : Str) : lexPlainBody (c :: cs) =
    if c = '\'' then
      match cs with
      | [] => some ([], [])
      | d :: ds => if d = '\'' then (lexPlainBody ds).map (push '\'') else some ([], d :: ds)
    else (lexPlainBody cs).map (push c) := by
  cases cs <;> rfl

theorem lexBslashBody_cons (c : Char) (cs : Str) : lexBslashBody (c :: cs) =
    if c = '\\' then
      match cs with
      | [] => none
      | d :: ds => (lexBslashBody ds).map (push (unescBslash d))
    else if c = '\'' then
      match cs with
      | [] => some ([], [])
      | d :: ds => if d = '\'' then (lexBslashBody ds).map (push '\'') else some ([], d :: ds)
    else (lexBslashBody cs).map (push c) := by
  cases cs <;> rfl

theorem map_push_some (c : Char) (o : Option (Str × Str)) (a r : Str) (h : o = some (a, r)) :
    o.map (push c) = some (c :: a, r) := by
  subst h; rfl

/-! ## round trip, family by family -/

theorem lex_plain (s rest : Str) (h : rest.head? ≠ some '\'') :
    lexPlainBody (s.flatMap escPlain ++ '\'' :: rest) = some (s, rest) := by
  induction s with
  | nil =>
    cases rest with
    | nil => simp [lexPlainBody]
    | cons d ds =>
      have hd : d ≠ '\'' := by simpa using h
      simp [lexPlainBody, hd]
  | cons c s ih =>
    by_cases hc : c = '\''
    · subst hc
      simp [escPlain, lexPlainBody, ih, push]
    · simp [escPlain, hc, lexPlainBody_cons, ih, push]

theorem lex_bslash (s rest : Str) (h : rest.head? ≠ some '\'') :
    lexBslashBody (s.flatMap escBslash ++ '\'' :: rest) = some (s, rest) := by
  induction s with
  | nil =>
    cases rest with
    | nil => simp [lexBslashBody]
    | cons d ds =>
      have hd : d ≠ '\'' := by simpa using h
      simp [lexBslashBody, hd]
  | cons c s ih =>
    by_cases hb : c = '\\'
    · subst hb
      simp [escBslash, lexBslashBody, ih, push, unescBslash]
    · by_cases hc : c = '\''
      · subst hc
        simp [escBslash, lexBslashBody, ih, push]
      · simp [escBslash, hb, hc, lexBslashBody_cons, ih, push]

theorem lex_estr (s rest : Str) (h : rest.head? ≠ some '\'') :
    lexBslashBody (s.flatMap escE ++ '\'' :: rest) = some (s, rest) := by
  induction s with
  | nil =>
    cases rest with
    | nil => simp [lexBslashBody]
    | cons d ds =>
      have hd : d ≠ '\'' := by simpa using h
      simp [lexBslashBody, hd]
  | cons c s ih =>
    by_cases hb : c = '\\'
    · subst hb
      simp [escE, lexBslashBody, ih, push, unescBslash]
    · by_cases hc : c = '\''
      · subst hc
        simp [escE, lexBslashBody, ih, push]
      · by_cases ht : c = '\t'
        · subst ht
          simp [escE, lexBslashBody, ih, push, unescBslash]
        · by_cases hn : c = '\n'
          · subst hn
            simp [escE, lexBslashBody, ih, push, unescBslash]
          · simp [escE, hb, hc, ht, hn, lexBslashBody_cons, ih, push]

/-- every control character's hex digits decode to its code point -/
theorem hexVal_ctrl : ∀ n, n < 32 →
    hexVal (hexDigit (n / 16)) = some (n / 16) ∧ hexVal (hexDigit (n % 16)) = some (n % 16) := by
  decide

theorem lex_json (s rest : Str) :
    lexJsonBody (s.flatMap escJson ++ '"' :: rest) = some (s, rest) := by
  unfold lexJsonBody
  induction s with
  | nil => simp [lexJ]
  | cons c s ih =>
    by_cases h1 : c = '"'
    · subst h1; simp [escJson, lexJ, ih, push, unescBslash]
    · by_cases h2 : c = '\\'
      · subst h2; simp [escJson, lexJ, ih, push, unescBslash]
      · by_cases h3 : c = '\n'
        · subst h3; simp [escJson, lexJ, ih, push, unescBslash]
        · by_cases h4 : c = '\r'
          · subst h4; simp [escJson, lexJ, ih, push, unescBslash]
          · by_cases h5 : c = '\t'
            · subst h5; simp [escJson, lexJ, ih, push, unescBslash]
            · by_cases h6 : c = '\x08'
              · subst h6; simp [escJson, lexJ, ih, push, unescBslash]
              · by_cases h7 : c = '\x0c'
                · subst h7; simp [escJson, lexJ, ih, push, unescBslash]
                · by_cases h8 : c.toNat < 32
                  · obtain ⟨hx1, hx2⟩ := hexVal_ctrl c.toNat h8
                    have h0 : hexVal '0' = some 0 := by decide
                    have hsum : c.toNat / 16 * 16 + c.toNat % 16 = c.toNat := by omega
                    simp [escJson, h1, h2, h3, h4, h5, h6, h7, h8, lexJ, hx1, hx2, h0, hsum, ih, push,
                      Char.ofNat_toNat]
                  · simp [escJson, h1, h2, h3, h4, h5, h6, h7, h8, lexJ, ih, push]

theorem substRound_nil (flags : List (Str × Str)) : substRound flags [] = [] := by
  induction flags with
  | nil => rfl
  | cons f fs ih =>
    simp only [substRound, List.foldl_cons] at ih ⊢
    have : replace [] (flagPattern f.1) f.2 = [] := by
      simp [replace, replaceAux, flagPattern]
    rw [this]; exact ih

theorem useFlagsAux_fixed (flags : List (Str × Str)) (n : Nat) (sql : Str)
    (h : substRound flags sql = sql) : useFlagsAux flags (n + 1) sql (substRound flags sql) = .ok sql := by
  simp [useFlagsAux, h]

theorem useFlagsAux_ok_fixed (flags : List (Str × Str)) :
    ∀ (n : Nat) (prev sql out : Str), sql = substRound flags prev →
      useFlagsAux flags n prev sql = .ok out → substRound flags out = out := by
  intro n
  induction n with
  | zero => intro prev sql out _ h; simp [useFlagsAux] at h
  | succ n ih =>
    intro prev sql out hinv h
    unfold useFlagsAux at h
    split at h
    · rename_i heq
      injection h with h
      subst h
      rw [heq] at hinv ⊢
      exact hinv.symm
    · exact ih sql (substRound flags sql) out rfl h

theorem dictGet_dictSet_same (d : List (Str × Str)) (k v : Str) :
    dictGet (dictSet d k v) k = some v := by
  induction d with
  | nil => simp [dictSet, dictGet]
  | cons kv d ih =>
    obtain ⟨k', v'⟩ := kv
    by_cases hk : k' = k
    · simp [dictSet, dictGet, hk]
    · simp [dictSet, dictGet, hk, ih]

theorem dictGet_dictSet_other (d : List (Str × Str)) (k k' v : Str) (hne : k' ≠ k) :
    dictGet (dictSet d k v) k' = dictGet d k' := by
  induction d with
  | nil =>
    have : ¬ k = k' := fun h => hne h.symm
    simp [dictSet, dictGet, this]
  | cons kv d ih =>
    obtain ⟨k2, v2⟩ := kv
    by_cases hk : k2 = k
    · subst hk
      have : ¬ k2 = k' := fun h => hne h.symm
      simp [dictSet, dictGet, this]
    · by_cases hk' : k2 = k'
      · subst hk'
        simp [dictSet, dictGet, hne]
      · simp [dictSet, dictGet, hk, hk', ih]

theorem dictGet_dictUpdate_last (d : List (Str × Str)) (upd : List (Str × Str)) (k v : Str) :
    dictGet (dictUpdate d (upd ++ [(k, v)])) k = some v := by
  simp [dictUpdate, List.foldl_append, dictGet_dictSet_same]

/-- Updating any base dictionary: keys set by the update win, other keys keep the base value. -/
theorem dictGet_dictUpdate (u : List (Str × Str)) : ∀ (b : List (Str × Str)) (k : Str),
    dictGet (dictUpdate b u) k =
      match dictGet (dictUpdate [] u) k with
      | some v => some v
      | none => dictGet b k := by
  induction u with
  | nil => intro b k; simp [dictUpdate, dictGet]
  | cons kv u ih =>
    intro b k
    obtain ⟨k2, v2⟩ := kv
    have h1 := ih (dictSet b k2 v2) k
    have h2 := ih (dictSet [] k2 v2) k
    simp only [dictUpdate, List.foldl_cons] at h1 h2 ⊢
    rw [h1, h2]
    by_cases hk : k = k2
    · subst hk
      rw [dictGet_dictSet_same, dictGet_dictSet_same]
      cases dictGet (List.foldl (fun acc kv => dictSet acc kv.1 kv.2) [] u) k <;> rfl
    · rw [dictGet_dictSet_other _ _ _ _ hk, dictGet_dictSet_other _ _ _ _ hk]
      cases dictGet (List.foldl (fun acc kv => dictSet acc kv.1 kv.2) [] u) k <;> simp [dictGet]

end Logica.Escape
