import LogicaModel.CQ

namespace Logica.CQ

/-! ### late matching: choose one row per atom first, unify afterwards -/

inductive All2 {α β : Type} (R : α → β → Prop) : List α → List β → Prop
  | nil : All2 R [] []
  | cons {a : α} {b : β} {as : List α} {bs : List β} : R a b → All2 R as bs → All2 R (a :: as) (b :: bs)

def matchAll : List Atom → Cand → Env → Option Env
  | [], [], env => some env
  | a :: as, row :: c, env => (matchArgs a.args row env).bind (matchAll as c)
  | _, _, _ => none

theorem filterMap_flatMap' {α β γ : Type} (f : β → Option γ) (g : α → List β) (l : List α) :
    (l.flatMap g).filterMap f = l.flatMap (fun x => (g x).filterMap f) := by
  induction l with
  | nil => rfl
  | cons x xs ih => simp [List.flatMap_cons, List.filterMap_append, ih]

theorem solve_eq (db : DB) : ∀ (atoms : List Atom) (env : Env),
    solve db atoms env = (product (atoms.map (fun a => db a.pred))).filterMap (fun c => matchAll atoms c env)
  | [], env => by simp [solve, product, matchAll]
  | a :: as, env => by
    simp only [solve, List.map_cons, product]
    rw [filterMap_flatMap']
    congr 1
    funext row
    rw [List.filterMap_map]
    cases h : matchArgs a.args row env with
    | none => simp [Function.comp_def, matchAll, h]
    | some e =>
      simp only [Function.comp_def, matchAll, h, Option.bind_some]
      exact solve_eq db as e

/-! ### the compiler state agrees with the environment -/

def Agree (vm : VMap) (env : Env) (cand : Cand) : Prop :=
  ∀ x, lookup x env = (lookupV x vm).map (fun p => valAt cand p.1 p.2)

theorem drop_cons_getD {α : Type} (d : α) : ∀ (l : List α) (j : Nat) (v : α) (vs : List α),
    l.drop j = v :: vs → l.getD j d = v ∧ l.drop (j + 1) = vs
  | [], j, v, vs, h => by simp at h
  | x :: xs, 0, v, vs, h => by
    simp at h
    simp [h.1, h.2]
  | x :: xs, j + 1, v, vs, h => by
    simp at h
    have := drop_cons_getD d xs j v vs h
    simpa using this

theorem condsHold_append (a b : List (SExpr × SExpr)) (cand : Cand) :
    condsHold (a ++ b) cand = (condsHold a cand && condsHold b cand) := by
  simp [condsHold, List.all_append]

theorem compileArgs_conds (t : Nat) : ∀ (ts : List Term) (j : Nat) (st : CState),
    ∃ ext, (compileArgs t ts j st).conds = st.conds ++ ext
  | [], j, st => ⟨[], by simp [compileArgs]⟩
  | .const c :: ts, j, st => by
    obtain ⟨e, he⟩ := compileArgs_conds t ts (j + 1) { st with conds := st.conds ++ [(.col t j, .const c)] }
    exact ⟨(.col t j, .const c) :: e, by simp [compileArgs, he]⟩
  | .var x :: ts, j, st => by
    cases h : lookupV x st.vmap with
    | none =>
      obtain ⟨e, he⟩ := compileArgs_conds t ts (j + 1) { st with vmap := (x, (t, j)) :: st.vmap }
      exact ⟨e, by simp [compileArgs, h, he]⟩
    | some p =>
      obtain ⟨t0, c0⟩ := p
      obtain ⟨e, he⟩ := compileArgs_conds t ts (j + 1) { st with conds := st.conds ++ [(.col t j, .col t0 c0)] }
      exact ⟨(.col t j, .col t0 c0) :: e, by simp [compileArgs, h, he]⟩

theorem compileArgs_false (t : Nat) (ts : List Term) (j : Nat) (st : CState) (cand : Cand)
    (h : condsHold st.conds cand = false) : condsHold (compileArgs t ts j st).conds cand = false := by
  obtain ⟨e, he⟩ := compileArgs_conds t ts j st
  rw [he, condsHold_append, h]; rfl

theorem compileAtoms_conds : ∀ (atoms : List Atom) (t : Nat) (st : CState),
    ∃ ext, (compileAtoms atoms t st).conds = st.conds ++ ext
  | [], t, st => ⟨[], by simp [compileAtoms]⟩
  | a :: as, t, st => by
    obtain ⟨e1, h1⟩ := compileArgs_conds t a.args 0 st
    obtain ⟨e2, h2⟩ := compileAtoms_conds as (t + 1) (compileArgs t a.args 0 st)
    exact ⟨e1 ++ e2, by simp [compileAtoms, h2, h1]⟩

theorem compileAtoms_false (atoms : List Atom) (t : Nat) (st : CState) (cand : Cand)
    (h : condsHold st.conds cand = false) : condsHold (compileAtoms atoms t st).conds cand = false := by
  obtain ⟨e, he⟩ := compileAtoms_conds atoms t st
  rw [he, condsHold_append, h]; rfl

/-- what the arguments of one atom contribute -/
def ArgsPost (st st' : CState) (cand : Cand) : Option Env → Prop
  | some env' => Agree st'.vmap env' cand ∧ condsHold st'.conds cand = condsHold st.conds cand
  | none => condsHold st'.conds cand = false

theorem compileArgs_const (t : Nat) (c : Val) (ts : List Term) (j : Nat) (st : CState) :
    compileArgs t (.const c :: ts) j st
      = compileArgs t ts (j + 1) { st with conds := st.conds ++ [(.col t j, .const c)] } := by
  simp [compileArgs]

theorem compileArgs_var_none (t x : Nat) (ts : List Term) (j : Nat) (st : CState) (h : lookupV x st.vmap = none) :
    compileArgs t (.var x :: ts) j st
      = compileArgs t ts (j + 1) { st with vmap := (x, (t, j)) :: st.vmap } := by
  simp [compileArgs, h]

theorem compileArgs_var_some (t x t0 c0 : Nat) (ts : List Term) (j : Nat) (st : CState)
    (h : lookupV x st.vmap = some (t0, c0)) :
    compileArgs t (.var x :: ts) j st
      = compileArgs t ts (j + 1) { st with conds := st.conds ++ [(.col t j, .col t0 c0)] } := by
  simp [compileArgs, h]

theorem condsHold_snoc (cs : List (SExpr × SExpr)) (a b : SExpr) (cand : Cand) :
    condsHold (cs ++ [(a, b)]) cand = (condsHold cs cand && (evalS cand a == evalS cand b)) := by
  simp [condsHold, List.all_append]

theorem args_lemma (cand : Cand) (t : Nat) : ∀ (ts : List Term) (j : Nat) (st : CState) (env : Env) (vs : Row),
    (cand.getD t []).drop j = vs → vs.length = ts.length → Agree st.vmap env cand →
    ArgsPost st (compileArgs t ts j st) cand (matchArgs ts vs env)
  | [], j, st, env, vs, _, hl, hag => by
    have : vs = [] := List.eq_nil_of_length_eq_zero hl
    subst this
    simp [matchArgs, ArgsPost, compileArgs, hag]
  | .const c :: ts, j, st, env, [], _, hl, _ => by simp at hl
  | .var x :: ts, j, st, env, [], _, hl, _ => by simp at hl
  | .const c :: ts, j, st, env, v :: vs, hd, hl, hag => by
    obtain ⟨hv, hd'⟩ := drop_cons_getD (0 : Val) _ j v vs hd
    have hl' : vs.length = ts.length := by simpa using hl
    have hval : valAt cand t j = v := hv
    rw [compileArgs_const]
    simp only [matchArgs]
    by_cases hc : c = v
    · simp only [hc, if_true]
      have ih := args_lemma cand t ts (j + 1) { st with conds := st.conds ++ [(.col t j, .const v)] } env vs hd' hl' hag
      cases hm : matchArgs ts vs env with
      | none => rw [hm] at ih; simpa [ArgsPost] using ih
      | some e =>
        rw [hm] at ih
        simp only [ArgsPost] at ih ⊢
        refine ⟨ih.1, ?_⟩
        rw [ih.2, condsHold_snoc]
        simp [evalS, hval]
    · simp only [hc, if_false, ArgsPost]
      apply compileArgs_false
      simp only [condsHold_snoc]
      have : (evalS cand (.col t j) == evalS cand (.const c)) = false := by
        simp [evalS, hval]; exact fun h => hc h.symm
      rw [this]; simp
  | .var x :: ts, j, st, env, v :: vs, hd, hl, hag => by
    obtain ⟨hv, hd'⟩ := drop_cons_getD (0 : Val) _ j v vs hd
    have hl' : vs.length = ts.length := by simpa using hl
    have hval : valAt cand t j = v := hv
    have hx := hag x
    cases hlv : lookupV x st.vmap with
    | none =>
      rw [compileArgs_var_none _ _ _ _ _ hlv]
      rw [hlv] at hx
      simp only [Option.map_none] at hx
      simp only [matchArgs, hx]
      have hag' : Agree ((x, (t, j)) :: st.vmap) ((x, v) :: env) cand := by
        intro y
        by_cases hy : x = y
        · subst hy
          simp [lookup, lookupV, hval]
        · simp [lookup, lookupV, hy]; exact hag y
      exact args_lemma cand t ts (j + 1) { st with vmap := (x, (t, j)) :: st.vmap } ((x, v) :: env) vs hd' hl' hag'
    | some p =>
      obtain ⟨t0, c0⟩ := p
      rw [compileArgs_var_some _ _ _ _ _ _ _ hlv]
      rw [hlv] at hx
      simp only [Option.map_some] at hx
      simp only [matchArgs, hx]
      by_cases hw : valAt cand t0 c0 = v
      · simp only [hw, if_true]
        have ih := args_lemma cand t ts (j + 1) { st with conds := st.conds ++ [(.col t j, .col t0 c0)] } env vs hd' hl' hag
        cases hm : matchArgs ts vs env with
        | none => rw [hm] at ih; simpa [ArgsPost] using ih
        | some e =>
          rw [hm] at ih
          simp only [ArgsPost] at ih ⊢
          refine ⟨ih.1, ?_⟩
          rw [ih.2, condsHold_snoc]
          simp [evalS, hval, hw]
      · simp only [hw, if_false, ArgsPost]
        apply compileArgs_false
        simp only [condsHold_snoc]
        have : (evalS cand (.col t j) == evalS cand (.col t0 c0)) = false := by
          simp [evalS, hval]; exact fun h => hw h.symm
        rw [this]; simp

theorem atoms_lemma (cand : Cand) : ∀ (atoms : List Atom) (t : Nat) (st : CState) (env : Env) (rows : Cand),
    cand.drop t = rows → All2 (fun (a : Atom) (row : Row) => row.length = a.args.length) atoms rows →
    Agree st.vmap env cand → ArgsPost st (compileAtoms atoms t st) cand (matchAll atoms rows env)
  | [], t, st, env, rows, _, hf, hag => by
    cases hf
    simp [matchAll, ArgsPost, compileAtoms, hag]
  | a :: as, t, st, env, rows, hd, hf, hag => by
    cases hf with
    | cons hrow hrest =>
      rename_i row rows'
      obtain ⟨hr, hd'⟩ := drop_cons_getD ([] : Row) cand t row rows' hd
      have h0 : (cand.getD t []).drop 0 = row := by simpa using hr
      have ha := args_lemma cand t a.args 0 st env row h0 hrow hag
      simp only [matchAll, compileAtoms]
      cases hm : matchArgs a.args row env with
      | none =>
        rw [hm] at ha
        simp only [ArgsPost] at ha
        simp only [Option.bind_none, ArgsPost]
        exact compileAtoms_false as (t + 1) _ cand ha
      | some e =>
        rw [hm] at ha
        simp only [ArgsPost] at ha
        simp only [Option.bind_some]
        have ih := atoms_lemma cand as (t + 1) (compileArgs t a.args 0 st) e rows' hd' hrest ha.1
        cases hm2 : matchAll as rows' e with
        | none => rw [hm2] at ih; simpa [ArgsPost] using ih
        | some e2 =>
          rw [hm2] at ih
          simp only [ArgsPost] at ih ⊢
          exact ⟨ih.1, by rw [ih.2, ha.2]⟩

/-! ### candidates of the FROM clause have the right shape -/

theorem mem_product : ∀ (tabs : List (List Row)) (c : Cand), c ∈ product tabs →
    All2 (fun (row : Row) (tab : List Row) => row ∈ tab) c tabs
  | [], c, h => by
    simp [product] at h
    subst h
    exact All2.nil
  | tab :: tabs, c, h => by
    simp only [product, List.mem_flatMap, List.mem_map] at h
    obtain ⟨row, hrow, c', hc', rfl⟩ := h
    exact All2.cons hrow (mem_product tabs c' hc')

theorem arity_of_mem (db : DB) : ∀ (atoms : List Atom) (c : Cand),
    (∀ a ∈ atoms, ∀ row ∈ db a.pred, row.length = a.args.length) →
    All2 (fun (row : Row) (tab : List Row) => row ∈ tab) c (atoms.map (fun a => db a.pred)) →
    All2 (fun (a : Atom) (row : Row) => row.length = a.args.length) atoms c
  | [], c, _, h => by
    cases h
    exact All2.nil
  | a :: as, c, har, h => by
    cases h with
    | cons hrow hrest =>
      exact All2.cons (har a (by simp) _ hrow)
        (arity_of_mem db as _ (fun a' ha' => har a' (by simp [ha'])) hrest)

theorem filter_map_eq_filterMap_map {α β γ : Type} (p : α → Bool) (g : α → γ) (f : α → Option β) (h : β → γ) :
    ∀ (l : List α), (∀ c ∈ l, match f c with
        | some e => p c = true ∧ g c = h e
        | none => p c = false) →
      (l.filter p).map g = (l.filterMap f).map h
  | [], _ => rfl
  | c :: l, hyp => by
    have hc := hyp c (by simp)
    have ih := filter_map_eq_filterMap_map p g f h l (fun c' hc' => hyp c' (by simp [hc']))
    cases hf : f c with
    | none =>
      rw [hf] at hc
      simp only at hc
      simp [hc, hf, ih]
    | some e =>
      rw [hf] at hc
      simp only at hc
      simp [hc.1, hf, ih, hc.2]

theorem agree_nil (cand : Cand) : Agree [] [] cand := by
  intro x; simp [lookup, lookupV]

theorem term_agree (vm : VMap) (env : Env) (cand : Cand) (h : Agree vm env cand) (tm : Term) :
    evalS cand (compileTerm vm tm) = evalTerm env tm := by
  cases tm with
  | const c => rfl
  | var x =>
    simp only [compileTerm, evalTerm, h x]
    cases hv : lookupV x vm with
    | none => rfl
    | some p => obtain ⟨t, c⟩ := p; rfl

/-- **Compiler correctness on the conjunctive fragment**: the SELECT emitted for a rule returns exactly the
multiset (here even: the list, in loop order) of rows the rule denotes. -/
theorem compile_correct (db : DB) (r : Rule) (har : ArityOK db r) :
    evalSelect db (compile r) = denote db r := by
  unfold evalSelect denote
  rw [solve_eq]
  simp only [compile, List.map_map]
  have : (List.map (fun a => db a.pred) r.body) = List.map (db ∘ fun x => x.pred) r.body := rfl
  rw [← this]
  apply filter_map_eq_filterMap_map
  intro c hc
  have hshape := arity_of_mem db r.body c har (mem_product _ c hc)
  have hat := atoms_lemma c r.body 0 ⟨[], []⟩ [] c (by simp) hshape (agree_nil c)
  cases hm : matchAll r.body c [] with
  | none =>
    rw [hm] at hat
    simpa [ArgsPost] using hat
  | some e =>
    rw [hm] at hat
    simp only [ArgsPost] at hat
    refine ⟨by rw [hat.2]; rfl, ?_⟩
    apply List.map_congr_left
    intro tm _
    exact term_agree _ _ _ hat.1 tm

theorem compile_rules_correct (db : DB) (rs : List Rule) (har : ∀ r ∈ rs, ArityOK db r) :
    evalUnion db (rs.map compile) = denoteRules db rs := by
  unfold evalUnion denoteRules
  induction rs with
  | nil => rfl
  | cons r rs ih =>
    simp only [List.map_cons, List.flatMap_cons]
    rw [compile_correct db r (har r (by simp)), ih (fun r' hr' => har r' (by simp [hr']))]

end Logica.CQ

namespace Logica.CQ

theorem expr_agree (vm : VMap) (env : Env) (cand : Cand) (h : Agree vm env cand) :
    ∀ (e : Expr), evalS cand (compileE vm e) = evalE env e
  | .term t => term_agree vm env cand h t
  | .bin op a b => by
    simp only [compileE, evalS, evalE]
    rw [expr_agree vm env cand h a, expr_agree vm env cand h b]

theorem filter_map_eq_filterMap_filter_map {α β γ : Type} (p : α → Bool) (g : α → γ) (f : α → Option β)
    (t : β → Bool) (h : β → γ) :
    ∀ (l : List α), (∀ c ∈ l, match f c with
        | some e => p c = t e ∧ g c = h e
        | none => p c = false) →
      (l.filter p).map g = ((l.filterMap f).filter t).map h
  | [], _ => rfl
  | c :: l, hyp => by
    have hc := hyp c (by simp)
    have ih := filter_map_eq_filterMap_filter_map p g f t h l (fun c' hc' => hyp c' (by simp [hc']))
    cases hf : f c with
    | none =>
      rw [hf] at hc
      simp only at hc
      simp [hc, hf, ih]
    | some e =>
      rw [hf] at hc
      simp only at hc
      by_cases ht : t e = true
      · simp [hc.1, ht, hf, ih, hc.2]
      · simp [hc.1, ht, hf, ih]

/-- **Compiler correctness with arithmetic and comparisons**: for rules whose heads are arithmetic
expressions and whose bodies are atoms plus comparisons between arithmetic expressions, the emitted
SELECT … FROM … WHERE returns exactly the rows the rule denotes. -/
theorem xcompile_correct (db : DB) (r : XRule)
    (har : ∀ a ∈ r.body, ∀ row ∈ db a.pred, row.length = a.args.length) :
    evalXSelect db (xcompile r) = xdenote db r := by
  unfold evalXSelect xdenote
  rw [solve_eq]
  simp only [xcompile, List.map_map]
  have : (List.map (fun a => db a.pred) r.body) = List.map (db ∘ fun x => x.pred) r.body := rfl
  rw [← this]
  apply filter_map_eq_filterMap_filter_map
  intro c hc
  have hshape := arity_of_mem db r.body c har (mem_product _ c hc)
  have hat := atoms_lemma c r.body 0 ⟨[], []⟩ [] c (by simp) hshape (agree_nil c)
  cases hm : matchAll r.body c [] with
  | none =>
    rw [hm] at hat
    have : condsHold (compileAtoms r.body 0 ⟨[], []⟩).conds c = false := by simpa [ArgsPost] using hat
    simp [this]
  | some e =>
    rw [hm] at hat
    simp only [ArgsPost] at hat
    have hcond : condsHold (compileAtoms r.body 0 ⟨[], []⟩).conds c = true := by rw [hat.2]; rfl
    refine ⟨?_, ?_⟩
    · simp only [hcond, Bool.true_and, testsHold, testsHoldEnv, List.all_map]
      apply List.all_congr rfl
      intro t
      simp only [Function.comp]
      rw [expr_agree _ _ _ hat.1, expr_agree _ _ _ hat.1]
    · apply List.map_congr_left
      intro e' _
      exact expr_agree _ _ _ hat.1 e'

end Logica.CQ
