import Lean.Data.Json
import LogicaModel.Sem
/-! JSON encoding of the core-language AST and values for the driver (no semantic content). -/
open Lean
namespace Logica.Sem

partial def valOfJson (j : Json) : Except String Val :=
  match j with
  | .null => pure .null
  | .bool b => pure (boolV b)
  | .num n => if n.exponent == 0 then pure (.int n.mantissa) else throw "non-integer number"
  | .str s => pure (.str s)
  | .arr a => do pure (.list (← a.toList.mapM valOfJson))
  | .obj _ => do
    let fs ← j.getObjValAs? (Array Json) "$r"
    let l ← fs.toList.mapM fun p => do
      let k ← (← p.getArrVal? 0).getStr?
      let v ← valOfJson (← p.getArrVal? 1)
      pure (k, v)
    pure (.record l)

partial def valToJson : Val → Json
  | .null => Json.null
  | .int i => Json.num i
  | .str s => Json.str s
  | .list l => Json.arr (l.map valToJson).toArray
  | .record fs => Json.mkObj [("$r", Json.arr (fs.map fun (k, v) => Json.arr #[Json.str k, valToJson v]).toArray)]

mutual
  partial def exprOfJson (j : Json) : Except String Expr := do
    if let .ok v := j.getObjVal? "lit" then return .lit (← valOfJson v)
    if let .ok v := j.getObjValAs? String "var" then return .var v
    if let .ok f := j.getObjValAs? String "op" then
      let args ← j.getObjValAs? (Array Json) "args"
      return .op f (← args.toList.mapM exprOfJson)
    if let .ok cs := j.getObjValAs? (Array Json) "if" then
      let cases ← cs.toList.mapM fun p => do
        pure (← exprOfJson (← p.getArrVal? 0), ← exprOfJson (← p.getArrVal? 1))
      return .ite cases (← exprOfJson (← j.getObjVal? "else"))
    if let .ok es := j.getObjValAs? (Array Json) "list" then
      return .listE (← es.toList.mapM exprOfJson)
    if let .ok fs := j.getObjValAs? (Array Json) "rec" then
      return .recE (← fs.toList.mapM namedExpr)
    if let .ok e := j.getObjVal? "sub" then
      return .sub (← exprOfJson e) (← j.getObjValAs? String "field")
    if let .ok p := j.getObjValAs? String "call" then
      let args ← j.getObjValAs? (Array Json) "args"
      return .call p (← args.toList.mapM namedExpr)
    if let .ok op := j.getObjValAs? String "agg" then
      return .agg op (← exprOfJson (← j.getObjVal? "e")) (← prpOfJson (← j.getObjVal? "body"))
    throw ("bad expression json: " ++ j.compress)
  partial def namedExpr (p : Json) : Except String (String × Expr) := do
    pure (← (← p.getArrVal? 0).getStr?, ← exprOfJson (← p.getArrVal? 1))
  partial def prpOfJson (j : Json) : Except String Prp := do
    if let .ok p := j.getObjValAs? String "atom" then
      let args ← j.getObjValAs? (Array Json) "args"
      return .atom p (← args.toList.mapM namedExpr)
    if let .ok ab := j.getObjValAs? (Array Json) "eq" then
      return .eq (← exprOfJson ab[0]!) (← exprOfJson ab[1]!)
    if let .ok e := j.getObjVal? "test" then return .test (← exprOfJson e)
    if let .ok xl := j.getObjValAs? (Array Json) "in" then
      return .inn (← exprOfJson xl[0]!) (← exprOfJson xl[1]!)
    if let .ok ps := j.getObjValAs? (Array Json) "and" then return .conj (← ps.toList.mapM prpOfJson)
    if let .ok ps := j.getObjValAs? (Array Json) "or" then return .disj (← ps.toList.mapM prpOfJson)
    if let .ok p := j.getObjVal? "not" then return .neg (← prpOfJson p)
    throw ("bad proposition json: " ++ j.compress)
end

def ruleOfJson (j : Json) : Except String Rule := do
  let head ← j.getObjValAs? String "head"
  let args ← j.getObjValAs? (Array Json) "args"
  let as ← args.toList.mapM fun p => do
    let f ← (← p.getArrVal? 0).getStr?
    let v ← p.getArrVal? 1
    match v.getObjValAs? String "aggop" with
    | .ok op => pure (f, HeadArg.agg op (← exprOfJson (← v.getObjVal? "e")))
    | .error _ => pure (f, HeadArg.plain (← exprOfJson v))
  let distinct := (j.getObjValAs? Bool "distinct").toOption.getD false
  let body ← match j.getObjVal? "body" with
    | .ok b => if b.isNull then pure (Prp.conj []) else prpOfJson b
    | .error _ => pure (Prp.conj [])
  pure { head := head, args := as, distinct := distinct, body := body }

def stratumOfJson (j : Json) : Except String Stratum := do
  match j.getObjValAs? String "pred" with
  | .ok p => pure (.pred p)
  | .error _ =>
    let ps ← j.getObjValAs? (Array String) "rec"
    let d ← j.getObjValAs? Nat "depth"
    pure (.recursive ps.toList d)

def rowToJson (r : Row) : Json := Json.arr (r.map fun (k, v) => Json.arr #[Json.str k, valToJson v]).toArray

def handleDenote (j : Json) : Except String Json := do
  let rules ← (← j.getObjValAs? (Array Json) "rules").toList.mapM ruleOfJson
  let strata ← (← j.getObjValAs? (Array Json) "strata").toList.mapM stratumOfJson
  let query ← j.getObjValAs? (Array String) "query"
  match evalProgram rules strata [] with
  | .error e => return Json.mkObj [("error", e)]
  | .ok db =>
    return Json.mkObj [("result", Json.mkObj (query.toList.map fun p =>
      (p, Json.arr (((lookup p db).getD []).map rowToJson).toArray)))]

end Logica.Sem
