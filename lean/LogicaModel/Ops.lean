import Lean.Data.Json
import LogicaModel.Escape
import LogicaModel.TypeAlg
import LogicaModel.OrderLimit
import LogicaModel.Concertina
import LogicaModel.Udf
import LogicaModel.SemJson
import LogicaModel.CQ
import LogicaModel.TypeSolve
import LogicaModel.Format
import LogicaModel.Scan
import LogicaModel.Imports
import LogicaModel.Checks
/-! Request handlers of the line-protocol driver (executable definitions of the models only). -/
open Lean

namespace Logica.Ops

def str (j : Json) (k : String) : Except String String := j.getObjValAs? String k
def strL (j : Json) (k : String) : Except String (List Char) := do return (← str j k).toList
def ofL (l : List Char) : Json := Json.str (String.ofList l)

def pairs (j : Json) (k : String) : Except String (List (List Char × List Char)) := do
  let arr ← j.getObjValAs? (Array Json) k
  arr.toList.mapM fun p => do
    let a ← p.getArrVal? 0; let b ← p.getArrVal? 1
    let a ← a.getStr?; let b ← b.getStr?
    pure (a.toList, b.toList)

def dialect (j : Json) : Except String Escape.Dialect := do
  let d ← str j "dialect"
  match Escape.Dialect.ofName d with
  | some d => pure d
  | none => throw ("unknown dialect " ++ d)

def handleEscape (op : String) (j : Json) : Except String Json := do
  match op with
  | "strlit" =>
    let d ← dialect j
    let s ← strL j "s"
    let pinned := (j.getObjValAs? Bool "pinned").toOption.getD false
    let out := if pinned then Escape.strLiteralPinned d s else Escape.strLiteral d s
    return Json.mkObj [("out", ofL out)]
  | "lex" =>
    let d ← dialect j
    let t ← strL j "text"
    match Escape.lexDialect d t with
    | some (s, rest) => return Json.mkObj [("s", ofL s), ("rest", ofL rest)]
    | none => return Json.mkObj [("s", Json.null)]
  | "useflags" =>
    let flags ← pairs j "flags"
    let sql ← strL j "sql"
    match Escape.useFlags flags sql with
    | .ok o => return Json.mkObj [("ok", ofL o)]
    | .recursiveFlags => return Json.mkObj [("err", "recursive-flags")]
  | "buildflags" =>
    let d ← pairs j "defaults"; let r ← pairs j "resets"; let u ← pairs j "user"
    match Escape.buildFlagValues d r u with
    | .ok vals => return Json.mkObj [("ok", Json.arr (vals.map fun (k, v) => Json.arr #[ofL k, ofL v]).toArray)]
    | .undefinedFlags => return Json.mkObj [("err", "undefined-flags")]
  | _ => throw ("unknown op " ++ op)

/-! ### TypeAlg -/
open TypeAlg in
mutual
  partial def tyOfJson (j : Json) : Except String Ty := do
    match j with
    | .str "Any" => pure .any | .str "Singular" => pure .singular | .str "Sequential" => pure .sequential
    | .str "Num" => pure .num | .str "Str" => pure .str | .str "Bool" => pure .bool
    | .str "Time" => pure .time | .str "Bad" => pure .bad
    | _ =>
      match j.getObjVal? "list" with
      | .ok e => return .list (← tyOfJson e)
      | .error _ =>
        match j.getObjVal? "open" with
        | .ok fs => return .record false (← fieldsOfJson fs)
        | .error _ =>
          match j.getObjVal? "closed" with
          | .ok fs => return .record true (← fieldsOfJson fs)
          | .error _ => throw "bad type json"
  partial def fieldsOfJson (j : Json) : Except String Fields := do
    let arr ← j.getArr?
    let mut acc : Fields := .nil
    for p in arr.reverse do
      let k ← (← p.getArrVal? 0).getNat?
      let t ← tyOfJson (← p.getArrVal? 1)
      acc := .cons k t acc
    return acc
end

open TypeAlg in
mutual
  partial def tyToJson : Ty → Json
    | .any => "Any" | .singular => "Singular" | .sequential => "Sequential" | .num => "Num"
    | .str => "Str" | .bool => "Bool" | .time => "Time" | .bad => "Bad"
    | .list e => Json.mkObj [("list", tyToJson e)]
    | .record false fs => Json.mkObj [("open", Json.arr (fieldsToJson fs).toArray)]
    | .record true fs => Json.mkObj [("closed", Json.arr (fieldsToJson fs).toArray)]
  partial def fieldsToJson : Fields → List Json
    | .nil => []
    | .cons k t r => Json.arr #[Json.num k, tyToJson t] :: fieldsToJson r
end

def handleTypeAlg (op : String) (j : Json) : Except String Json := do
  match op with
  | "meet" =>
    let a ← tyOfJson (← j.getObjVal? "a")
    let b ← tyOfJson (← j.getObjVal? "b")
    return Json.mkObj [("m", tyToJson (TypeAlg.meet a b))]
  | "meet3" =>
    let a ← tyOfJson (← j.getObjVal? "a")
    let b ← tyOfJson (← j.getObjVal? "b")
    let c ← tyOfJson (← j.getObjVal? "c")
    return Json.mkObj [("m", tyToJson (TypeAlg.meet (TypeAlg.meet a b) c))]
  | _ => throw ("unknown op " ++ op)

/-! ### OrderLimit -/
def optInt (j : Json) (k : String) : Option Int :=
  match j.getObjVal? k with
  | .ok (.num n) => if n.exponent == 0 then some n.mantissa else none
  | _ => none

def handleOrderLimit (op : String) (j : Json) : Except String Json := do
  match op with
  | "clauses" =>
    let ob : Option (List String) :=
      match j.getObjValAs? (Array String) "order_by" with
      | .ok a => some a.toList
      | .error _ => none
    let lim := optInt j "limit"
    let g := (j.getObjValAs? Bool "ground").toOption.getD false
    let n := (j.getObjValAs? Bool "noinject").toOption.getD false
    let w := (j.getObjValAs? Bool "with").toOption.getD false
    return Json.mkObj [("order_by", OrderLimit.orderByClause ob), ("limit", OrderLimit.limitClause lim),
                       ("ok_injection", OrderLimit.okInjection ob lim g n w)]
  | "eval_ordered" =>
    let rows ← j.getObjValAs? (Array (Array Int)) "rows"
    let keys ← j.getObjValAs? (Array (Array Int)) "keys"
    let ks : List OrderLimit.Key := keys.toList.map fun a => ⟨(a.getD 0 0).toNat, a.getD 1 0 != 0⟩
    let lim := optInt j "limit"
    let out := OrderLimit.evalOrdered (OrderLimit.lexLe ks) lim (rows.toList.map Array.toList)
    return Json.mkObj [("rows", toJson out)]
  | _ => throw ("unknown op " ++ op)

/-! ### Concertina -/
def concertinaConfig (j : Json) : Except String Concertina.Config := do
  let acts ← j.getObjValAs? (Array Json) "actions"
  let its ← j.getObjValAs? (Array Json) "iterations"
  let actions ← acts.toList.mapM fun a => do
    let n ← a.getObjValAs? String "name"
    let r ← a.getObjValAs? (Array String) "requires"
    pure ({ name := n, requires := r.toList } : Concertina.Action)
  let iterations ← its.toList.mapM fun a => do
    let n ← a.getObjValAs? String "name"
    let ps ← a.getObjValAs? (Array String) "predicates"
    let reps ← a.getObjValAs? Nat "repetitions"
    let sig := (a.getObjValAs? String "stop_signal").toOption.getD ""
    let dm := (a.getObjValAs? Bool "diamond").toOption.getD false
    pure ({ name := n, predicates := ps.toList, repetitions := reps, stopSignal := sig, diamond := dm } : Concertina.Iteration)
  pure { actions := actions, iterations := iterations }

def handleConcertina (op : String) (j : Json) : Except String Json := do
  match op with
  | "concertina" =>
    let c ← concertinaConfig j
    let raiseArr := (j.getObjValAs? (Array Json) "raise").toOption.getD #[]
    let raises ← raiseArr.toList.mapM fun p => do
      let s ← (← p.getArrVal? 0).getStr?
      let t ← (← p.getArrVal? 1).getNat?
      pure (s, t)
    let raised : String → Nat → Bool := fun s t => raises.any (fun p => p.1 == s && p.2 ≤ t)
    match Concertina.run c raised with
    | .ok trace stopped => return Json.mkObj [("trace", toJson trace), ("stopped", toJson stopped)]
    | .couldNotSchedule => return Json.mkObj [("error", "could-not-schedule")]
    | .badIteration => return Json.mkObj [("error", "bad-iteration")]
    | .outOfFuel => return Json.mkObj [("error", "out-of-fuel")]
  | "concertina_requires" =>
    let c ← concertinaConfig j
    return Json.mkObj [("requires", Json.mkObj (c.names.map fun a => (a, toJson (Concertina.sortStrings (c.requiresOf a)))))]
  | _ => throw ("unknown op " ++ op)

/-! ### Udf -/
def handleUdf (op : String) (j : Json) : Except String Json := do
  match op with
  | "argk" =>
    let isMax := (j.getObjValAs? Bool "max").toOption.getD false
    let rows ← j.getObjValAs? (Array (Array Int)) "rows"
    let k := optInt j "k"
    -- rows arrive as (arg, value); the model keeps (value, arg)
    let rs : List Udf.VA := rows.toList.map fun a => (a.getD 1 0, a.getD 0 0)
    -- finalize after every prefix
    let outs := (List.range rs.length).map fun i =>
      let pre := rs.take (i + 1)
      match (if isMax then Udf.argMax k pre else Udf.argMin k pre) with
      | some l => toJson l
      | none => Json.null
    return Json.mkObj [("outs", Json.arr outs.toArray)]
  | "range_cte" =>
    let n ← j.getObjValAs? Int "n"
    return Json.mkObj [("out", toJson (Udf.rangeCte n))]
  | _ => throw ("unknown op " ++ op)

/-! ### CQ: verified compiler of the conjunctive fragment -/
def cqTerm (j : Json) : Except String CQ.Term :=
  match j.getObjVal? "var" with
  | .ok v => do let n ← v.getNat?; pure (.var n)
  | .error _ => do let c ← j.getObjValAs? Int "const"; pure (.const c)

def cqRule (j : Json) : Except String CQ.Rule := do
  let head ← j.getObjValAs? (Array Json) "head"
  let body ← j.getObjValAs? (Array Json) "body"
  let hs ← head.toList.mapM cqTerm
  let bs ← body.toList.mapM fun a => do
    let p ← str a "pred"
    let args ← a.getObjValAs? (Array Json) "args"
    let ts ← args.toList.mapM cqTerm
    pure (⟨p, ts⟩ : CQ.Atom)
  pure ⟨hs, bs⟩

def cqSExpr : CQ.SExpr → Json
  | .col t c => Json.arr #[Json.num (Int.ofNat t), Json.num (Int.ofNat c)]
  | .const v => Json.num (JsonNumber.fromInt v)
  | .bin op a b => Json.mkObj [("bin", Json.arr #[Json.str (match op with | .add => "+" | .sub => "-" | .mul => "*"),
                                                   cqSExpr a, cqSExpr b])]

def cqRows (rows : List CQ.Row) : Json := Json.arr (rows.map fun r => Json.arr (r.map fun (v : Int) => Json.num (JsonNumber.fromInt v)).toArray).toArray

def handleCQ (j : Json) : Except String Json := do
  let rules ← j.getObjValAs? (Array Json) "rules"
  let rs ← rules.toList.mapM cqRule
  let dbj ← j.getObjVal? "db"
  let tables : List (String × List CQ.Row) ← match dbj with
    | .obj kvs => kvs.toList.mapM fun (k, v) => do
        let rows ← (fromJson? v : Except String (Array (Array Int)))
        pure (k, rows.toList.map Array.toList)
    | _ => throw "db must be an object"
  let db : CQ.DB := fun p => ((tables.find? (fun kv => kv.1 == p)).map (·.2)).getD []
  let sels := rs.map CQ.compile
  let selJ := sels.map fun q => Json.mkObj [
    ("tables", Json.arr (q.tables.map Json.str).toArray),
    ("conds", Json.arr (q.conds.map fun p => Json.arr #[cqSExpr p.1, cqSExpr p.2]).toArray),
    ("sel", Json.arr (q.sel.map cqSExpr).toArray)]
  let base := [("selects", Json.arr selJ.toArray), ("denote", cqRows (CQ.denoteRules db rs)),
               ("sql_rows", cqRows (CQ.evalUnion db sels))]
  -- optional aggregation: {"agg": {"keys": n, "op": "sum"|"min"|"max"|"count"}}
  match j.getObjVal? "agg" with
  | .ok a => do
    let n ← a.getObjValAs? Nat "keys"
    let opS ← str a "op"
    let op ← match opS with
      | "sum" => pure CQ.AggOp.sum | "min" => pure CQ.AggOp.min | "max" => pure CQ.AggOp.max
      | "count" => pure CQ.AggOp.count | _ => throw ("unknown aggregate " ++ opS)
    return Json.mkObj (base ++ [("group_denote", cqRows (CQ.denoteDistinct db n op rs)),
                                ("group_sql", cqRows (CQ.evalGroupBy db n op sels))])
  | .error _ => return Json.mkObj base

/-! ### TypeSolve: scalar constraint solving -/
def styOfName : String → Except String TypeSolve.STy
  | "any" => pure .any | "singular" => pure .singular | "sequential" => pure .sequential | "num" => pure .num
  | "str" => pure .str | "bool" => pure .bool | "time" => pure .time | "bad" => pure .bad
  | s => throw ("unknown scalar type " ++ s)

def styName : TypeSolve.STy → String
  | .any => "any" | .singular => "singular" | .sequential => "sequential" | .num => "num"
  | .str => "str" | .bool => "bool" | .time => "time" | .bad => "bad"

def handleTySolve (j : Json) : Except String Json := do
  let n ← j.getObjValAs? Nat "n"
  let passes ← j.getObjValAs? Nat "passes"
  let cons ← j.getObjValAs? (Array Json) "cons"
  let cs ← cons.toList.mapM fun c => do
    let k ← (← c.getArrVal? 0).getStr?
    let x ← (← c.getArrVal? 1).getNat?
    if k == "g" then
      let t ← styOfName (← (← c.getArrVal? 2).getStr?)
      pure (TypeSolve.Con.ground x t)
    else
      let y ← (← c.getArrVal? 2).getNat?
      pure (TypeSolve.Con.same x y)
  return Json.arr ((TypeSolve.solveList n cs passes).map fun t => Json.str (styName t)).toArray

/-! ### Format: templating of built-in calls -/
def codesOf (s : String) : List Nat := s.toList.map Char.toNat
def ofCodes (l : List Nat) : String := String.ofList (l.map Char.ofNat)

def handleFormat (op : String) (j : Json) : Except String Json := do
  let t ← str j "template"
  let args ← j.getObjValAs? (Array String) "args"
  let as := args.toList.map codesOf
  let r : Option (List Nat) :=
    if op == "fmt_function" then Format.function (codesOf t) as
    else Format.infixOp (codesOf t) (as.getD 0 []) (as.getD 1 [])
  let ok := if op == "fmt_function" then Format.functionTemplateOK (codesOf t)
            else Format.infixTemplateOK (codesOf t) && Format.infixTemplateTotal (codesOf t)
  let bal (l : List Nat) : Bool := Format.scan l ⟨0, none⟩ == some ⟨0, none⟩
  return Json.mkObj [("out", match r with | some o => Json.str (ofCodes o) | none => Json.null),
                     ("template_ok", ok),
                     ("balanced", match r with | some o => Json.bool (bal o) | none => Json.null),
                     ("args_balanced", Json.bool (as.all bal))]

/-! ### Scan: the scanner of both parsers -/
def rcJson : Scan.RC → Json
  | .ok s => Json.mkObj [("ok", Json.str (String.ofList s))]
  | .eolInString i => Json.mkObj [("error", "EOL in string"), ("idx", Json.num (Int.ofNat i))]
  | .unmatched i => Json.mkObj [("error", "Unmatched"), ("idx", Json.num (Int.ofNat i))]

def handleScan (j : Json) : Except String Json := do
  let t ← str j "text"
  let cs := t.toList
  let evs := (Scan.Py.traverse cs).map fun
    | .ok i _ st => Json.arr #[Json.num (Int.ofNat i), Json.str (String.ofList st.reverse), "OK"]
    | .eol i => Json.arr #[Json.num (Int.ofNat i), Json.null, "EOL in string"]
    | .unmatched i => Json.arr #[Json.num (Int.ofNat i), Json.null, "Unmatched"]
  return Json.mkObj [("py", Json.arr evs.toArray), ("py_rc", rcJson (Scan.Py.removeComments cs)),
                     ("cpp_rc", rcJson (Scan.Cpp.removeComments cs)),
                     ("strip_spaces", Json.str (String.ofList (Scan.stripSpaces cs)))]

/-! ### Imports: file prefixes -/
def handleImports (j : Json) : Except String Json := do
  let files ← j.getObjValAs? (Array (Array String)) "files"
  match Imports.assign (files.toList.map Array.toList) [] with
  | some ps => return Json.arr (ps.map Json.str).toArray
  | none => return Json.null

/-! ### Checks: decision logic of compile-time checks -/
def handleChecks (j : Json) : Except String Json := do
  let preds ← j.getObjValAs? (Array String) "preds"
  let anns ← j.getObjValAs? (Array (Array String)) "annotations"
  let rules ← j.getObjValAs? (Array Json) "rules"
  let rl ← rules.toList.mapM fun r => do
    let p ← (← r.getArrVal? 0).getStr?
    let d ← (← r.getArrVal? 1).getBool?
    pure (p, d)
  let a := Checks.checkAnnotated preds.toList (anns.toList.map fun x => (x.getD 0 "", x.getD 1 ""))
  let d := Checks.checkDistinct [] rl
  return Json.mkObj [("annotated", match a with | some (x, y) => Json.arr #[Json.str x, Json.str y] | none => Json.null),
                     ("distinct", match d with | some p => Json.str p | none => Json.null)]

/-! ### CQ with arithmetic and comparisons -/
partial def cqExpr (j : Json) : Except String CQ.Expr :=
  match j.getObjVal? "bin" with
  | .ok b => do
    let opS ← (← b.getArrVal? 0).getStr?
    let op ← match opS with
      | "+" => pure CQ.ArithOp.add | "-" => pure CQ.ArithOp.sub | "*" => pure CQ.ArithOp.mul
      | _ => throw ("unknown arithmetic operator " ++ opS)
    let a ← cqExpr (← b.getArrVal? 1)
    let c ← cqExpr (← b.getArrVal? 2)
    pure (.bin op a c)
  | .error _ => do pure (.term (← cqTerm j))

def cqCmp (s : String) : Except String CQ.CmpOp :=
  match s with
  | "<" => pure .lt | "<=" => pure .le | ">" => pure .gt | ">=" => pure .ge | "!=" => pure .ne | "==" => pure .eq
  | _ => throw ("unknown comparison " ++ s)

def cmpName : CQ.CmpOp → String
  | .lt => "<" | .le => "<=" | .gt => ">" | .ge => ">=" | .ne => "!=" | .eq => "="

def handleCQX (j : Json) : Except String Json := do
  let rj ← j.getObjVal? "rule"
  let head ← rj.getObjValAs? (Array Json) "head"
  let body ← rj.getObjValAs? (Array Json) "body"
  let tests ← rj.getObjValAs? (Array Json) "tests"
  let hs ← head.toList.mapM cqExpr
  let bs ← body.toList.mapM fun a => do
    let p ← str a "pred"
    let args ← a.getObjValAs? (Array Json) "args"
    let ts ← args.toList.mapM cqTerm
    pure (⟨p, ts⟩ : CQ.Atom)
  let ts ← tests.toList.mapM fun t => do
    let op ← cqCmp (← (← t.getArrVal? 0).getStr?)
    let a ← cqExpr (← t.getArrVal? 1)
    let b ← cqExpr (← t.getArrVal? 2)
    pure (op, a, b)
  let r : CQ.XRule := ⟨hs, bs, ts⟩
  let dbj ← j.getObjVal? "db"
  let tables : List (String × List CQ.Row) ← match dbj with
    | .obj kvs => kvs.toList.mapM fun (k, v) => do
        let rows ← (fromJson? v : Except String (Array (Array Int)))
        pure (k, rows.toList.map Array.toList)
    | _ => throw "db must be an object"
  let db : CQ.DB := fun p => ((tables.find? (fun kv => kv.1 == p)).map (·.2)).getD []
  let q := CQ.xcompile r
  let sel := Json.mkObj [
    ("tables", Json.arr (q.tables.map Json.str).toArray),
    ("tests", Json.arr (q.tests.map fun t => Json.arr #[Json.str (cmpName t.1), cqSExpr t.2.1, cqSExpr t.2.2]).toArray),
    ("conds", Json.arr (q.conds.map fun p => Json.arr #[cqSExpr p.1, cqSExpr p.2]).toArray),
    ("sel", Json.arr (q.sel.map cqSExpr).toArray)]
  return Json.mkObj [("select", sel), ("denote", cqRows (CQ.xdenote db r)), ("sql_rows", cqRows (CQ.evalXSelect db q))]

def handle (j : Json) : Except String Json := do
  let op ← str j "op"
  if ["strlit", "lex", "useflags", "buildflags"].contains op then handleEscape op j
  else if ["meet", "meet3"].contains op then handleTypeAlg op j
  else if ["clauses", "eval_ordered"].contains op then handleOrderLimit op j
  else if ["concertina", "concertina_requires"].contains op then handleConcertina op j
  else if ["argk", "range_cte"].contains op then handleUdf op j
  else if op == "denote" then Sem.handleDenote j
  else if op == "cq" then handleCQ j
  else if op == "cqx" then handleCQX j
  else if op == "tysolve" then handleTySolve j
  else if op == "scan" then handleScan j
  else if op == "import_prefixes" then handleImports j
  else if op == "checks" then handleChecks j
  else if ["fmt_function", "fmt_infix"].contains op then handleFormat op j
  else throw ("unknown op " ++ op)

end Logica.Ops
