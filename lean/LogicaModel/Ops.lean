import Lean.Data.Json
import LogicaModel.Escape
/-! Request handlers of the line-protocol driver (executable definitions of the models only). -/
open Lean

namespace Logica.Ops

def str (j : Json) (k : String) : Except String String := j.getObjValAs? String k
def strL (j : Json) (k : String) : Except String (List Char) := do return (← str j k).toList
def ofL (l : List Char) : Json := Json.str (String.ofList l)

def pairs (j : Json) (k : String) : Except String (List (List Char × List Char)) := do
  let arr ← j.getObjValAs? (Array Json) k
  arr.toList.mapM fun p => do
    let a ← p.getArrVal? 0; let b ← p.getArrVal? 1
    let a ← a.getStr?; let b ← b.getStr?
    pure (a.toList, b.toList)

def dialect (j : Json) : Except String Escape.Dialect := do
  let d ← str j "dialect"
  match Escape.Dialect.ofName d with
  | some d => pure d
  | none => throw ("unknown dialect " ++ d)

def handleEscape (op : String) (j : Json) : Except String Json := do
  match op with
  | "strlit" =>
    let d ← dialect j
    let s ← strL j "s"
    let pinned := (j.getObjValAs? Bool "pinned").toOption.getD false
    let out := if pinned then Escape.strLiteralPinned d s else Escape.strLiteral d s
    return Json.mkObj [("out", ofL out)]
  | "lex" =>
    let d ← dialect j
    let t ← strL j "text"
    match Escape.lexDialect d t with
    | some (s, rest) => return Json.mkObj [("s", ofL s), ("rest", ofL rest)]
    | none => return Json.mkObj [("s", Json.null)]
  | "useflags" =>
    let flags ← pairs j "flags"
    let sql ← strL j "sql"
    match Escape.useFlags flags sql with
    | .ok o => return Json.mkObj [("ok", ofL o)]
    | .recursiveFlags => return Json.mkObj [("err", "recursive-flags")]
  | "buildflags" =>
    let d ← pairs j "defaults"; let r ← pairs j "resets"; let u ← pairs j "user"
    match Escape.buildFlagValues d r u with
    | .ok vals => return Json.mkObj [("ok", Json.arr (vals.map fun (k, v) => Json.arr #[ofL k, ofL v]).toArray)]
    | .undefinedFlags => return Json.mkObj [("err", "undefined-flags")]
  | _ => throw ("unknown op " ++ op)

def handle (j : Json) : Except String Json := do
  let op ← str j "op"
  if ["strlit", "lex", "useflags", "buildflags"].contains op then handleEscape op j
  else throw ("unknown op " ++ op)

end Logica.Ops
