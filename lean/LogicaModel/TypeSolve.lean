import LogicaModel.TypeAlg
/-
Constraint solving over the scalar part of the type lattice (C05).

`STy` are the views without structure (`Any`, `Singular`, `Sequential`, the ground atoms, and the clash);
`smeet` is `TypeAlg.meet` on them (`meet_toTy`, so the correspondence of C16 carries over).
A rule body gives constraints "variable x has (at most) type t" (`ground`) and "x and y are unified" (`same`);
the inference engine applies them by in-place unification of shared references; the model applies them by
`step` on an assignment, in whatever order and as often as a schedule says (`run`).
-/
namespace Logica.TypeSolve
open Logica.TypeAlg

inductive STy
  | any | singular | sequential | num | str | bool | time | bad
  deriving DecidableEq, Repr

def STy.toTy : STy → Ty
  | .any => .any | .singular => .singular | .sequential => .sequential | .num => .num
  | .str => .str | .bool => .bool | .time => .time | .bad => .bad

def smeet : STy → STy → STy
  | .bad, _ => .bad
  | _, .bad => .bad
  | .any, t => t
  | t, .any => t
  | .singular, .sequential => .str
  | .sequential, .singular => .str
  | .singular, t => t
  | t, .singular => t
  | .sequential, .sequential => .sequential
  | .sequential, .str => .str
  | .str, .sequential => .str
  | .sequential, _ => .bad
  | _, .sequential => .bad
  | .num, .num => .num
  | .str, .str => .str
  | .bool, .bool => .bool
  | .time, .time => .time
  | _, _ => .bad

inductive Con
  | ground (x : Nat) (t : STy)
  | same (x y : Nat)
  deriving Repr

abbrev Asg := Nat → STy

def upd (σ : Asg) (x : Nat) (t : STy) : Asg := fun y => if y = x then t else σ y

def step (σ : Asg) : Con → Asg
  | .ground x t => upd σ x (smeet (σ x) t)
  | .same x y => upd (upd σ x (smeet (σ x) (σ y))) y (smeet (σ x) (σ y))

def run (σ : Asg) (cs : List Con) : Asg := cs.foldl step σ

def top : Asg := fun _ => .any

/-- `ρ` satisfies the constraint -/
def Sat (ρ : Asg) : Con → Prop
  | .ground x t => smeet (ρ x) t = ρ x
  | .same x y => ρ x = ρ y

/-- pointwise order: `ρ` is at least as specific as `σ` -/
def le (ρ σ : Asg) : Prop := ∀ x, smeet (ρ x) (σ x) = ρ x

/-- the engine reports a type error -/
def Clash (σ : Asg) : Prop := ∃ x, σ x = .bad

/-! executable version on lists (what the driver runs; `toAsg_stepL` links it to `step`) -/

def stepL (l : List STy) : Con → List STy
  | .ground x t => l.set x (smeet (l.getD x .any) t)
  | .same x y => (l.set x (smeet (l.getD x .any) (l.getD y .any))).set y (smeet (l.getD x .any) (l.getD y .any))

def toAsg (l : List STy) : Asg := fun x => l.getD x .any

def Con.below (n : Nat) : Con → Prop
  | .ground x _ => x < n
  | .same x y => x < n ∧ y < n

/-- `passes` rounds over the constraints on `n` variables -/
def solveList (n : Nat) (cs : List Con) (passes : Nat) : List STy :=
  (List.range passes).foldl (fun l _ => cs.foldl stepL l) (List.replicate n .any)

end Logica.TypeSolve
