/-
Reference semantics of the Logica core language (the "documented semantics" of docs/learn/logica.md):
multisets of rows, conjunction = nested loops (multiplicities multiply), disjunction and several rules =
concatenation (multiplicities add), aggregation per group / per outer binding, negation = no solution.

Values follow the SQLite storage view: booleans are the integers 0/1, `null` propagates through
operators, a test succeeds on a non-null non-zero value.

All functions are total (fuel-indexed where the syntax tree is nested).  No imports outside core.
-/
namespace Logica.Sem

inductive Val
  | null
  | int (i : Int)
  | str (s : String)
  | list (l : List Val)
  | record (fs : List (String × Val))
  deriving Repr, Inhabited

mutual
  def Val.beq : Val → Val → Bool
    | .null, .null => true
    | .int a, .int b => a == b
    | .str a, .str b => a == b
    | .list a, .list b => Val.beqList a b
    | .record a, .record b => Val.beqFields a b
    | _, _ => false
  def Val.beqList : List Val → List Val → Bool
    | [], [] => true
    | a :: as, b :: bs => Val.beq a b && Val.beqList as bs
    | _, _ => false
  def Val.beqFields : List (String × Val) → List (String × Val) → Bool
    | [], [] => true
    | (k, a) :: as, (l, b) :: bs => k == l && Val.beq a b && Val.beqFields as bs
    | _, _ => false
end

instance : BEq Val := ⟨Val.beq⟩

-- total order used for Min/Max/sorting: null < int < str < list < record; lists lexicographic
mutual
  def Val.cmp : Val → Val → Ordering
    | .null, .null => .eq
    | .null, _ => .lt
    | _, .null => .gt
    | .int a, .int b => compare a b
    | .int _, _ => .lt
    | _, .int _ => .gt
    | .str a, .str b => compare a b
    | .str _, _ => .lt
    | _, .str _ => .gt
    | .list a, .list b => Val.cmpList a b
    | .list _, _ => .lt
    | _, .list _ => .gt
    | .record a, .record b => Val.cmpFields a b
  def Val.cmpList : List Val → List Val → Ordering
    | [], [] => .eq
    | [], _ :: _ => .lt
    | _ :: _, [] => .gt
    | a :: as, b :: bs =>
      match Val.cmp a b with
      | .lt => .lt
      | .gt => .gt
      | .eq => Val.cmpList as bs
  def Val.cmpFields : List (String × Val) → List (String × Val) → Ordering
    | [], [] => .eq
    | [], _ :: _ => .lt
    | _ :: _, [] => .gt
    | (_, a) :: as, (_, b) :: bs =>
      match Val.cmp a b with
      | .lt => .lt
      | .gt => .gt
      | .eq => Val.cmpFields as bs
end

def Val.lt (a b : Val) : Bool := Val.cmp a b == .lt

def Val.isNull : Val → Bool
  | .null => true
  | _ => false

def Val.truthy : Val → Bool
  | .int i => i != 0
  | .null => false
  | _ => true

def boolV (b : Bool) : Val := .int (if b then 1 else 0)

abbrev Env := List (String × Val)
abbrev Row := List (String × Val)
abbrev Rel := List Row
abbrev DB := List (String × Rel)

def lookup {α : Type} (k : String) : List (String × α) → Option α
  | [] => none
  | (k', v) :: r => if k' == k then some v else lookup k r

mutual
  inductive Expr
    | lit (v : Val)
    | var (x : String)
    | op (f : String) (args : List Expr)
    | ite (cases : List (Expr × Expr)) (els : Expr)
    | listE (es : List Expr)
    | recE (fs : List (String × Expr))
    | sub (e : Expr) (f : String)
    | call (p : String) (args : List (String × Expr))
    | agg (op : String) (e : Expr) (body : Prp)
  inductive Prp
    | atom (p : String) (args : List (String × Expr))
    | eq (a b : Expr)
    | test (e : Expr)
    | inn (x l : Expr)
    | conj (ps : List Prp)
    | disj (ps : List Prp)
    | neg (p : Prp)
end

instance : Inhabited Expr := ⟨.lit .null⟩
instance : Inhabited Prp := ⟨.conj []⟩

inductive HeadArg
  | plain (e : Expr)
  | agg (op : String) (e : Expr)

structure Rule where
  head : String
  args : List (String × HeadArg)
  distinct : Bool
  body : Prp

/-! ### variables (fuel-indexed traversal of the nested syntax) -/

mutual
  def varsE : Nat → Expr → List String
    | 0, _ => []
    | n + 1, e =>
      match e with
      | .lit _ => []
      | .var x => [x]
      | .op _ args => args.flatMap (varsE n)
      | .ite cs els => cs.flatMap (fun c => varsE n c.1 ++ varsE n c.2) ++ varsE n els
      | .listE es => es.flatMap (varsE n)
      | .recE fs => fs.flatMap (fun f => varsE n f.2)
      | .sub e _ => varsE n e
      | .call _ args => args.flatMap (fun a => varsE n a.2)
      | .agg _ e body => varsE n e ++ varsP n body
  def varsP : Nat → Prp → List String
    | 0, _ => []
    | n + 1, p =>
      match p with
      | .atom _ args => args.flatMap (fun a => varsE n a.2)
      | .eq a b => varsE n a ++ varsE n b
      | .test e => varsE n e
      | .inn x l => varsE n x ++ varsE n l
      | .conj ps => ps.flatMap (varsP n)
      | .disj ps => ps.flatMap (varsP n)
      | .neg p => varsP n p
end

-- variables mentioned *directly* in a scope: not inside an aggregating expression or a negation
-- (`GetTreeOfCombines`: a variable of a combine is outer iff an enclosing scope mentions it directly)
mutual
  def dvarsE : Nat → Expr → List String
    | 0, _ => []
    | n + 1, e =>
      match e with
      | .lit _ => []
      | .var x => [x]
      | .op _ args => args.flatMap (dvarsE n)
      | .ite cs els => cs.flatMap (fun c => dvarsE n c.1 ++ dvarsE n c.2) ++ dvarsE n els
      | .listE es => es.flatMap (dvarsE n)
      | .recE fs => fs.flatMap (fun f => dvarsE n f.2)
      | .sub e _ => dvarsE n e
      | .call _ args => args.flatMap (fun a => dvarsE n a.2)
      | .agg _ _ _ => []
  def dvarsP : Nat → Prp → List String
    | 0, _ => []
    | n + 1, p =>
      match p with
      | .atom _ args => args.flatMap (fun a => dvarsE n a.2)
      | .eq a b => dvarsE n a ++ dvarsE n b
      | .test e => dvarsE n e
      | .inn x l => dvarsE n x ++ dvarsE n l
      | .conj ps => ps.flatMap (dvarsP n)
      | .disj ps => ps.flatMap (dvarsP n)
      | .neg _ => []
end

def FUEL : Nat := 400

/-- a conjunct with its cached variable lists (all, direct) -/
abbrev Item := Prp × List String × List String
def mkItem (p : Prp) : Item := (p, varsP FUEL p, dvarsP FUEL p)

/-! ### scalar operators (SQLite semantics on the generated domain: integers and strings) -/

def truncDiv (a b : Int) : Int := Int.tdiv a b
def truncMod (a b : Int) : Int := Int.tmod a b

def binOp (f : String) (a b : Val) : Except String Val :=
  match f, a, b with
  | "&&", a, b =>
    -- SQL three-valued AND
    if (!a.isNull && !a.truthy) || (!b.isNull && !b.truthy) then .ok (boolV false)
    else if a.isNull || b.isNull then .ok .null else .ok (boolV true)
  | "||", a, b =>
    if a.truthy || b.truthy then .ok (boolV true)
    else if a.isNull || b.isNull then .ok .null else .ok (boolV false)
  -- the arrow of ArgMin / ArgMax is a pair: a null argument or value stays inside it (JSON_OBJECT keeps it)
  | "->", x, y => .ok (.record [("arg", x), ("value", y)])
  | _, .null, _ => .ok .null
  | _, _, .null => .ok .null
  | "+", .int x, .int y => .ok (.int (x + y))
  | "-", .int x, .int y => .ok (.int (x - y))
  | "*", .int x, .int y => .ok (.int (x * y))
  | "/", .int x, .int y => .ok (if y == 0 then .null else .int (truncDiv x y))
  | "%", .int x, .int y => .ok (if y == 0 then .null else .int (truncMod x y))
  | "++", .str x, .str y => .ok (.str (x ++ y))
  | "==", x, y => .ok (boolV (x == y))
  | "!=", x, y => .ok (boolV (!(x == y)))
  | "<", x, y => .ok (boolV (Val.lt x y))
  | "<=", x, y => .ok (boolV (!(Val.lt y x)))
  | ">", x, y => .ok (boolV (Val.lt y x))
  | ">=", x, y => .ok (boolV (!(Val.lt x y)))
  | "Least", x, y => .ok (if Val.lt y x then y else x)
  | "Greatest", x, y => .ok (if Val.lt x y then y else x)
  | "Element", .list l, .int i => .ok (if i < 0 then .null else (l[i.toNat]?).getD .null)
  | "ArrayConcat", .list x, .list y => .ok (.list (x ++ y))
  | f, _, _ => .error ("bad operator application " ++ f)

def unOp (f : String) (a : Val) : Except String Val :=
  match f, a with
  | "IsNull", a => .ok (boolV a.isNull)
  | "IsNotNull", a => .ok (boolV (!a.isNull))
  | _, .null => .ok .null
  | "-", .int x => .ok (.int (-x))
  | "!", a => .ok (boolV (!a.truthy))
  | "Size", .list l => .ok (.int l.length)
  | "Range", .int n => .ok (.list ((List.range n.toNat).map (fun i => Val.int (i : Nat))))
  | "ToString", .int x => .ok (.str (toString x))
  | "ToString", .str s => .ok (.str s)
  | "ToInt64", .int x => .ok (.int x)
  | f, _ => .error ("bad unary operator " ++ f)

/-! ### aggregate operators: folds over the bag of (non-null) values -/

def insertV (a : Val) : List Val → List Val
  | [] => [a]
  | b :: l => if Val.lt b a then b :: insertV a l else a :: b :: l

def sortV (l : List Val) : List Val := l.foldr insertV []

def dedupV : List Val → List Val
  | [] => []
  | a :: l => if l.any (· == a) then dedupV l else a :: dedupV l

def minV : List Val → Val
  | [] => .null
  | a :: l => l.foldl (fun m x => if Val.lt x m then x else m) a

def maxV : List Val → Val
  | [] => .null
  | a :: l => l.foldl (fun m x => if Val.lt m x then x else m) a

def arrowParts (v : Val) : Option (Val × Val) :=
  match v with
  | .record fs => match lookup "arg" fs, lookup "value" fs with
    | some a, some b => some (a, b)
    | _, _ => none
  | _ => none

/-- `aggregate op values`; `k` is the extra argument of the K variants. -/
def aggregate (op : String) (k : Option Int) (vals : List Val) : Except String Val :=
  let nn := vals.filter (fun v => !v.isNull)
  match op with
  | "Sum" =>
    if nn.isEmpty then .ok .null
    else .ok (.int (nn.foldl (fun s v => match v with | .int i => s + i | _ => s) 0))
  | "Min" => .ok (minV nn)
  | "Max" => .ok (maxV nn)
  | "Count" => .ok (.int (dedupV nn).length)
  -- List / Set keep null elements (as JSON_GROUP_ARRAY / DistinctListAgg do); no input at all gives null
  | "List" => if vals.isEmpty then .ok .null else .ok (.list vals)
  | "Set" => if vals.isEmpty then .ok .null else .ok (.list (sortV (dedupV vals)))
  | "AnyValue" => .ok (nn.headD .null)
  | _ =>
    -- arrow-based aggregates
    -- (arg, value); rows whose value is null are ignored, like by every other aggregate
    let pairs := (vals.filterMap arrowParts).filter (fun p => !p.2.isNull)
    let asc := (sortV (pairs.map (fun p => Val.list [p.2, p.1]))).filterMap
      (fun v => match v with | .list [_, a] => some a | _ => none)
    -- all args whose value is the extreme one (ties: any of them is an admissible result)
    let winners := fun (best : Option Val) => match best with
      | none => []
      | some b => (pairs.filter (fun p => p.2 == b)).map (·.1)
    let vals' := pairs.map (·.2)
    match op with
    | "ArgMin" => .ok (asc.headD .null)
    | "ArgMax" => .ok (asc.reverse.headD .null)
    | "ArgMinAny" => .ok (.record [("$any", .list (sortV (dedupV (winners (if vals'.isEmpty then none else some (minV vals'))))))])
    | "ArgMaxAny" => .ok (.record [("$any", .list (sortV (dedupV (winners (if vals'.isEmpty then none else some (maxV vals'))))))])
    | "ArgMinK" => match k with
      | some kk => if pairs.isEmpty then .ok .null else .ok (.list (asc.take kk.toNat))
      | none => .error "ArgMinK needs k"
    | "ArgMaxK" => match k with
      | some kk => if pairs.isEmpty then .ok .null else .ok (.list (asc.reverse.take kk.toNat))
      | none => .error "ArgMaxK needs k"
    | "Array" =>
      -- Array= a -> v : values ordered by arg
      let byArg := (sortV (pairs.map (fun p => Val.list [p.1, p.2]))).filterMap
        (fun v => match v with | .list [_, b] => some b | _ => none)
      if pairs.isEmpty then .ok .null else .ok (.list byArg)
    | _ => .error ("unknown aggregate " ++ op)

/-! ### evaluation -/

def mapM' {α β : Type} (f : α → Except String β) : List α → Except String (List β)
  | [] => .ok []
  | a :: l => do let b ← f a; let r ← mapM' f l; pure (b :: r)

def concatMapM {α β : Type} (f : α → Except String (List β)) : List α → Except String (List β)
  | [] => .ok []
  | a :: l => do let b ← f a; let r ← concatMapM f l; pure (b ++ r)

def allBound (env : Env) (vs : List String) : Bool := vs.all (fun v => (lookup v env).isSome)

/-- SQL equality used by joins and unification of two known values: null equals nothing. -/
def sqlEq (a b : Val) : Bool := !a.isNull && !b.isNull && a == b

mutual
  /-- value of an expression under a complete environment -/
  def evalE (db : DB) : Nat → Env → Expr → Except String Val
    | 0, _, _ => .error "out of fuel"
    | n + 1, env, e =>
      match e with
      | .lit v => .ok v
      | .var x => match lookup x env with
        | some v => .ok v
        | none => .error ("unbound variable " ++ x)
      | .op f [a] => do unOp f (← evalE db n env a)
      | .op f [a, b] => do binOp f (← evalE db n env a) (← evalE db n env b)
      | .op f (a :: b :: rest) => do
        -- variadic Least/Greatest/++ fold to the left
        let x ← binOp f (← evalE db n env a) (← evalE db n env b)
        evalE db n (("$acc", x) :: env) (.op f (.var "$acc" :: rest))
      | .op f [] => .error ("nullary operator " ++ f)
      | .ite cs els => evalIte db n env cs els
      | .listE es => do pure (.list (← mapM' (evalE db n env) es))
      | .recE fs => do
        pure (.record (← mapM' (fun f => do pure (f.1, ← evalE db n env f.2)) fs))
      | .sub e f => do
        match ← evalE db n env e with
        | .record fs => pure ((lookup f fs).getD .null)
        | .null => pure .null
        | _ => .error "subscript of a non-record"
      | .call p _ => .error ("functional call not inlined: " ++ p)
      | .agg op e body => do
        -- aggregate over all solutions of the body under the outer bindings
        let kArg : Option Int := none
        let sols ← solve db n env [body]
        let (op', k) ← match op.splitOn ":" with
          | [o, kk] => pure (o, kk.toInt?)
          | _ => pure (op, kArg)
        let vals ← mapM' (fun s => evalE db n s e) sols
        aggregate op' k vals
  def evalIte (db : DB) : Nat → Env → List (Expr × Expr) → Expr → Except String Val
    | 0, _, _, _ => .error "out of fuel"
    | n + 1, env, [], els => evalE db n env els
    | n + 1, env, (c, t) :: rest, els => do
      if (← evalE db n env c).truthy then evalE db n env t else evalIte db n env rest els
  /-- all solutions (extensions of `env`) of a list of conjuncts, scheduled by readiness -/
  def solve (db : DB) : Nat → Env → List Prp → Except String (List Env)
    | 0, _, _ => .error "out of fuel"
    | n + 1, env, todo => solveI db n env (todo.map mkItem)
  /-- conjuncts carry their (cached) variable lists -/
  def solveI (db : DB) : Nat → Env → List Item → Except String (List Env)
    | 0, _, _ => .error "out of fuel"
    | _ + 1, env, [] => .ok [env]
    | n + 1, env, todo =>
      match pickReady n env [] todo with
      | none => .error "rule is not range-restricted: no conjunct can be evaluated"
      | some (p, rest) =>
        match p with
        | .conj ps => solveI db n env (ps.map mkItem ++ rest)
        | .disj ps => concatMapM (fun q => solveI db n env (mkItem q :: rest)) ps
        | .atom pn args =>
          match lookup pn db with
          | none => .error ("unknown predicate " ++ pn)
          | some rel =>
            -- plain-variable arguments first (they bind), expression arguments afterwards (they test)
            let isVar := fun (a : String × Expr) => match a.2 with | .var _ => true | _ => false
            let args := args.filter isVar ++ args.filter (fun a => !isVar a)
            concatMapM (fun row => do
              match ← matchRow db n env args row with
              | none => pure []
              | some env' => solveI db n env' rest) rel
        | .eq a b =>
          match a, b with
          | .var x, _ =>
            match lookup x env with
            | none => do let v ← evalE db n env b; solveI db n ((x, v) :: env) rest
            | some vx =>
              match b with
              | .var y =>
                match lookup y env with
                | none => solveI db n ((y, vx) :: env) rest
                | some vy => if sqlEq vx vy then solveI db n env rest else .ok []
              | _ => do
                let v ← evalE db n env b
                if sqlEq vx v then solveI db n env rest else .ok []
          | _, .var y =>
            match lookup y env with
            | none => do let v ← evalE db n env a; solveI db n ((y, v) :: env) rest
            | some vy => do
              let v ← evalE db n env a
              if sqlEq v vy then solveI db n env rest else .ok []
          | _, _ => do
            let va ← evalE db n env a
            let vb ← evalE db n env b
            if sqlEq va vb then solveI db n env rest else .ok []
        | .test e => do
          if (← evalE db n env e).truthy then solveI db n env rest else .ok []
        | .inn x l => do
          match ← evalE db n env l with
          | .list vs =>
            match x with
            | .var xn =>
              match lookup xn env with
              | none => concatMapM (fun v => solveI db n ((xn, v) :: env) rest) vs
              | some vx => concatMapM (fun v => if sqlEq vx v then solveI db n env rest else .ok []) vs
            | _ => do
              let vx ← evalE db n env x
              concatMapM (fun v => if sqlEq vx v then solveI db n env rest else .ok []) vs
          | .null => .ok []
          | _ => .error "`in` over a non-list"
        | .neg q => do
          let sols ← Logica.Sem.solve db n env [q]
          if sols.isEmpty then solveI db n env rest else .ok []
  /-- unify the arguments of an atom with a row: unbound variables are bound, everything else is tested -/
  def matchRow (db : DB) : Nat → Env → List (String × Expr) → Row → Except String (Option Env)
    | 0, _, _, _ => .error "out of fuel"
    | _ + 1, env, [], _ => .ok (some env)
    | n + 1, env, (f, e) :: rest, row =>
      match lookup f row with
      | none => .error ("row has no column " ++ f)
      | some v =>
        match e with
        | .var x =>
          match lookup x env with
          | none => matchRow db n ((x, v) :: env) rest row
          | some vx => if sqlEq vx v then matchRow db n env rest row else .ok none
        | _ => do
          let ve ← evalE db n env e
          if sqlEq ve v then matchRow db n env rest row else .ok none
  /-- first conjunct that can be evaluated now; returns it and the others (order kept) -/
  def pickReady : Nat → Env → List Item → List Item → Option (Prp × List Item)
    | 0, _, _, _ => none
    | _ + 1, _, _, [] => none
    | n + 1, env, seen, (p, pv, pd) :: rest =>
      let others := seen.reverse ++ rest
      -- a variable of an aggregating expression / negation is outer iff it is mentioned directly elsewhere
      let otherVars := others.flatMap (·.2.2)
      -- variables of p that matter: bound already, or shared with other conjuncts
      let needBound (vs : List String) : Bool :=
        vs.all (fun v => (lookup v env).isSome || !otherVars.contains v)
      let exprReady (e : Expr) : Bool :=
        match e with
        | .var x => (lookup x env).isSome
        | _ => needBoundE env otherVars e
      let ready : Bool :=
        match p with
        | .conj _ => true
        | .disj _ => true
        | .atom _ args =>
          -- variables bound by plain-variable arguments of the same atom count as bound
          let own : Env := args.filterMap (fun a => match a.2 with | .var x => some (x, Val.null) | _ => none)
          args.all (fun a => match a.2 with
            | .var _ => true
            | e => needBoundE (own ++ env) otherVars e)
        | .eq a b =>
          (match a with | .var _ => true | _ => false) && exprReady b ||
          (match b with | .var _ => true | _ => false) && exprReady a ||
          exprReady a && exprReady b
        | .test e => needBoundE env otherVars e
        | .inn x l => needBoundE env otherVars l &&
            (match x with | .var _ => true | e => needBoundE env otherVars e)
        | .neg _ => needBound pv
      if ready then some (p, others) else pickReady n env ((p, pv, pd) :: seen) rest
  /-- every variable of `e` is bound, except variables local to aggregating sub-expressions -/
  def needBoundE (env : Env) (otherVars : List String) : Expr → Bool
    | e => (freeOuter FUEL e).all (fun v => (lookup v env).isSome) &&
           (aggVars FUEL e).all (fun v => (lookup v env).isSome || !otherVars.contains v)
  /-- variables outside aggregating sub-expressions -/
  def freeOuter : Nat → Expr → List String
    | 0, _ => []
    | n + 1, e =>
      match e with
      | .lit _ => []
      | .var x => [x]
      | .op _ args => args.flatMap (freeOuter n)
      | .ite cs els => cs.flatMap (fun c => freeOuter n c.1 ++ freeOuter n c.2) ++ freeOuter n els
      | .listE es => es.flatMap (freeOuter n)
      | .recE fs => fs.flatMap (fun f => freeOuter n f.2)
      | .sub e _ => freeOuter n e
      | .call _ args => args.flatMap (fun a => freeOuter n a.2)
      | .agg _ _ _ => []
  /-- variables inside aggregating sub-expressions (outer ones must be bound before evaluation) -/
  def aggVars : Nat → Expr → List String
    | 0, _ => []
    | n + 1, e =>
      match e with
      | .lit _ => []
      | .var _ => []
      | .op _ args => args.flatMap (aggVars n)
      | .ite cs els => cs.flatMap (fun c => aggVars n c.1 ++ aggVars n c.2) ++ aggVars n els
      | .listE es => es.flatMap (aggVars n)
      | .recE fs => fs.flatMap (fun f => aggVars n f.2)
      | .sub e _ => aggVars n e
      | .call _ args => args.flatMap (fun a => aggVars n a.2)
      | .agg _ e body => varsE n e ++ varsP n body
end

/-! ### functional calls: `F(a)` in an expression = fresh variable + conjunct `F(a, logica_value: v)` -/

mutual
  /-- returns the rewritten expression, the extra conjuncts and the next fresh index -/
  def inlineE : Nat → Nat → Expr → Expr × List Prp × Nat
    | 0, k, e => (e, [], k)
    | n + 1, k, e =>
      match e with
      | .lit v => (.lit v, [], k)
      | .var x => (.var x, [], k)
      | .op f args => let (as, cs, k') := inlineEs n k args; (.op f as, cs, k')
      | .ite cases els =>
        let (cs', ex, k1) := inlinePairs n k cases
        let (e', ex2, k2) := inlineE n k1 els
        (.ite cs' e', ex ++ ex2, k2)
      | .listE es => let (as, cs, k') := inlineEs n k es; (.listE as, cs, k')
      | .recE fs =>
        let (as, cs, k') := inlineEs n k (fs.map (·.2))
        (.recE ((fs.map (·.1)).zip as), cs, k')
      | .sub e f => let (e', cs, k') := inlineE n k e; (.sub e' f, cs, k')
      | .call p args =>
        let (as, cs, k') := inlineEs n k (args.map (·.2))
        let v := "$f" ++ toString k'
        (.var v, cs ++ [.atom p ((args.map (·.1)).zip as ++ [("logica_value", .var v)])], k' + 1)
      | .agg op e body =>
        let (e', cs, k1) := inlineE n k e
        let (b', k2) := inlineP n k1 body
        (.agg op e' (.conj (b' :: cs)), [], k2)
  def inlineEs : Nat → Nat → List Expr → List Expr × List Prp × Nat
    | 0, k, es => (es, [], k)
    | _ + 1, k, [] => ([], [], k)
    | n + 1, k, e :: es =>
      let (e', c1, k1) := inlineE n k e
      let (es', c2, k2) := inlineEs n k1 es
      (e' :: es', c1 ++ c2, k2)
  def inlinePairs : Nat → Nat → List (Expr × Expr) → List (Expr × Expr) × List Prp × Nat
    | 0, k, ps => (ps, [], k)
    | _ + 1, k, [] => ([], [], k)
    | n + 1, k, (c, t) :: ps =>
      let (c', x1, k1) := inlineE n k c
      let (t', x2, k2) := inlineE n k1 t
      let (ps', x3, k3) := inlinePairs n k2 ps
      ((c', t') :: ps', x1 ++ x2 ++ x3, k3)
  def inlineP : Nat → Nat → Prp → Prp × Nat
    | 0, k, p => (p, k)
    | n + 1, k, p =>
      match p with
      | .atom pn args =>
        let (as, cs, k') := inlineEs n k (args.map (·.2))
        (.conj (.atom pn ((args.map (·.1)).zip as) :: cs), k')
      | .eq a b =>
        let (a', c1, k1) := inlineE n k a
        let (b', c2, k2) := inlineE n k1 b
        (.conj (.eq a' b' :: (c1 ++ c2)), k2)
      | .test e => let (e', cs, k') := inlineE n k e; (.conj (cs ++ [.test e']), k')
      | .inn x l =>
        let (x', c1, k1) := inlineE n k x
        let (l', c2, k2) := inlineE n k1 l
        (.conj (c1 ++ c2 ++ [.inn x' l']), k2)
      | .conj ps => let (ps', k') := inlinePs n k ps; (.conj ps', k')
      | .disj ps => let (ps', k') := inlinePs n k ps; (.disj ps', k')
      | .neg q => let (q', k') := inlineP n k q; (.neg q', k')
  def inlinePs : Nat → Nat → List Prp → List Prp × Nat
    | 0, k, ps => (ps, k)
    | _ + 1, k, [] => ([], k)
    | n + 1, k, p :: ps =>
      let (p', k1) := inlineP n k p
      let (ps', k2) := inlinePs n k1 ps
      (p' :: ps', k2)
end

/-! ### rules and programs -/

def headPlainCols (r : Rule) : List (String × Expr) :=
  r.args.filterMap (fun a => match a.2 with | .plain e => some (a.1, e) | .agg _ _ => none)

def hasAgg (r : Rule) : Bool := r.args.any (fun a => match a.2 with | .agg _ _ => true | _ => false)

/-- inline the functional calls of a rule (head expressions contribute conjuncts to the body) -/
def inlineStep (acc : List (String × HeadArg) × List Prp × Nat) (a : String × HeadArg) :
    List (String × HeadArg) × List Prp × Nat :=
  match a.2 with
  | .plain e => (acc.1 ++ [(a.1, HeadArg.plain (inlineE FUEL acc.2.2 e).1)], acc.2.1 ++ (inlineE FUEL acc.2.2 e).2.1, (inlineE FUEL acc.2.2 e).2.2)
  | .agg op e => (acc.1 ++ [(a.1, HeadArg.agg op (inlineE FUEL acc.2.2 e).1)], acc.2.1 ++ (inlineE FUEL acc.2.2 e).2.1, (inlineE FUEL acc.2.2 e).2.2)

def inlineRule (r : Rule) : Rule :=
  let b := inlineP FUEL 0 r.body
  let h := r.args.foldl inlineStep ([], [], b.2)
  { r with args := h.1, body := .conj (b.1 :: h.2.1) }

/-- rows of one non-distinct rule: one row per solution -/
def ruleRows (db : DB) (r : Rule) : Except String Rel := do
  let sols ← solve db FUEL [] [r.body]
  mapM' (fun s => mapM' (fun a => do
    match a.2 with
    | .plain e => pure (a.1, ← evalE db FUEL s e)
    | .agg _ e => pure (a.1, ← evalE db FUEL s e)) r.args) sols

def rowKeyEq (a b : List Val) : Bool := Val.beqList a b

/-- group rows (key columns, aggregated columns) of a distinct predicate -/
def groupRows (keys : List (List Val)) : List (List Val) :=
  keys.foldl (fun acc k => if acc.any (rowKeyEq k) then acc else acc ++ [k]) []

/-- all rules of a distinct predicate together: group the union of their solutions by the plain columns,
aggregate each aggregated column over the group (columns are taken from the first rule) -/
def distinctRows (db : DB) (rules : List Rule) : Except String Rel := do
  match rules with
  | [] => pure []
  | r0 :: _ =>
    -- per solution: (key values, [(col, value-to-aggregate)])
    let perRule ← mapM' (fun (r : Rule) => do
      let sols ← solve db FUEL [] [r.body]
      mapM' (fun s => do
        let ks ← mapM' (fun (a : String × Expr) => evalE db FUEL s a.2) (headPlainCols r)
        let vs ← mapM' (fun (a : String × HeadArg) => do
          match a.2 with
          | .plain _ => pure Val.null
          | .agg _ e => evalE db FUEL s e) r.args
        pure (ks, vs)) sols) rules
    let all := perRule.flatten
    let keys := groupRows (all.map (·.1))
    mapM' (fun k => do
      let members := all.filter (fun m => rowKeyEq m.1 k)
      let keyCols := (headPlainCols r0).map (·.1)
      let rec build (i : Nat) (args : List (String × HeadArg)) (kc : List (String × Val)) : Except String Row :=
        match args with
        | [] => pure []
        | a :: rest => do
          match a.2 with
          | .plain _ =>
            let v := (lookup a.1 kc).getD .null
            pure ((a.1, v) :: (← build (i + 1) rest kc))
          | .agg op _ =>
            let vals := members.map (fun m => (m.2[i]?).getD .null)
            let (op', kk) := match op.splitOn ":" with
              | [o, kstr] => (o, kstr.toInt?)
              | _ => (op, none)
            let v ← aggregate op' kk vals
            pure ((a.1, v) :: (← build (i + 1) rest kc))
      build 0 r0.args (keyCols.zip k)) keys

/-- denotation of predicate `p` given the relations of everything it reads -/
def predRows (db : DB) (rules : List Rule) (p : String) : Except String Rel := do
  let rs := (rules.filter (fun r => r.head == p)).map inlineRule
  if rs.any (fun r => r.distinct || hasAgg r) then distinctRows db rs
  else do
    let parts ← mapM' (ruleRows db) rs
    pure parts.flatten

/-- one evaluation stratum: either a single non-recursive predicate, or a recursive group iterated
`depth + 1` times simultaneously starting from empty relations -/
inductive Stratum
  | pred (p : String)
  | recursive (ps : List String) (depth : Nat)

def setRel (db : DB) (p : String) (r : Rel) : DB := (p, r) :: db.filter (fun x => x.1 != p)

def iterate (rules : List Rule) (ps : List String) : Nat → DB → Except String DB
  | 0, db => .ok db
  | n + 1, db => do
    let news ← mapM' (fun p => do pure (p, ← predRows db rules p)) ps
    iterate rules ps n (news.foldl (fun d pr => setRel d pr.1 pr.2) db)

def evalProgram (rules : List Rule) (strata : List Stratum) (db : DB) : Except String DB :=
  strata.foldlM (fun db s =>
    match s with
    | .pred p => do pure (setRel db p (← predRows db rules p))
    | .recursive ps depth =>
      iterate rules ps (depth + 1) (ps.foldl (fun d p => setRel d p []) db)) db

end Logica.Sem
