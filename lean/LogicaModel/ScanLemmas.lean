import LogicaModel.Scan
set_option linter.unusedSimpArgs false

namespace Logica.Scan

/-- the stack holds no C++ pending marker -/
def NoSoh (st : List Char) : Prop := soh ∉ st

theorem noSoh_tail {st : List Char} (h : NoSoh st) : NoSoh st.tail := by
  cases st with
  | nil => exact h
  | cons t st' => exact fun hm => h (List.mem_cons_of_mem _ hm)

theorem noSoh_cons {st : List Char} {c : Char} (h : NoSoh st) (hc : c ≠ soh) : NoSoh (c :: st) := by
  intro hm
  rcases List.mem_cons.mp hm with h1 | h1
  · exact hc h1.symm
  · exact h h1

theorem mode_ne_pend {st : List Char} (h : NoSoh st) : mode st ≠ .pend := by
  cases st with
  | nil => simp [mode]
  | cons t st' =>
    have ht : t ≠ soh := fun e => h (by simp [e])
    simp only [mode]
    repeat' split
    all_goals first | (intro hh; cases hh) | contradiction

theorem track_noSoh {c : Char} {st s2 : List Char} (h : NoSoh st) (ht : track c st = some s2) : NoSoh s2 := by
  unfold track at ht
  by_cases ho : isOpen c = true
  · simp only [ho, if_true, Option.some.injEq] at ht
    subst ht
    apply noSoh_cons h
    intro e; subst e
    revert ho; decide
  · simp only [ho] at ht
    cases hq : openOf c with
    | none => simp [hq] at ht; subst ht; exact h
    | some o =>
      simp only [hq] at ht
      cases st with
      | nil => simp at ht
      | cons t st' =>
        simp only at ht
        by_cases hto : t = o
        · simp [hto] at ht; subst ht; exact noSoh_tail h
        · simp [hto] at ht

/-- what `RemoveComments` sees of the two scanners from related states -/
theorem rc_agree : ∀ (s : List Char) (idx : Nat) (st : List Char) (e k : Nat),
    NoSoh st → (e = 0 ∨ k = 0) →
    rc (Py.go s idx st e k) = rc (Cpp.go s idx (List.replicate e soh ++ st) k)
  | [], _, _, _, _, _, _ => by simp [Py.go, Cpp.go]
  | c :: rest, idx, st, e, k + 1, hn, hek => by
    have he : e = 0 := by omega
    subst he
    simp only [Py.go, Cpp.go, List.replicate_zero, List.nil_append]
    simpa using rc_agree rest (idx + 1) st 0 k hn (Or.inl rfl)
  | c :: rest, idx, st, e + 1, 0, hn, _ => by
    have hm : mode (soh :: (List.replicate e soh ++ st)) = .pend := by
      simp [mode, soh]
    simp only [Py.go, Cpp.go, Cpp.act, hm, List.replicate_succ, List.cons_append, List.tail_cons, rc]
    rw [rc_agree rest (idx + 1) st e 0 hn (Or.inr rfl)]
  | c :: rest, idx, st, 0, 0, hn, _ => by
    have hp := mode_ne_pend hn
    have ih0 : ∀ s2, NoSoh s2 → rc (Py.go rest (idx + 1) s2 0 0) = rc (Cpp.go rest (idx + 1) s2 0) := by
      intro s2 h2; simpa using rc_agree rest (idx + 1) s2 0 0 h2 (Or.inl rfl)
    have ihk : ∀ s2 k, NoSoh s2 → rc (Py.go rest (idx + 1) s2 0 k) = rc (Cpp.go rest (idx + 1) s2 k) := by
      intro s2 k h2; simpa using rc_agree rest (idx + 1) s2 0 k h2 (Or.inl rfl)
    have ih2 : ∀ s2, NoSoh s2 → rc (Py.go rest (idx + 1) s2 2 0) = rc (Cpp.go rest (idx + 1) (soh :: soh :: s2) 0) := by
      intro s2 h2; simpa [List.replicate] using rc_agree rest (idx + 1) s2 2 0 h2 (Or.inr rfl)
    have hnorm : rc (match Py.normal c rest st with
          | .yield s2 e => .ok idx c s2 :: Py.go rest (idx + 1) s2 e 0
          | .skip s2 k => Py.go rest (idx + 1) s2 0 k
          | .eolYield s2 => .eol idx :: .ok idx c s2 :: Py.go rest (idx + 1) s2 0 0
          | .stop => [.unmatched idx]) =
        rc (match Cpp.normal c rest st with
          | .yield out next => .ok idx c out :: Cpp.go rest (idx + 1) next 0
          | .skip s2 k => Cpp.go rest (idx + 1) s2 k
          | .eol => .eol idx :: Cpp.go rest (idx + 1) st 0
          | .unmatched s2 => .unmatched idx :: Cpp.go rest (idx + 1) s2 0) := by
      unfold Py.normal Cpp.normal
      by_cases h1 : c = '#'
      · simp only [h1, ↓reduceIte, Bool.false_eq_true]
        exact ihk _ 0 (noSoh_cons hn (by decide))
      · simp only [h1, ↓reduceIte, Bool.false_eq_true]
        by_cases h2 : triple c rest = true
        · simp only [h2, ↓reduceIte, Bool.false_eq_true, rc]
          rw [ih2 _ (noSoh_cons hn (by decide))]
        · simp only [h2, ↓reduceIte, Bool.false_eq_true]
          by_cases h3 : c = '"'
          · simp only [h3, ↓reduceIte, Bool.false_eq_true, rc]; rw [ih0 _ (noSoh_cons hn (by decide))]
          · simp only [h3, ↓reduceIte, Bool.false_eq_true]
            by_cases h4 : c = '\''
            · simp only [h4, ↓reduceIte, Bool.false_eq_true, rc]; rw [ih0 _ (noSoh_cons hn (by decide))]
            · simp only [h4, ↓reduceIte, Bool.false_eq_true]
              by_cases h5 : c = '`'
              · simp only [h5, ↓reduceIte, Bool.false_eq_true, rc]; rw [ih0 _ (noSoh_cons hn (by decide))]
              · simp only [h5, ↓reduceIte, Bool.false_eq_true]
                by_cases h6 : (c = '/' && rest.head? = some '*') = true
                · simp only [h6, ↓reduceIte, Bool.false_eq_true]
                  exact ihk _ 1 (noSoh_cons hn (by decide))
                · simp only [h6, ↓reduceIte, Bool.false_eq_true]
                  cases ht : track c st with
                  | none => simp [rc]
                  | some s2 => simp only [rc]; rw [ih0 _ (track_noSoh hn ht)]
    simp only [Py.go, Cpp.go, List.replicate_zero, List.nil_append, Py.act, Cpp.act]
    cases hm : mode st with
    | pend => exact absurd hm hp
    | code => exact hnorm
    | hash =>
      simp only
      by_cases h1 : c = '\n'
      · simp only [h1, ↓reduceIte, Bool.false_eq_true, rc]; rw [ih0 _ (noSoh_tail hn)]
      · simp only [h1, ↓reduceIte, Bool.false_eq_true]; exact ihk _ 0 hn
    | dq =>
      simp only
      by_cases h1 : c = '\n'
      · simp [h1, rc]
      · simp only [h1, ↓reduceIte, Bool.false_eq_true]
        by_cases h2 : c = '"'
        · simp only [h2, ↓reduceIte, Bool.false_eq_true, rc]; rw [ih0 _ (noSoh_tail hn)]
        · simp only [h2, ↓reduceIte, Bool.false_eq_true, rc]; rw [ih0 _ hn]
    | sq =>
      simp only
      by_cases h1 : c = '\''
      · simp only [h1, ↓reduceIte, Bool.false_eq_true, rc]; rw [ih0 _ (noSoh_tail hn)]
      · simp only [h1, ↓reduceIte, Bool.false_eq_true]
        by_cases h2 : c = '\\'
        · simp only [h2, ↓reduceIte, Bool.false_eq_true, rc]; rw [ih0 _ (noSoh_cons hn (by decide))]
        · simp only [h2, ↓reduceIte, Bool.false_eq_true, rc]; rw [ih0 _ hn]
    | esc =>
      simp only
      cases ht : track c st.tail with
      | none => simp [rc]
      | some s2 => simp only [rc]; rw [ih0 _ (track_noSoh (noSoh_tail hn) ht)]
    | bt =>
      simp only
      by_cases h1 : c = '`'
      · simp only [h1, ↓reduceIte, Bool.false_eq_true, rc]; rw [ih0 _ (noSoh_tail hn)]
      · simp only [h1, ↓reduceIte, Bool.false_eq_true, rc]; rw [ih0 _ hn]
    | tri =>
      simp only
      by_cases h1 : triple c rest = true
      · simp only [h1, ↓reduceIte, Bool.false_eq_true, rc]; rw [ih2 _ (noSoh_tail hn)]
      · simp only [h1, ↓reduceIte, Bool.false_eq_true, rc]
        rw [ih0 _ hn]
    | blk =>
      simp only
      by_cases h1 : (c = '*' && rest.head? = some '/') = true
      · simp only [h1, ↓reduceIte, Bool.false_eq_true]; exact ihk _ 1 (noSoh_tail hn)
      · simp only [h1]; exact ihk _ 0 hn

/-- **The two scanners agree for `RemoveComments` on every string** -/
theorem removeComments_agree (s : List Char) : Py.removeComments s = Cpp.removeComments s := by
  unfold Py.removeComments Cpp.removeComments Py.traverse Cpp.traverse
  simpa using rc_agree s 0 [] 0 0 (by simp [NoSoh]) (Or.inl rfl)

end Logica.Scan

namespace Logica.Scan

/-! ### what the consumers of the scanner observe: characters, their bracket state, errors — not positions -/

inductive V
  | ok (c : Char) (st : List Char)
  | eol
  | unmatched
  deriving Repr, DecidableEq

def view : List Ev → List V
  | [] => []
  | .ok _ c st :: es => .ok c st :: view es
  | .eol _ :: es => .eol :: view es
  | .unmatched _ :: es => .unmatched :: view es

theorem view_append (a b : List Ev) : view (a ++ b) = view a ++ view b := by
  induction a with
  | nil => rfl
  | cons e es ih => cases e <;> simp [view, ih]

theorem go_emit (c : Char) (rest : List Char) (idx : Nat) (st : List Char) (e k : Nat) :
    Py.go (c :: rest) idx st (e + 1) k = .ok idx c st :: Py.go rest (idx + 1) st e k := by simp [Py.go]

theorem go_silent (c : Char) (rest : List Char) (idx : Nat) (st : List Char) (k : Nat) :
    Py.go (c :: rest) idx st 0 (k + 1) = Py.go rest (idx + 1) st 0 k := by simp [Py.go]

theorem go_yield (c : Char) (rest : List Char) (idx : Nat) (st s2 : List Char) (e : Nat)
    (h : Py.act c rest st = .yield s2 e) :
    Py.go (c :: rest) idx st 0 0 = .ok idx c s2 :: Py.go rest (idx + 1) s2 e 0 := by simp [Py.go, h]

theorem go_skip (c : Char) (rest : List Char) (idx : Nat) (st s2 : List Char) (k : Nat)
    (h : Py.act c rest st = .skip s2 k) :
    Py.go (c :: rest) idx st 0 0 = Py.go rest (idx + 1) s2 0 k := by simp [Py.go, h]

/-- positions do not influence the scan -/
theorem view_go_idx : ∀ (s : List Char) (i j : Nat) (st : List Char) (e k : Nat),
    view (Py.go s i st e k) = view (Py.go s j st e k)
  | [], _, _, _, _, _ => by simp [Py.go]
  | c :: rest, i, j, st, e + 1, k => by
    simp only [Py.go, view]; rw [view_go_idx rest (i + 1) (j + 1) st e k]
  | c :: rest, i, j, st, 0, k + 1 => by
    simp only [Py.go]; exact view_go_idx rest (i + 1) (j + 1) st 0 k
  | c :: rest, i, j, st, 0, 0 => by
    simp only [Py.go]
    cases Py.act c rest st with
    | yield s2 e => simp only [view]; rw [view_go_idx rest (i + 1) (j + 1) s2 e 0]
    | skip s2 k => exact view_go_idx rest (i + 1) (j + 1) s2 0 k
    | eolYield s2 => simp only [view]; rw [view_go_idx rest (i + 1) (j + 1) s2 0 0]
    | stop => simp [view]

/-- the scanner is outside strings and comments -/
def CodeMode (st : List Char) : Prop := mode st = .code ∨ mode st = .pend

theorem act_of_codeMode {st : List Char} (h : CodeMode st) (c : Char) (rest : List Char) :
    Py.act c rest st = Py.normal c rest st := by
  unfold Py.act
  rcases h with h | h <;> simp [h]

theorem mode_blk (st : List Char) : mode ('/' :: st) = .blk := by simp [mode]
theorem mode_hash (st : List Char) : mode ('#' :: st) = .hash := by simp [mode]
theorem mode_dq (st : List Char) : mode ('"' :: st) = .dq := by simp [mode]

/-! ### comments -/

/-- no `*/` inside -/
def closeFree : List Char → Bool
  | [] => true
  | [_] => true
  | c :: d :: rest => !(c = '*' && d = '/') && closeFree (d :: rest)

theorem blk_body (b st : List Char) : ∀ (cm : List Char) (idx : Nat), closeFree cm = true →
    Py.go (cm ++ '*' :: '/' :: b) idx ('/' :: st) 0 0 = Py.go b (idx + cm.length + 2) st 0 0
  | [], idx, _ => by
    have hact : Py.act '*' ('/' :: b) ('/' :: st) = .skip st 1 := by simp [Py.act, mode_blk]
    rw [List.nil_append, go_skip _ _ _ _ _ _ hact, go_silent]
    simp
  | [c], idx, _ => by
    have hact : Py.act c ('*' :: '/' :: b) ('/' :: st) = .skip ('/' :: st) 0 := by
      simp [Py.act, mode_blk]
    have := blk_body b st [] (idx + 1) rfl
    simp only [List.nil_append] at this
    show Py.go (c :: '*' :: '/' :: b) idx ('/' :: st) 0 0 = _
    rw [go_skip _ _ _ _ _ _ hact, this]
    simp
  | c :: d :: rest, idx, h => by
    simp only [closeFree, Bool.and_eq_true, Bool.not_eq_true', Bool.and_eq_false_imp, decide_eq_true_eq,
      decide_eq_false_iff_not] at h
    have hact : Py.act c (d :: (rest ++ '*' :: '/' :: b)) ('/' :: st) = .skip ('/' :: st) 0 := by
      simp only [Py.act, mode_blk, List.head?_cons]
      by_cases hc : c = '*'
      · have := h.1 hc
        simp [hc, this]
      · simp [hc]
    have := blk_body b st (d :: rest) (idx + 1) h.2
    simp only [List.cons_append] at this ⊢
    rw [go_skip _ _ _ _ _ _ hact, this]
    congr 1
    simp only [List.length_cons]; omega

/-- **A block comment is invisible**: from any state outside strings and comments, scanning
`/* … */ b` continues exactly as scanning `b`. -/
theorem block_comment_invisible (cm b st : List Char) (idx : Nat) (hst : CodeMode st) (hcm : closeFree cm = true) :
    Py.go ('/' :: '*' :: (cm ++ '*' :: '/' :: b)) idx st 0 0 = Py.go b (idx + cm.length + 4) st 0 0 := by
  have hact : Py.act '/' ('*' :: (cm ++ '*' :: '/' :: b)) st = .skip ('/' :: st) 1 := by
    rw [act_of_codeMode hst]
    simp [Py.normal, triple]
  rw [go_skip _ _ _ _ _ _ hact, go_silent, blk_body b st cm (idx + 1 + 1) hcm]
  congr 1; omega

theorem hash_body (b st : List Char) : ∀ (cm : List Char) (idx : Nat), '\n' ∉ cm →
    Py.go (cm ++ '\n' :: b) idx ('#' :: st) 0 0 = .ok (idx + cm.length) '\n' st :: Py.go b (idx + cm.length + 1) st 0 0
  | [], idx, _ => by
    have hact : Py.act '\n' b ('#' :: st) = .yield st 0 := by simp [Py.act, mode_hash]
    rw [List.nil_append, go_yield _ _ _ _ _ _ hact]
    simp
  | c :: cm, idx, h => by
    have hc : c ≠ '\n' := fun e => h (by simp [e])
    have hact : Py.act c (cm ++ '\n' :: b) ('#' :: st) = .skip ('#' :: st) 0 := by
      simp [Py.act, mode_hash, hc]
    rw [List.cons_append, go_skip _ _ _ _ _ _ hact,
        hash_body b st cm (idx + 1) (fun hm => h (by simp [hm]))]
    have e1 : idx + 1 + cm.length = idx + (c :: cm).length := by simp; omega
    rw [e1]

/-- **A line comment is a newline**: from any state outside strings and comments, `# … \n b` is seen exactly
as `\n b`. -/
theorem line_comment_is_newline (cm b st : List Char) (i j : Nat) (hst : CodeMode st) (hcm : '\n' ∉ cm) :
    view (Py.go ('#' :: (cm ++ '\n' :: b)) i st 0 0) = view (Py.go ('\n' :: b) j st 0 0) := by
  have h1 : Py.act '#' (cm ++ '\n' :: b) st = .skip ('#' :: st) 0 := by
    rw [act_of_codeMode hst]; simp [Py.normal]
  have h2 : Py.act '\n' b st = .yield st 0 := by
    rw [act_of_codeMode hst]
    simp [Py.normal, triple, track, isOpen, openOf]
  rw [go_skip _ _ _ _ _ _ h1, go_yield _ _ _ _ _ _ h2, hash_body b st cm (i + 1) hcm]
  simp only [view]
  rw [view_go_idx b (i + 1 + cm.length + 1) (j + 1) st 0 0]

/-! ### string literals -/

theorem dq_body (b st : List Char) : ∀ (body : List Char) (idx : Nat), '"' ∉ body → '\n' ∉ body →
    view (Py.go (body ++ '"' :: b) idx ('"' :: st) 0 0) =
      body.map (fun c => V.ok c ('"' :: st)) ++ V.ok '"' st :: view (Py.go b 0 st 0 0)
  | [], idx, _, _ => by
    have hact : Py.act '"' b ('"' :: st) = .yield st 0 := by simp [Py.act, mode_dq]
    rw [List.nil_append, go_yield _ _ _ _ _ _ hact]
    simp only [view, List.map_nil, List.nil_append]
    rw [view_go_idx b (idx + 1) 0 st 0 0]
  | c :: body, idx, hq, hn => by
    have hc1 : c ≠ '"' := fun e => hq (by simp [e])
    have hc2 : c ≠ '\n' := fun e => hn (by simp [e])
    have hact : Py.act c (body ++ '"' :: b) ('"' :: st) = .yield ('"' :: st) 0 := by
      simp [Py.act, mode_dq, hc1, hc2]
    rw [List.cons_append, go_yield _ _ _ _ _ _ hact]
    simp only [view, List.map_cons, List.cons_append]
    rw [dq_body b st body (idx + 1) (fun hm => hq (by simp [hm])) (fun hm => hn (by simp [hm]))]

/-- **The content of a string literal is never syntax**: from any state outside strings and comments, a
double-quoted literal is scanned character by character in the same non-empty state — whatever brackets,
comment markers, separators or keywords it contains — and leaves the bracket state as it found it. -/
theorem string_opaque (body b st : List Char) (idx : Nat) (hst : CodeMode st)
    (hq : '"' ∉ body) (hn : '\n' ∉ body) (hnt : body ≠ [] ∨ b.head? ≠ some '"') :
    view (Py.go ('"' :: (body ++ '"' :: b)) idx st 0 0) =
      V.ok '"' ('"' :: st) :: (body.map (fun c => V.ok c ('"' :: st)) ++ V.ok '"' st :: view (Py.go b 0 st 0 0)) := by
  have htri : triple '"' (body ++ '"' :: b) = false := by
    cases body with
    | nil =>
      cases b with
      | nil => simp [triple]
      | cons b0 b' =>
        have : b0 ≠ '"' := by
          rcases hnt with h | h
          · exact absurd rfl h
          · simpa using h
        simp [triple, this]
    | cons c body' =>
      have : c ≠ '"' := fun e => hq (by simp [e])
      simp [triple, this]
  have hact : Py.act '"' (body ++ '"' :: b) st = .yield ('"' :: st) 0 := by
    rw [act_of_codeMode hst]
    simp [Py.normal, htri]
  rw [go_yield _ _ _ _ _ _ hact]
  simp only [view]
  rw [dq_body b st body (idx + 1) hq hn]

end Logica.Scan

namespace Logica.Scan

/-! ### scanning a prefix: the look-ahead of the scanner reaches at most two characters -/

/-- configuration `(idx, state, emit, silent)` after the whole string has been scanned; `none`: the scan stopped -/
def endCfg : List Char → Nat → List Char → Nat → Nat → Option (Nat × List Char × Nat × Nat)
  | [], idx, st, e, k => some (idx, st, e, k)
  | _ :: rest, idx, st, e + 1, k => endCfg rest (idx + 1) st e k
  | _ :: rest, idx, st, 0, k + 1 => endCfg rest (idx + 1) st 0 k
  | c :: rest, idx, st, 0, 0 =>
    match Py.act c rest st with
    | .yield s2 e => endCfg rest (idx + 1) s2 e 0
    | .skip s2 k => endCfg rest (idx + 1) s2 0 k
    | .eolYield s2 => endCfg rest (idx + 1) s2 0 0
    | .stop => none

/-- a character after which the scanner never looks ahead -/
def safeChar (c : Char) : Prop := c ≠ '/' ∧ c ≠ '"' ∧ c ≠ '*'

/-- the prefix does not end in a character that makes the scanner look at what follows -/
def SafeEnd : List Char → Prop
  | [] => True
  | [c] => safeChar c
  | _ :: d :: rest => SafeEnd (d :: rest)

theorem act_congr_rest (c : Char) (r1 r2 st : List Char) (hh : r1.head? = r2.head?)
    (ht : triple c r1 = triple c r2) : Py.act c r1 st = Py.act c r2 st := by
  unfold Py.act Py.normal
  rw [hh, ht]

theorem act_congr (c : Char) (a' X st : List Char) (hs : SafeEnd (c :: a')) :
    Py.act c (a' ++ X) st = Py.act c a' st := by
  cases a' with
  | nil =>
    obtain ⟨h1, h2, h3⟩ := (hs : safeChar c)
    unfold Py.act Py.normal
    simp [triple, h1, h2, h3]
  | cons d a'' =>
    cases a'' with
    | nil =>
      obtain ⟨_, h2, _⟩ := (hs : safeChar d)
      apply act_congr_rest
      · simp
      · simp [triple, h2]
    | cons d2 a3 =>
      apply act_congr_rest
      · simp
      · simp [triple]

theorem safeEnd_tail {c : Char} {a' : List Char} (h : SafeEnd (c :: a')) : SafeEnd a' := by
  cases a' with
  | nil => trivial
  | cons d r => exact h

/-- **Scanning is compositional at safe positions**: the events of `a ++ X` are the events of `a` followed
by the events of `X` from the configuration `a` ends in. -/
theorem go_prefix (X : List Char) : ∀ (a : List Char) (idx : Nat) (st : List Char) (e k : Nat), SafeEnd a →
    Py.go (a ++ X) idx st e k = Py.go a idx st e k ++
      (match endCfg a idx st e k with
       | none => []
       | some (i, s, e', k') => Py.go X i s e' k')
  | [], idx, st, e, k, _ => by simp [Py.go, endCfg]
  | c :: a', idx, st, e + 1, k, hs => by
    simp only [List.cons_append, Py.go, endCfg]
    rw [go_prefix X a' (idx + 1) st e k (safeEnd_tail hs)]
  | c :: a', idx, st, 0, k + 1, hs => by
    simp only [List.cons_append, Py.go, endCfg]
    rw [go_prefix X a' (idx + 1) st 0 k (safeEnd_tail hs)]
  | c :: a', idx, st, 0, 0, hs => by
    simp only [List.cons_append, Py.go, endCfg]
    rw [act_congr c a' X st hs]
    cases Py.act c a' st with
    | yield s2 e => simp only; rw [go_prefix X a' (idx + 1) s2 e 0 (safeEnd_tail hs)]; rfl
    | skip s2 k => simp only; rw [go_prefix X a' (idx + 1) s2 0 k (safeEnd_tail hs)]
    | eolYield s2 => simp only; rw [go_prefix X a' (idx + 1) s2 0 0 (safeEnd_tail hs)]; rfl
    | stop => simp

/-- **Inserting a block comment between tokens changes nothing**: at any position of a text where the scanner
is outside strings and comments (and the text before does not end in `/`, `"` or `*`), a `/* … */` comment
leaves every character and every bracket state the consumers see unchanged. -/
theorem block_comment_insertion (a cm b st : List Char) (i : Nat) (hs : SafeEnd a)
    (hend : endCfg a 0 [] 0 0 = some (i, st, 0, 0)) (hst : CodeMode st) (hcm : closeFree cm = true) :
    view (Py.traverse (a ++ '/' :: '*' :: (cm ++ '*' :: '/' :: b))) = view (Py.traverse (a ++ b)) := by
  unfold Py.traverse
  rw [go_prefix _ a 0 [] 0 0 hs, go_prefix b a 0 [] 0 0 hs, hend]
  simp only [view_append]
  rw [block_comment_invisible cm b st i hst hcm, view_go_idx b (i + cm.length + 4) i st 0 0]

/-- **A line comment before a newline changes nothing.** -/
theorem line_comment_insertion (a cm b st : List Char) (i : Nat) (hs : SafeEnd a)
    (hend : endCfg a 0 [] 0 0 = some (i, st, 0, 0)) (hst : CodeMode st) (hcm : '\n' ∉ cm) :
    view (Py.traverse (a ++ '#' :: (cm ++ '\n' :: b))) = view (Py.traverse (a ++ '\n' :: b)) := by
  unfold Py.traverse
  rw [go_prefix _ a 0 [] 0 0 hs, go_prefix ('\n' :: b) a 0 [] 0 0 hs, hend]
  simp only [view_append]
  rw [line_comment_is_newline cm b st i i hst hcm]

/-- **A string literal anywhere in a text is opaque**: its characters are seen in one non-empty state and the
text after it is scanned as if the literal were not there. -/
theorem string_literal_opaque (a body b st : List Char) (i : Nat) (hs : SafeEnd a)
    (hend : endCfg a 0 [] 0 0 = some (i, st, 0, 0)) (hst : CodeMode st)
    (hq : '"' ∉ body) (hn : '\n' ∉ body) (hnt : body ≠ [] ∨ b.head? ≠ some '"') :
    view (Py.traverse (a ++ '"' :: (body ++ '"' :: b))) =
      view (Py.go a 0 [] 0 0) ++ V.ok '"' ('"' :: st) ::
        (body.map (fun c => V.ok c ('"' :: st)) ++ V.ok '"' st :: view (Py.go b 0 st 0 0)) := by
  unfold Py.traverse
  rw [go_prefix _ a 0 [] 0 0 hs, hend]
  simp only [view_append]
  rw [string_opaque body b st i hst hq hn hnt]

end Logica.Scan

namespace Logica.Scan

theorem dropWhile_nil_iff {p : Char → Bool} : ∀ (l : List Char), l.dropWhile p = [] ↔ ∀ c ∈ l, p c = true
  | [] => by simp
  | c :: l => by
    by_cases hc : p c = true
    · simp [List.dropWhile_cons, hc, dropWhile_nil_iff l]
    · simp [List.dropWhile_cons, hc]

theorem length_dropWhile_le' {p : Char → Bool} : ∀ (l : List Char), (l.dropWhile p).length ≤ l.length
  | [] => by simp
  | c :: l => by
    by_cases hc : p c = true
    · simp only [List.dropWhile_cons, hc, if_true, List.length_cons]
      have := length_dropWhile_le' (p := p) l
      omega
    · simp [List.dropWhile_cons, hc]

theorem dropWhile_append_of_all {p : Char → Bool} (a b : List Char) (h : ∀ c ∈ a, p c = true) :
    (a ++ b).dropWhile p = b.dropWhile p := by
  induction a with
  | nil => rfl
  | cons c a ih =>
    have hc := h c (by simp)
    simp only [List.cons_append, List.dropWhile_cons, hc, if_true]
    exact ih (fun d hd => h d (by simp [hd]))

theorem dropWhile_append_nonblank {p : Char → Bool} (a b : List Char) (h : a.dropWhile p ≠ []) :
    (a ++ b).dropWhile p = a.dropWhile p ++ b := by
  induction a with
  | nil => simp at h
  | cons c a ih =>
    by_cases hc : p c = true
    · simp only [List.cons_append, List.dropWhile_cons, hc, if_true] at h ⊢
      exact ih h
    · simp [List.dropWhile_cons, hc]

/-- **Blanks around a text never matter**: padding with any white space on both sides strips to the same text. -/
theorem stripSpaces_pad (l r s : List Char) (hl : ∀ c ∈ l, isSp c = true) (hr : ∀ c ∈ r, isSp c = true) :
    stripSpaces (l ++ s ++ r) = stripSpaces s := by
  unfold stripSpaces
  rw [List.append_assoc, dropWhile_append_of_all l _ hl]
  by_cases hs : s.dropWhile isSp = []
  · -- nothing but blanks
    have hall : ∀ c ∈ s, isSp c = true := by
      intro c hc
      exact (dropWhile_nil_iff s).mp hs c hc
    rw [dropWhile_append_of_all s r hall]
    have hr' : r.dropWhile isSp = [] := (dropWhile_nil_iff r).mpr hr
    simp [hs, hr']
  · rw [dropWhile_append_nonblank s r hs, List.reverse_append]
    rw [dropWhile_append_of_all r.reverse _ (by intro c hc; exact hr c (List.mem_reverse.mp hc))]

theorem stripSpaces_idem (s : List Char) : stripSpaces (stripSpaces s) = stripSpaces s := by
  have h1 : ∀ (t : List Char), (t.dropWhile isSp).dropWhile isSp = t.dropWhile isSp := by
    intro t
    induction t with
    | nil => rfl
    | cons c t ih =>
      by_cases hc : isSp c = true
      · simp [List.dropWhile_cons, hc, ih]
      · simp [List.dropWhile_cons, hc]
  -- the stripped text starts and ends with a non-blank (or is empty)
  unfold stripSpaces
  generalize hd : s.dropWhile isSp = d
  have hdhead : d.dropWhile isSp = d := by rw [← hd]; exact h1 s
  generalize he : d.reverse.dropWhile isSp = e
  have hehead : e.dropWhile isSp = e := by rw [← he]; exact h1 _
  -- e.reverse is the stripped text; its own leading blanks: none, because d has none and e.reverse is a prefix of d
  have hpre : ∃ t, d = e.reverse ++ t := by
    have : ∃ u, d.reverse = u ++ e := by
      rw [← he]
      exact ⟨d.reverse.takeWhile isSp, (List.takeWhile_append_dropWhile).symm⟩
    obtain ⟨u, hu⟩ := this
    refine ⟨u.reverse, ?_⟩
    have := congrArg List.reverse hu
    simpa using this
  obtain ⟨t, ht⟩ := hpre
  have hfront : (e.reverse).dropWhile isSp = e.reverse := by
    cases hre : e.reverse with
    | nil => rfl
    | cons c rest =>
      have hc : isSp c = false := by
        rw [hre] at ht
        rw [ht] at hdhead
        cases hct : isSp c with
        | false => rfl
        | true =>
          exfalso
          simp only [List.cons_append, List.dropWhile_cons, hct, if_true] at hdhead
          have hlen := congrArg List.length hdhead
          have hle := length_dropWhile_le' (p := isSp) (rest ++ t)
          simp only [List.length_cons, List.length_append] at hlen hle
          omega
      simp [List.dropWhile_cons, hc]
  rw [hfront, List.reverse_reverse, hehead]



end Logica.Scan
