/-
Model of materialisation with @Ground: predicates in dependency order, a store of tables in the attached
database, and the script the compiler emits for a request (`CREATE TABLE t AS q` for grounded predicates in
emission order, then the main SELECT).  Queries are semantic functions of the relations they read: a
grounded predicate is read from its table when the table exists, everything else is evaluated in place
(WITH table and inline sub-query are the same function).
-/
namespace Logica.Ground

abbrev Rel := List (List Int)

/-- A predicate definition: its rules as a function of the relations of the predicates it reads, addressed
by their index in the dependency order. -/
structure PredDef where
  sem : (Nat → Rel) → Rel

/-- `sem` of the predicate at index `i` only looks at predicates before it (no recursion at this stage:
recursive groups have been unfolded). -/
def WF (defs : List PredDef) : Prop :=
  ∀ i d, defs[i]? = some d → ∀ f g : Nat → Rel, (∀ j, j < i → f j = g j) → d.sem f = d.sem g

/-- denotations of all predicates, in order -/
def denList : List PredDef → List Rel
  | [] => []
  | defs => denAux defs []
where
  denAux : List PredDef → List Rel → List Rel
    | [], acc => acc
    | d :: rest, acc => denAux rest (acc ++ [d.sem (fun j => acc.getD j [])])

def den (defs : List PredDef) (i : Nat) : Rel := (denList.denAux defs []).getD i []

abbrev Store := Nat → Option Rel

/-- values computed by the emitted SQL against a store: grounded predicates (`g j = true`) are read from their
table when it exists, everything else is evaluated in place -/
def look (g : Nat → Bool) (store : Store) (acc : List Rel) (j : Nat) : Rel :=
  match g j, store j with
  | true, some t => t
  | _, _ => acc.getD j []

def evalAux (g : Nat → Bool) (store : Store) : List PredDef → List Rel → List Rel
  | [], acc => acc
  | d :: rest, acc => evalAux g store rest (acc ++ [d.sem (look g store acc)])

def eval (g : Nat → Bool) (defs : List PredDef) (store : Store) (i : Nat) : Rel :=
  (evalAux g store defs []).getD i []

/-- `DROP TABLE IF EXISTS t; CREATE TABLE t AS <query of predicate i>` -/
def create (g : Nat → Bool) (defs : List PredDef) (store : Store) (i : Nat) : Store :=
  fun j => if j = i then some (eval g defs store i) else store j

/-- the script for a request: create the listed grounded tables in order, then select the requested predicate -/
def runScript (g : Nat → Bool) (defs : List PredDef) (order : List Nat) (q : Nat) (store : Store) : Store × Rel :=
  let s := order.foldl (create g defs) store
  (s, eval g defs s q)

/-- every existing table of a grounded predicate holds the denotation of its predicate -/
def Faithful (defs : List PredDef) (store : Store) : Prop :=
  ∀ j t, store j = some t → t = den defs j

end Logica.Ground
