import LogicaModel.Ground
/-! Lemmas about evaluation against a faithful store (helpers of `Props/C17.lean`, `Props/C08.lean`). -/
namespace Logica.Ground
open denList

theorem denAux_length (rest : List PredDef) (acc : List Rel) : (denAux rest acc).length = acc.length + rest.length := by
  induction rest generalizing acc with
  | nil => simp [denAux]
  | cons d rest ih => simp [denAux, ih]; omega

theorem denAux_prefix (rest : List PredDef) (acc : List Rel) (j : Nat) (h : j < acc.length) :
    (denAux rest acc).getD j [] = acc.getD j [] := by
  induction rest generalizing acc with
  | nil => rfl
  | cons d rest ih =>
    simp only [denAux]
    rw [ih _ (by simp; omega)]
    simp [List.getD, List.getElem?_append_left h]

theorem evalAux_eq_denAux (g : Nat → Bool) (defs : List PredDef) (store : Store)
    (hwf : WF defs) (hf : Faithful defs store) :
    ∀ (rest done : List PredDef) (acc : List Rel), defs = done ++ rest → acc.length = done.length →
      denAux rest acc = denAux defs [] → evalAux g store rest acc = denAux rest acc := by
  intro rest
  induction rest with
  | nil => intro done acc _ _ _; rfl
  | cons d rest ih =>
    intro done acc hdefs hlen hH
    simp only [evalAux, denAux]
    have hk : defs[acc.length]? = some d := by
      rw [hdefs, hlen]; simp
    have hsem : d.sem (look g store acc) = d.sem (fun j => acc.getD j []) := by
      apply hwf acc.length d hk
      intro j hj
      unfold look
      cases hg : g j
      · rfl
      · cases hs : store j with
        | none => rfl
        | some t =>
          have ht := hf j t hs
          show t = acc.getD j []
          rw [ht]
          unfold den
          rw [← hH, denAux_prefix _ _ _ hj]
    rw [hsem]
    apply ih (done ++ [d]) (acc ++ [d.sem (fun j => acc.getD j [])])
    · rw [hdefs]; simp
    · simp [hlen]
    · rw [← hH]; rfl

/-- Against a faithful store, the emitted query of every predicate evaluates to its denotation, whichever
tables exist. -/
theorem eval_eq_den (g : Nat → Bool) (defs : List PredDef) (store : Store)
    (hwf : WF defs) (hf : Faithful defs store) (i : Nat) : eval g defs store i = den defs i := by
  unfold eval den
  rw [evalAux_eq_denAux g defs store hwf hf defs [] [] (by simp) rfl rfl]

theorem create_faithful (g : Nat → Bool) (defs : List PredDef) (store : Store)
    (hwf : WF defs) (hf : Faithful defs store) (i : Nat) : Faithful defs (create g defs store i) := by
  intro j t h
  unfold create at h
  split at h
  · rename_i hji
    injection h with h
    rw [← h, hji]
    exact eval_eq_den g defs store hwf hf i
  · exact hf j t h

theorem foldl_create_faithful (g : Nat → Bool) (defs : List PredDef) (hwf : WF defs) :
    ∀ (order : List Nat) (store : Store), Faithful defs store → Faithful defs (order.foldl (create g defs) store) := by
  intro order
  induction order with
  | nil => intro s h; exact h
  | cons i order ih => intro s h; exact ih _ (create_faithful g defs s hwf h i)

theorem foldl_create_other (g : Nat → Bool) (defs : List PredDef) :
    ∀ (order : List Nat) (store : Store) (j : Nat), j ∉ order → (order.foldl (create g defs) store) j = store j := by
  intro order
  induction order with
  | nil => intro s j _; rfl
  | cons i order ih =>
    intro s j hj
    simp only [List.foldl]
    rw [ih _ j (fun h => hj (List.mem_cons_of_mem _ h))]
    unfold create
    have : j ≠ i := fun e => hj (e ▸ List.mem_cons_self)
    simp [this]

theorem foldl_create_mem (g : Nat → Bool) (defs : List PredDef) (hwf : WF defs) :
    ∀ (order : List Nat) (store : Store), Faithful defs store → ∀ j ∈ order,
      (order.foldl (create g defs) store) j = some (den defs j) := by
  intro order
  induction order with
  | nil => intro s _ j hj; cases hj
  | cons i order ih =>
    intro s hf j hj
    simp only [List.foldl]
    have hf' := create_faithful g defs s hwf hf i
    by_cases hmem : j ∈ order
    · exact ih _ hf' j hmem
    · rw [foldl_create_other g defs order _ j hmem]
      have : j = i := by
        rcases List.mem_cons.mp hj with h | h
        · exact h
        · exact absurd h hmem
      subst this
      simp [create, eval_eq_den g defs s hwf hf]

end Logica.Ground
