/-
Model of the scanner both parsers are built on: `parser_py/parse.py: Traverse` (a generator yielding
`(idx, state, status)`) and `parser_cpp/logica_parse.cpp: Traverser::Next`, transcribed independently, and of
their first consumer `RemoveComments`.

The state is the stack of open brackets / string / comment markers, top at the head of the list (the code keeps
it in a string, top at the end).  `emit` / `silent` are the look-ahead jumps of the Python generator
(`idx += 1` with or without a yield); the C++ code encodes pending yields as `'\x01'` markers pushed on the stack.
-/
namespace Logica.Scan

inductive Ev
  | ok (idx : Nat) (c : Char) (st : List Char)
  | eol (idx : Nat)
  | unmatched (idx : Nat)
  deriving Repr, DecidableEq

def soh : Char := Char.ofNat 1

inductive Mode
  | hash | dq | sq | esc | bt | tri | blk | pend | code
  deriving DecidableEq, Repr

def mode : List Char → Mode
  | [] => .code
  | t :: _ =>
    if t = '#' then .hash else if t = '"' then .dq else if t = '\'' then .sq else if t = '\\' then .esc
    else if t = '`' then .bt else if t = '3' then .tri else if t = '/' then .blk
    else if t = soh then .pend else .code

def isOpen (c : Char) : Bool := c = '(' || c = '[' || c = '{'

def openOf (c : Char) : Option Char :=
  if c = ')' then some '(' else if c = ']' then some '[' else if c = '}' then some '{' else none

/-- bracket tracking outside strings and comments; `none`: a closing bracket that matches nothing -/
def track (c : Char) (st : List Char) : Option (List Char) :=
  if isOpen c then some (c :: st)
  else match openOf c with
    | some o => (match st with
        | t :: st' => if t = o then some st' else none
        | [] => none)
    | none => some st

/-- `s[idx:idx+3] == '"""'` -/
def triple (c : Char) (rest : List Char) : Bool := c = '"' && rest.take 2 = ['"', '"']

/-! ### Python -/
namespace Py

inductive Act
  | yield (st : List Char) (emit : Nat)     -- yield (idx, st, OK); `emit` more characters are yielded unseen
  | skip (st : List Char) (silent : Nat)    -- `continue`; `silent` more characters are jumped over
  | eolYield (st : List Char)               -- yield EOL-in-string, then (idx, st, OK)
  | stop                                    -- yield Unmatched; break

def normal (c : Char) (rest : List Char) (st : List Char) : Act :=
  if c = '#' then .skip ('#' :: st) 0
  else if triple c rest then .yield ('3' :: st) 2
  else if c = '"' then .yield ('"' :: st) 0
  else if c = '\'' then .yield ('\'' :: st) 0
  else if c = '`' then .yield ('`' :: st) 0
  else if c = '/' && rest.head? = some '*' then .skip ('/' :: st) 1
  else match track c st with
    | some s2 => .yield s2 0
    | none => .stop

def act (c : Char) (rest : List Char) (st : List Char) : Act :=
  match mode st with
  | .hash => if c = '\n' then .yield st.tail 0 else .skip st 0
  | .dq =>
    if c = '\n' then .eolYield st
    else if c = '"' then .yield st.tail 0 else .yield st 0
  | .sq =>
    if c = '\'' then .yield st.tail 0
    else if c = '\\' then .yield ('\\' :: st) 0
    else .yield st 0
  | .esc =>
    match track c st.tail with
    | some s2 => .yield s2 0
    | none => .stop
  | .bt => if c = '`' then .yield st.tail 0 else .yield st 0
  | .tri => if triple c rest then .yield st.tail 2 else .yield st 0
  | .blk => if c = '*' && rest.head? = some '/' then .skip st.tail 1 else .skip st 0
  | .pend => normal c rest st      -- '\x01' means nothing to the Python scanner
  | .code => normal c rest st

def go : List Char → Nat → List Char → Nat → Nat → List Ev
  | [], _, _, _, _ => []
  | c :: rest, idx, st, emit + 1, silent => .ok idx c st :: go rest (idx + 1) st emit silent
  | _ :: rest, idx, st, 0, silent + 1 => go rest (idx + 1) st 0 silent
  | c :: rest, idx, st, 0, 0 =>
    match act c rest st with
    | .yield s2 e => .ok idx c s2 :: go rest (idx + 1) s2 e 0
    | .skip s2 k => go rest (idx + 1) s2 0 k
    | .eolYield s2 => .eol idx :: .ok idx c s2 :: go rest (idx + 1) s2 0 0
    | .stop => [.unmatched idx]

def traverse (s : List Char) : List Ev := go s 0 [] 0 0

end Py

/-! ### C++ -/
namespace Cpp

inductive Act
  | yield (out next : List Char)   -- `out = {idx, out, OK}`, the stack is left as `next`
  | skip (st : List Char) (silent : Nat)
  | eol                            -- `out = {idx, "", EolInString}`, nothing else happens
  | unmatched (st : List Char)     -- `out = {idx, "", Unmatched}`; the traverser goes on

def normal (c : Char) (rest : List Char) (st : List Char) : Act :=
  if c = '#' then .skip ('#' :: st) 0
  else if triple c rest then .yield ('3' :: st) (soh :: soh :: '3' :: st)
  else if c = '"' then .yield ('"' :: st) ('"' :: st)
  else if c = '\'' then .yield ('\'' :: st) ('\'' :: st)
  else if c = '`' then .yield ('`' :: st) ('`' :: st)
  else if c = '/' && rest.head? = some '*' then .skip ('/' :: st) 1
  else match track c st with
    | some s2 => .yield s2 s2
    | none => .unmatched st

def act (c : Char) (rest : List Char) (st : List Char) : Act :=
  match mode st with
  | .hash => if c = '\n' then .yield st.tail st.tail else .skip st 0
  | .dq =>
    if c = '\n' then .eol
    else if c = '"' then .yield st.tail st.tail else .yield st st
  | .sq =>
    if c = '\'' then .yield st.tail st.tail
    else if c = '\\' then .yield ('\\' :: st) ('\\' :: st)
    else .yield st st
  | .esc =>
    match track c st.tail with
    | some s2 => .yield s2 s2
    | none => .unmatched st.tail
  | .bt => if c = '`' then .yield st.tail st.tail else .yield st st
  | .tri => if triple c rest then .yield st.tail (soh :: soh :: st.tail) else .yield st st
  | .blk => if c = '*' && rest.head? = some '/' then .skip st.tail 1 else .skip st 0
  | .pend => .yield st.tail st.tail
  | .code => normal c rest st

def go : List Char → Nat → List Char → Nat → List Ev
  | [], _, _, _ => []
  | _ :: rest, idx, st, silent + 1 => go rest (idx + 1) st silent
  | c :: rest, idx, st, 0 =>
    match act c rest st with
    | .yield out next => .ok idx c out :: go rest (idx + 1) next 0
    | .skip s2 k => go rest (idx + 1) s2 k
    | .eol => .eol idx :: go rest (idx + 1) st 0
    | .unmatched s2 => .unmatched idx :: go rest (idx + 1) s2 0

def traverse (s : List Char) : List Ev := go s 0 [] 0

end Cpp

/-! ### RemoveComments (same consumer in both implementations) -/

inductive RC
  | ok (s : List Char)
  | eolInString (idx : Nat)
  | unmatched (idx : Nat)
  deriving Repr, DecidableEq

def rc : List Ev → RC
  | [] => .ok []
  | .ok _ c _ :: es =>
    match rc es with
    | .ok s => .ok (c :: s)
    | e => e
  | .eol i :: _ => .eolInString i
  | .unmatched i :: _ => .unmatched i

def Py.removeComments (s : List Char) : RC := rc (Py.traverse s)
def Cpp.removeComments (s : List Char) : RC := rc (Cpp.traverse s)

/-! ### StripSpaces -/

/-- ASCII white space (`str.isspace` restricted to the characters the layout noise uses; Python also counts\n`\\x1c`-`\\x1f`, `\\x85` and the Unicode spaces) -/
def isSp (c : Char) : Bool := c = ' ' || c = '\n' || c = '\t' || c = '\r' || c = Char.ofNat 11 || c = Char.ofNat 12

/-- `parse.py: StripSpaces`: the slice between the first and the last non-blank character -/
def stripSpaces (s : List Char) : List Char := ((s.dropWhile isSp).reverse.dropWhile isSp).reverse


end Logica.Scan
