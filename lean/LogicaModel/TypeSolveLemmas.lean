import LogicaModel.TypeSolve
namespace Logica.TypeSolve
open Logica.TypeAlg

theorem smeet_comm (a b : STy) : smeet a b = smeet b a := by cases a <;> cases b <;> rfl
theorem smeet_idem (a : STy) : smeet a a = a := by cases a <;> rfl
theorem smeet_assoc (a b c : STy) : smeet (smeet a b) c = smeet a (smeet b c) := by
  cases a <;> cases b <;> cases c <;> rfl
theorem smeet_any (a : STy) : smeet a .any = a := by cases a <;> rfl
theorem smeet_bad (a : STy) : smeet a .bad = .bad := by cases a <;> rfl
theorem bad_smeet (a : STy) : smeet .bad a = .bad := by cases a <;> rfl

/-- the scalar lattice is the restriction of the type algebra of C16 -/
theorem meet_toTy (a b : STy) : meet a.toTy b.toTy = (smeet a b).toTy := by
  cases a <;> cases b <;> simp [STy.toTy, smeet, meet]

theorem upd_same (σ : Asg) (x : Nat) (t : STy) : upd σ x t x = t := by simp [upd]
theorem upd_other (σ : Asg) (x y : Nat) (t : STy) (h : y ≠ x) : upd σ x t y = σ y := by simp [upd, h]

theorem le_top (ρ : Asg) : le ρ top := fun x => smeet_any (ρ x)

theorem step_le (ρ σ : Asg) (c : Con) (hs : Sat ρ c) (hl : le ρ σ) : le ρ (step σ c) := by
  intro z
  cases c with
  | ground x t =>
    simp only [step]
    by_cases hz : z = x
    · subst hz
      rw [upd_same, ← smeet_assoc, hl z]
      exact hs
    · rw [upd_other _ _ _ _ hz]; exact hl z
  | same x y =>
    simp only [step]
    have hxy : ρ x = ρ y := hs
    have key : smeet (ρ x) (smeet (σ x) (σ y)) = ρ x := by
      rw [← smeet_assoc, hl x, hxy, hl y]
    by_cases hzy : z = y
    · subst hzy
      rw [upd_same, ← hxy]; exact key
    · rw [upd_other _ _ _ _ hzy]
      by_cases hzx : z = x
      · subst hzx
        rw [upd_same]; exact key
      · rw [upd_other _ _ _ _ hzx]; exact hl z

theorem run_le (ρ : Asg) : ∀ (cs : List Con) (σ : Asg), (∀ c ∈ cs, Sat ρ c) → le ρ σ → le ρ (run σ cs)
  | [], σ, _, hl => hl
  | c :: cs, σ, hs, hl => by
    show le ρ (run (step σ c) cs)
    exact run_le ρ cs (step σ c) (fun c' h => hs c' (by simp [h])) (step_le ρ σ c (hs c (by simp)) hl)

theorem fixpoint_sat (σ : Asg) (c : Con) (h : step σ c = σ) : Sat σ c := by
  cases c with
  | ground x t =>
    have := congrFun h x
    show smeet (σ x) t = σ x
    simpa [step, upd] using this
  | same x y =>
    have hy := congrFun h y
    have hx := congrFun h x
    simp only [step, upd_same] at hy
    show σ x = σ y
    by_cases hxy : x = y
    · rw [hxy]
    · simp only [step] at hx
      rw [upd_other _ _ _ _ hxy, upd_same] at hx
      exact hx.symm.trans hy

theorem le_antisymm (a b : Asg) (h1 : le a b) (h2 : le b a) : a = b := by
  funext x
  rw [← h1 x, smeet_comm, h2 x]

theorem clash_step (σ : Asg) (c : Con) (h : Clash σ) : Clash (step σ c) := by
  obtain ⟨z, hz⟩ := h
  cases c with
  | ground x t =>
    refine ⟨z, ?_⟩
    simp only [step]
    by_cases hzx : z = x
    · subst hzx; rw [upd_same, hz, bad_smeet]
    · rw [upd_other _ _ _ _ hzx]; exact hz
  | same x y =>
    refine ⟨z, ?_⟩
    simp only [step]
    by_cases hzy : z = y
    · subst hzy; rw [upd_same, hz, smeet_bad]
    · rw [upd_other _ _ _ _ hzy]
      by_cases hzx : z = x
      · subst hzx; rw [upd_same, hz, bad_smeet]
      · rw [upd_other _ _ _ _ hzx]; exact hz

theorem clash_run (cs : List Con) : ∀ (σ : Asg), Clash σ → Clash (run σ cs) := by
  induction cs with
  | nil => exact fun _ h => h
  | cons c cs ih => exact fun σ h => ih (step σ c) (clash_step σ c h)

theorem stepL_length (l : List STy) (c : Con) : (stepL l c).length = l.length := by
  cases c <;> simp [stepL]

theorem toAsg_set (l : List STy) (x : Nat) (t : STy) (h : x < l.length) : toAsg (l.set x t) = upd (toAsg l) x t := by
  funext z
  simp only [toAsg, upd, List.getD_eq_getElem?_getD, List.getElem?_set]
  by_cases hz : z = x
  · subst hz; simp [h]
  · have : ¬ x = z := fun e => hz e.symm
    simp [hz, this]

/-- the list solver of the driver is the functional solver of the theorems -/
theorem toAsg_stepL (l : List STy) (c : Con) (h : c.below l.length) : toAsg (stepL l c) = step (toAsg l) c := by
  cases c with
  | ground x t => exact toAsg_set l x _ h
  | same x y =>
    simp only [stepL, step]
    rw [toAsg_set _ y _ (by simpa using h.2), toAsg_set l x _ h.1]
    rfl

theorem toAsg_run (cs : List Con) : ∀ (l : List STy), (∀ c ∈ cs, c.below l.length) →
    toAsg (cs.foldl stepL l) = run (toAsg l) cs := by
  induction cs with
  | nil => intro l _; rfl
  | cons c cs ih =>
    intro l h
    simp only [List.foldl_cons, run]
    rw [ih (stepL l c) (fun c' hc' => by rw [stepL_length]; exact h c' (by simp [hc'])),
        toAsg_stepL l c (h c (by simp))]
    rfl

end Logica.TypeSolve
