/-
Functor application as predicate substitution, on rule bodies seen through the predicate names they mention
(`functors.py` only ever looks at `predicate_name` occurrences).
-/
namespace Logica.Subst

abbrev Rel := List (List Int)
abbrev Valuation := Nat → Int

inductive Body
  | atom (p : String) (args : List Nat)
  | conj (a b : Body)
  | disj (a b : Body)
  | neg (a : Body)
  | test (x y : Nat)          -- a comparison: mentions no predicate
  deriving Repr, DecidableEq

/-- satisfaction of a body under a valuation of its variables, reading predicates through `ρ` -/
def sat (ρ : String → Rel) (ν : Valuation) : Body → Prop
  | .atom p args => args.map ν ∈ ρ p
  | .conj a b => sat ρ ν a ∧ sat ρ ν b
  | .disj a b => sat ρ ν a ∨ sat ρ ν b
  | .neg a => ¬ sat ρ ν a
  | .test x y => ν x < ν y

/-- replace every predicate name `p` by `σ p` (what `CallFunctor` does to the cloned rules) -/
def rename (σ : String → String) : Body → Body
  | .atom p args => .atom (σ p) args
  | .conj a b => .conj (rename σ a) (rename σ b)
  | .disj a b => .disj (rename σ a) (rename σ b)
  | .neg a => .neg (rename σ a)
  | .test x y => .test x y

def preds : Body → List String
  | .atom p _ => [p]
  | .conj a b => preds a ++ preds b
  | .disj a b => preds a ++ preds b
  | .neg a => preds a
  | .test _ _ => []

/-- a rule: head predicate, head variables, body -/
structure Rule where
  head : String
  vars : List Nat
  body : Body

/-- one application of the rules of predicate `p`: all head tuples of satisfying valuations -/
def derives (rules : List Rule) (ρ : String → Rel) (p : String) (row : List Int) : Prop :=
  ∃ r ∈ rules, r.head = p ∧ ∃ ν, sat ρ ν r.body ∧ row = r.vars.map ν

/-- `CallKey`: the functor name together with the bindings restricted to the functor's own arguments -/
def callKey (functor : String) (argsOf : List String) (σ : List (String × String)) : String × List (String × String) :=
  (functor, σ.filter (fun kv => argsOf.contains kv.1))

end Logica.Subst
