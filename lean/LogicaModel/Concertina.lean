/-
Model of `common/concertina_lib.py: Concertina.UnderstandIterations / SortActions / RunOneAction /
UpdateStateForIterativeAction`.  Sets are duplicate-free lists; the stop signal of an iteration is an
external oracle (`raisedAt`: the step from which the signal file is non-empty).
-/
namespace Logica.Concertina

structure Action where
  name : String
  requires : List String
  deriving Repr

structure Iteration where
  name : String
  predicates : List String
  repetitions : Nat
  stopSignal : String          -- "" = none
  diamond : Bool
  deriving Repr

structure Config where
  actions : List Action
  iterations : List Iteration
  deriving Repr

def union (a b : List String) : List String := a ++ b.filter (fun x => !a.contains x)
def diff (a b : List String) : List String := a.filter (fun x => !b.contains x)
def subset (a b : List String) : Bool := a.all (fun x => b.contains x)
def inter (a b : List String) : List String := a.filter (fun x => b.contains x)

def Config.names (c : Config) : List String := c.actions.map (·.name)

/-- iteration an action belongs to (the last declaring iteration wins, as in the dict comprehension) -/
def Config.iterationOf (c : Config) (a : String) : Option Iteration :=
  (c.iterations.reverse.find? (fun it => it.predicates.contains a && c.names.contains a))

def Iteration.halves (it : Iteration) : List String × List String :=
  if it.diamond then (it.predicates, [])
  else (it.predicates.take (it.predicates.length / 2), it.predicates.drop (it.predicates.length / 2))

/-- non-diamond iterations need an even number of members (the `assert`) -/
def Config.halvesOk (c : Config) : Bool :=
  c.iterations.all (fun it => it.diamond || it.predicates.length % 2 == 0)

def Config.rawRequires (c : Config) (a : String) : List String :=
  match c.actions.find? (fun x => x.name == a) with
  | some x => x.requires.eraseDups
  | none => []

/-- the half-iteration an action is assigned to: the last half (over iterations in order, upper before
lower) that contains it -/
def Config.halfOf (c : Config) (a : String) : Option (List String) :=
  let halves := c.iterations.flatMap (fun it => [it.halves.1, it.halves.2])
  halves.reverse.find? (fun h => h.contains a)

/-- `action_requires` after `UnderstandIterations`: own requirements plus every requirement of the
other members of the same half-iteration that lies outside that half. -/
def Config.requiresHalf (c : Config) (a : String) : List String :=
  let own := c.rawRequires a
  let halves := c.iterations.flatMap (fun it => [it.halves.1, it.halves.2])
  -- every half containing `a` propagates (the Python loops over all half-iterations)
  halves.foldl (fun acc h =>
    if h.contains a then
      let members := h.filter (fun p => c.names.contains p && (c.iterationOf p).isSome && c.halfOf p == some h)
      let hreq := members.foldl (fun r p => union r (c.rawRequires p)) []
      union acc (diff hreq h)
    else acc) own

/-- `action_requires` at the end of `UnderstandIterations` (after the `fix:` commit): the first member of
an iteration additionally waits for every requirement of any member that lies outside the iteration. -/
def Config.requiresOf (c : Config) (a : String) : List String :=
  c.iterations.foldl (fun acc it =>
    if it.predicates.head? == some a && c.names.contains a then
      let ext := (it.predicates.filter (fun p => c.names.contains p)).foldl
        (fun r p => union r (c.requiresHalf p)) []
      union acc (diff ext it.predicates)
    else acc) (c.requiresHalf a)

/-- As found at the pinned commit: no propagation to the first member (finding F7). -/
def Config.requiresOfPinned (c : Config) (a : String) : List String := c.requiresHalf a

/-! ### SortActions -/

inductive SortResult
  | ok (order : List String)
  | couldNotSchedule
  deriving Repr, DecidableEq

structure SortState where
  toAssign : List String
  complete : List String
  result : List String
  assigning : Option Iteration

def isAtaman (c : Config) (a : String) : Bool :=
  match c.iterationOf a with
  | none => true
  | some it => it.predicates.head? == some a

/-- insertion into a sorted list (Python `sorted` on strings) -/
def insertSorted (a : String) : List String → List String
  | [] => [a]
  | b :: l => if a < b then a :: b :: l else b :: insertSorted a l

def sortStrings (l : List String) : List String := l.foldr insertSorted []

/-- the `for a in eligible` loop, with its `break` after the first iteration head -/
def forEligible (c : Config) : List String → SortState → SortState
  | [], st => st
  | a :: rest, st =>
    if subset (c.requiresOf a) st.complete then
      let st1 : SortState := { st with result := st.result ++ [a], complete := union st.complete [a],
                                       toAssign := diff st.toAssign [a] }
      match c.iterationOf a with
      | some it =>
        -- assigning_iteration := it; cleared again when no member remains to assign; then break
        let remaining := inter it.predicates st1.toAssign
        { st1 with assigning := if remaining.isEmpty then none else some it }
      | none => forEligible c rest st1
    else forEligible c rest st

def sortLoop (c : Config) : Nat → SortState → SortResult
  | 0, _ => .couldNotSchedule
  | fuel + 1, st =>
    if st.toAssign.isEmpty then .ok st.result
    else
      match st.assigning with
      | some it =>
        let eligible := it.predicates.filter (fun a => st.toAssign.contains a)
        sortLoop c fuel { st with result := st.result ++ eligible, complete := union st.complete eligible,
                                  toAssign := diff st.toAssign eligible, assigning := none }
      | none =>
        let eligible := sortStrings (st.toAssign.filter (isAtaman c))
        let st' := forEligible c eligible st
        if st'.toAssign.length == st.toAssign.length then .couldNotSchedule
        else sortLoop c fuel st'

def sortActions (c : Config) : SortResult :=
  sortLoop c (2 * c.actions.length + 2)
    { toAssign := c.names.eraseDups, complete := [], result := [], assigning := none }

/-! ### the run loop -/

structure RunState where
  queue : List String
  counts : List (String × Nat)     -- executions so far of iterated actions
  complete : List String
  stopped : List String
  wrench : List String             -- signals seen raised
  trace : List String              -- executed actions, oldest first
  deriving Repr

def getCount : List (String × Nat) → String → Nat
  | [], _ => 0
  | (k, v) :: cs, a => if k = a then v else getCount cs a

def setCount : List (String × Nat) → String → Nat → List (String × Nat)
  | [], a, n => [(a, n)]
  | (k, v) :: cs, a, n => if k = a then (a, n) :: cs else (k, v) :: setCount cs a n

/-- Is `a` iterated?  (`action_iterations_complete` has a key for every member of every iteration.) -/
def Config.isIterated (c : Config) (a : String) : Bool :=
  c.iterations.any (fun it => it.predicates.contains a)

/-- position at which a re-queued action is inserted: after the leading run of actions of the same iteration -/
def insertPos (c : Config) (it : Iteration) : List String → Nat
  | [] => 0
  | b :: l =>
    match c.iterationOf b with
    | some it' => if it'.name == it.name then 1 + insertPos c it l else 0
    | none => 0

def insertAt (l : List String) (i : Nat) (a : String) : List String := l.take i ++ [a] ++ l.drop i

/-- One `RunOneAction`. `raised s t` = the stop-signal file `s` is non-empty at step `t`. -/
def step (c : Config) (raised : String → Nat → Bool) (st : RunState) : RunState :=
  match st.queue with
  | [] => st
  | a :: q =>
    let t := st.trace.length
    let st1 := { st with queue := q, trace := st.trace ++ [a] }
    if !c.isIterated a then { st1 with complete := union st1.complete [a] }
    else
      let n := getCount st1.counts a + 1
      let st2 := { st1 with counts := setCount st1.counts a n }
      match c.iterationOf a with
      | none => { st2 with complete := union st2.complete [a] }   -- member that is not an action: cannot be queued
      | some it =>
        if n ≥ it.repetitions then { st2 with complete := union st2.complete [a] }
        else
          let sig := it.stopSignal
          let wants := sig != "" && (st2.wrench.contains sig || raised sig t)
          if wants then
            { st2 with complete := union st2.complete [a], stopped := union st2.stopped [a],
                       wrench := union st2.wrench [sig] }
          else { st2 with queue := insertAt q (insertPos c it q) a }

def runLoop (c : Config) (raised : String → Nat → Bool) : Nat → RunState → RunState
  | 0, st => st
  | fuel + 1, st => if st.queue.isEmpty then st else runLoop c raised fuel (step c raised st)

inductive RunResult
  | ok (trace : List String) (stopped : List String)
  | couldNotSchedule
  | badIteration
  | outOfFuel
  deriving Repr

def Config.budget (c : Config) : Nat :=
  c.actions.length + (c.iterations.foldl (fun s it => s + it.repetitions * it.predicates.length) 0) + 1

def run (c : Config) (raised : String → Nat → Bool) : RunResult :=
  if !c.halvesOk then .badIteration else
  match sortActions c with
  | .couldNotSchedule => .couldNotSchedule
  | .ok order =>
    let st := runLoop c raised c.budget
      { queue := order, counts := [], complete := [], stopped := [], wrench := [], trace := [] }
    if st.queue.isEmpty then .ok st.trace st.stopped else .outOfFuel

end Logica.Concertina
