import LogicaModel.Concertina
/-! Measure lemmas for the Concertina run loop (helpers of `Props/C14.lean`). -/
namespace Logica.Concertina

theorem getCount_setCount_same (cs : List (String × Nat)) (a : String) (n : Nat) :
    getCount (setCount cs a n) a = n := by
  induction cs with
  | nil => simp [setCount, getCount]
  | cons p cs ih =>
    obtain ⟨k, v⟩ := p
    by_cases hk : k = a
    · simp [setCount, getCount, hk]
    · simp [setCount, getCount, hk, ih]

theorem getCount_setCount_other (cs : List (String × Nat)) (a b : String) (n : Nat) (h : b ≠ a) :
    getCount (setCount cs a n) b = getCount cs b := by
  have hab : ¬ a = b := fun e => h e.symm
  induction cs with
  | nil => simp [setCount, getCount, hab]
  | cons p cs ih =>
    obtain ⟨k, v⟩ := p
    by_cases hk : k = a
    · subst hk
      simp [setCount, getCount, hab]
    · by_cases hkb : k = b
      · subst hkb
        simp [setCount, getCount, h]
      · simp [setCount, getCount, hk, hkb, ih]

def weight (c : Config) (cs : List (String × Nat)) (a : String) : Nat :=
  if c.isIterated a then
    match c.iterationOf a with
    | some it => max (it.repetitions - getCount cs a) 1
    | none => 1
  else 1

def mu (c : Config) (cs : List (String × Nat)) (q : List String) : Nat := (q.map (weight c cs)).sum

theorem weight_pos (c : Config) (cs) (a) : 1 ≤ weight c cs a := by
  unfold weight; split
  · split <;> omega
  · omega

theorem weight_mono (c : Config) (cs : List (String × Nat)) (a b : String) (n : Nat)
    (h : getCount cs a ≤ n) : weight c (setCount cs a n) b ≤ weight c cs b := by
  by_cases hb : b = a
  · subst hb
    unfold weight
    split
    · split
      · rw [getCount_setCount_same]; omega
      · omega
    · omega
  · unfold weight
    rw [getCount_setCount_other _ _ _ _ hb]
    exact Nat.le_refl _

theorem mu_mono (c : Config) (cs : List (String × Nat)) (a : String) (n : Nat) (q : List String)
    (h : getCount cs a ≤ n) : mu c (setCount cs a n) q ≤ mu c cs q := by
  induction q with
  | nil => simp [mu]
  | cons b q ih =>
    simp only [mu, List.map_cons, List.sum_cons] at ih ⊢
    have := weight_mono c cs a b n h
    omega

theorem mu_insertAt (c : Config) (cs) (q : List String) (i : Nat) (a : String) :
    mu c cs (insertAt q i a) = mu c cs q + weight c cs a := by
  unfold mu insertAt
  simp only [List.map_append, List.sum_append, List.map_cons, List.map_nil, List.sum_cons, List.sum_nil]
  have : ((q.take i).map (weight c cs)).sum + ((q.drop i).map (weight c cs)).sum = (q.map (weight c cs)).sum := by
    rw [← List.sum_append, ← List.map_append, List.take_append_drop]
  omega

/-- every step strictly decreases the measure -/
theorem step_decreases (c : Config) (raised : String → Nat → Bool) (st : RunState) (h : st.queue ≠ []) :
    mu c (step c raised st).counts (step c raised st).queue < mu c st.counts st.queue := by
  cases hq : st.queue with
  | nil => exact absurd hq h
  | cons a q =>
    unfold step
    simp only [hq]
    have hw := weight_pos c st.counts a
    by_cases hit : c.isIterated a = true
    · simp only [hit, Bool.not_true, Bool.false_eq_true, if_false]
      have hm := mu_mono c st.counts a (getCount st.counts a + 1) q (by omega)
      cases hio : c.iterationOf a with
      | none =>
        simp only [mu, List.map_cons, List.sum_cons] at hm ⊢
        omega
      | some it =>
        simp only
        by_cases hge : getCount st.counts a + 1 ≥ it.repetitions
        · simp only [hge, if_true]
          simp only [mu, List.map_cons, List.sum_cons] at hm ⊢
          omega
        · simp only [hge, if_false]
          split
          · simp only [mu, List.map_cons, List.sum_cons] at hm ⊢
            omega
          · rw [mu_insertAt]
            have hwa : weight c (setCount st.counts a (getCount st.counts a + 1)) a + 1 ≤ weight c st.counts a := by
              unfold weight
              simp only [hit, if_true, hio, getCount_setCount_same]
              omega
            simp only [mu, List.map_cons, List.sum_cons] at hm ⊢
            omega
    · simp only [Bool.not_eq_true] at hit
      simp only [hit, Bool.not_false, if_true]
      simp only [mu, List.map_cons, List.sum_cons]
      omega


end Logica.Concertina
