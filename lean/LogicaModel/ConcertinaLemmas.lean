import LogicaModel.Concertina
/-! Measure lemmas for the Concertina run loop (helpers of `Props/C14.lean`). -/
namespace Logica.Concertina

theorem getCount_setCount_same (cs : List (String × Nat)) (a : String) (n : Nat) :
    getCount (setCount cs a n) a = n := by
  induction cs with
  | nil => simp [setCount, getCount]
  | cons p cs ih =>
    obtain ⟨k, v⟩ := p
    by_cases hk : k = a
    · simp [setCount, getCount, hk]
    · simp [setCount, getCount, hk, ih]

theorem getCount_setCount_other (cs : List (String × Nat)) (a b : String) (n : Nat) (h : b ≠ a) :
    getCount (setCount cs a n) b = getCount cs b := by
  have hab : ¬ a = b := fun e => h e.symm
  induction cs with
  | nil => simp [setCount, getCount, hab]
  | cons p cs ih =>
    obtain ⟨k, v⟩ := p
    by_cases hk : k = a
    · subst hk
      simp [setCount, getCount, hab]
    · by_cases hkb : k = b
      · subst hkb
        simp [setCount, getCount, h]
      · simp [setCount, getCount, hk, hkb, ih]

def weight (c : Config) (cs : List (String × Nat)) (a : String) : Nat :=
  if c.isIterated a then
    match c.iterationOf a with
    | some it => max (it.repetitions - getCount cs a) 1
    | none => 1
  else 1

def mu (c : Config) (cs : List (String × Nat)) (q : List String) : Nat := (q.map (weight c cs)).sum

theorem weight_pos (c : Config) (cs) (a) : 1 ≤ weight c cs a := by
  unfold weight; split
  · split <;> omega
  · omega

theorem weight_mono (c : Config) (cs : List (String × Nat)) (a b : String) (n : Nat)
    (h : getCount cs a ≤ n) : weight c (setCount cs a n) b ≤ weight c cs b := by
  by_cases hb : b = a
  · subst hb
    unfold weight
    split
    · split
      · rw [getCount_setCount_same]; omega
      · omega
    · omega
  · unfold weight
    rw [getCount_setCount_other _ _ _ _ hb]
    exact Nat.le_refl _

theorem mu_mono (c : Config) (cs : List (String × Nat)) (a : String) (n : Nat) (q : List String)
    (h : getCount cs a ≤ n) : mu c (setCount cs a n) q ≤ mu c cs q := by
  induction q with
  | nil => simp [mu]
  | cons b q ih =>
    simp only [mu, List.map_cons, List.sum_cons] at ih ⊢
    have := weight_mono c cs a b n h
    omega

theorem mu_insertAt (c : Config) (cs) (q : List String) (i : Nat) (a : String) :
    mu c cs (insertAt q i a) = mu c cs q + weight c cs a := by
  unfold mu insertAt
  simp only [List.map_append, List.sum_append, List.map_cons, List.map_nil, List.sum_cons, List.sum_nil]
  have : ((q.take i).map (weight c cs)).sum + ((q.drop i).map (weight c cs)).sum = (q.map (weight c cs)).sum := by
    rw [← List.sum_append, ← List.map_append, List.take_append_drop]
  omega

/-- every step strictly decreases the measure -/
theorem step_decreases (c : Config) (raised : String → Nat → Bool) (st : RunState) (h : st.queue ≠ []) :
    mu c (step c raised st).counts (step c raised st).queue < mu c st.counts st.queue := by
  cases hq : st.queue with
  | nil => exact absurd hq h
  | cons a q =>
    unfold step
    simp only [hq]
    have hw := weight_pos c st.counts a
    by_cases hit : c.isIterated a = true
    · simp only [hit, Bool.not_true, Bool.false_eq_true, if_false]
      have hm := mu_mono c st.counts a (getCount st.counts a + 1) q (by omega)
      cases hio : c.iterationOf a with
      | none =>
        simp only [mu, List.map_cons, List.sum_cons] at hm ⊢
        omega
      | some it =>
        simp only
        by_cases hge : getCount st.counts a + 1 ≥ it.repetitions
        · simp only [hge, if_true]
          simp only [mu, List.map_cons, List.sum_cons] at hm ⊢
          omega
        · simp only [hge, if_false]
          split
          · simp only [mu, List.map_cons, List.sum_cons] at hm ⊢
            omega
          · rw [mu_insertAt]
            have hwa : weight c (setCount st.counts a (getCount st.counts a + 1)) a + 1 ≤ weight c st.counts a := by
              unfold weight
              simp only [hit, if_true, hio, getCount_setCount_same]
              omega
            simp only [mu, List.map_cons, List.sum_cons] at hm ⊢
            omega
    · simp only [Bool.not_eq_true] at hit
      simp only [hit, Bool.not_false, if_true]
      simp only [mu, List.map_cons, List.sum_cons]
      omega


end Logica.Concertina

set_option linter.unusedSimpArgs false
namespace Logica.Concertina

/-- target number of executions of an iterated action -/
def target (it : Iteration) : Nat := max it.repetitions 1

theorem mem_insertAt (q : List String) (i : Nat) (a x : String) : x ∈ insertAt q i a ↔ x = a ∨ x ∈ q := by
  unfold insertAt
  simp only [List.mem_append, List.mem_singleton]
  constructor
  · rintro ((h | h) | h)
    · exact Or.inr (List.mem_of_mem_take h)
    · exact Or.inl h
    · exact Or.inr (List.mem_of_mem_drop h)
  · rintro (h | h)
    · exact Or.inl (Or.inr h)
    · have : x ∈ q.take i ++ q.drop i := by rw [List.take_append_drop]; exact h
      rcases List.mem_append.mp this with h1 | h1
      · exact Or.inl (Or.inl h1)
      · exact Or.inr h1

theorem nodup_insertAt (q : List String) (i : Nat) (a : String) (hq : q.Nodup) (ha : a ∉ q) :
    (insertAt q i a).Nodup := by
  unfold insertAt
  have hperm : (q.take i ++ [a] ++ q.drop i).Perm (a :: (q.take i ++ q.drop i)) := by
    simp only [List.append_assoc]
    exact List.perm_middle
  rw [hperm.nodup_iff, List.take_append_drop]
  exact List.nodup_cons.mpr ⟨ha, hq⟩

theorem mem_union_right (l : List String) (a x : String) : x ∈ union l [a] ↔ x ∈ l ∨ x = a := by
  unfold union
  simp only [List.mem_append, List.mem_filter, List.mem_singleton]
  constructor
  · rintro (h | ⟨h, _⟩)
    · exact Or.inl h
    · exact Or.inr h
  · rintro (h | h)
    · exact Or.inl h
    · by_cases hm : x ∈ l
      · exact Or.inl hm
      · refine Or.inr ⟨h, ?_⟩
        subst h
        simpa using hm

end Logica.Concertina

namespace Logica.Concertina

/-- bookkeeping invariant of one action `a` during a run -/
def ActInv' (c : Config) (a : String) (st : RunState) : Prop :=
  match c.isIterated a, c.iterationOf a with
  | true, some it =>
    st.trace.count a = getCount st.counts a ∧
    ((a ∈ st.queue ∧ getCount st.counts a < target it ∧ a ∉ st.stopped) ∨
     (a ∉ st.queue ∧ 1 ≤ getCount st.counts a ∧ getCount st.counts a ≤ target it ∧
        (a ∈ st.stopped ∨ getCount st.counts a = target it)))
  | true, none => True
  | false, _ => (a ∈ st.queue ∧ st.trace.count a = 0) ∨ (a ∉ st.queue ∧ st.trace.count a = 1)

theorem count_snoc (l : List String) (a b : String) :
    (l ++ [b]).count a = l.count a + (if b = a then 1 else 0) := by
  rw [List.count_append]
  by_cases h : b = a <;> simp [h]

/-- one step keeps the queue duplicate-free -/
theorem step_nodup (c : Config) (raised : String → Nat → Bool) (st : RunState) (hn : st.queue.Nodup) :
    (step c raised st).queue.Nodup := by
  cases hq : st.queue with
  | nil => simp [step, hq]
  | cons b q =>
    rw [hq] at hn
    have hbq : b ∉ q := (List.nodup_cons.mp hn).1
    have hqn : q.Nodup := (List.nodup_cons.mp hn).2
    unfold step
    simp only [hq]
    split
    · exact hqn
    · split
      · exact hqn
      · split
        · exact hqn
        · split
          · exact hqn
          · exact nodup_insertAt q _ b hqn hbq

/-- one step keeps the bookkeeping invariant of every action -/
theorem step_inv (c : Config) (raised : String → Nat → Bool) (a : String) (st : RunState)
    (hn : st.queue.Nodup) (hi : ActInv' c a st) : ActInv' c a (step c raised st) := by
  cases hq : st.queue with
  | nil => simpa [step, hq] using hi
  | cons b q =>
    rw [hq] at hn
    have hbq : b ∉ q := (List.nodup_cons.mp hn).1
    by_cases hab : a = b
    · -- the executed action is `a`
      subst hab
      have hain : a ∈ st.queue := by simp [hq]
      unfold ActInv' at hi ⊢
      unfold step
      simp only [hq]
      cases hit : c.isIterated a with
      | false =>
        simp only [hit] at hi ⊢
        simp only [Bool.not_false, if_true]
        rcases hi with ⟨_, h0⟩ | ⟨hnq, _⟩
        · exact Or.inr ⟨hbq, by rw [count_snoc, h0]; simp⟩
        · exact absurd hain hnq
      | true =>
        cases hio : c.iterationOf a with
        | none => simp [hit, hio]
        | some it =>
          simp only [hit, hio] at hi ⊢
          simp only [Bool.not_true, Bool.false_eq_true, if_false]
          obtain ⟨htc, hd⟩ := hi
          rcases hd with ⟨_, hlt, hns⟩ | ⟨hnq, _⟩
          · have htgt : target it = max it.repetitions 1 := rfl
            by_cases hge : getCount st.counts a + 1 ≥ it.repetitions
            · simp only [hge, if_true, getCount_setCount_same]
              refine ⟨by rw [count_snoc, htc]; simp, Or.inr ⟨hbq, by omega, by omega, Or.inr (by omega)⟩⟩
            · simp only [hge, if_false]
              split
              · simp only [getCount_setCount_same]
                refine ⟨by rw [count_snoc, htc]; simp, Or.inr ⟨hbq, by omega, by omega, Or.inl ?_⟩⟩
                exact (mem_union_right _ _ _).mpr (Or.inr rfl)
              · simp only [getCount_setCount_same]
                refine ⟨by rw [count_snoc, htc]; simp, Or.inl ⟨?_, by omega, hns⟩⟩
                exact (mem_insertAt _ _ _ _).mpr (Or.inl rfl)
          · exact absurd hain hnq
    · -- another action `b` is executed: nothing about `a` changes
      have hba : ¬ b = a := fun e => hab e.symm
      have hmq : a ∈ st.queue ↔ a ∈ q := by simp [hq, hab]
      unfold ActInv' at hi ⊢
      unfold step
      simp only [hq]
      have hcount : (st.trace ++ [b]).count a = st.trace.count a := by rw [count_snoc]; simp [hba]
      have hins : ∀ i, a ∈ insertAt q i b ↔ a ∈ q := by
        intro i; rw [mem_insertAt]; simp [hab]
      have hstop : a ∈ union st.stopped [b] ↔ a ∈ st.stopped := by
        rw [mem_union_right]; simp [hab]
      have hgc : ∀ n, getCount (setCount st.counts b n) a = getCount st.counts a :=
        fun n => getCount_setCount_other _ _ _ _ hab
      cases hita : c.isIterated a with
      | false =>
        simp only [hita] at hi ⊢
        rw [hmq] at hi
        split
        · simpa [hcount] using hi
        · split
          · simpa [hcount] using hi
          · split
            · simpa [hcount] using hi
            · split
              · simpa [hcount] using hi
              · simpa [hcount, hins] using hi
      | true =>
        cases hioa : c.iterationOf a with
        | none => simp [hita, hioa]
        | some it =>
          simp only [hita, hioa] at hi ⊢
          rw [hmq] at hi
          split
          · simpa [hcount] using hi
          · split
            · simpa [hcount, hgc] using hi
            · split
              · simpa [hcount, hgc] using hi
              · split
                · simpa [hcount, hgc, hstop] using hi
                · simpa [hcount, hgc, hins] using hi

end Logica.Concertina

namespace Logica.Concertina

theorem runLoop_inv (c : Config) (raised : String → Nat → Bool) (a : String) :
    ∀ (fuel : Nat) (st : RunState), st.queue.Nodup → ActInv' c a st →
      (runLoop c raised fuel st).queue.Nodup ∧ ActInv' c a (runLoop c raised fuel st)
  | 0, st, hn, hi => ⟨hn, hi⟩
  | fuel + 1, st, hn, hi => by
    simp only [runLoop]
    split
    · exact ⟨hn, hi⟩
    · exact runLoop_inv c raised a fuel _ (step_nodup c raised st hn) (step_inv c raised a st hn hi)

def initState (order : List String) : RunState :=
  { queue := order, counts := [], complete := [], stopped := [], wrench := [], trace := [] }

theorem init_inv (c : Config) (order : List String) (a : String) (ha : a ∈ order) :
    ActInv' c a (initState order) := by
  unfold ActInv' initState
  cases c.isIterated a with
  | false => simp [ha]
  | true =>
    cases c.iterationOf a with
    | none => trivial
    | some it => simp [ha, getCount, target]; omega

/-- **Execution counts**: when the run is over (queue empty), every scheduled action that is not a member
of an iteration ran exactly once, and every member of an iteration ran exactly its number of repetitions
(at least once) — unless its stop signal ended it, and then at least once and at most that often. -/
theorem execution_counts (c : Config) (raised : String → Nat → Bool) (order : List String) (fuel : Nat)
    (hn : order.Nodup) (a : String) (ha : a ∈ order)
    (hdone : (runLoop c raised fuel (initState order)).queue = []) :
    let fin := runLoop c raised fuel (initState order)
    (c.isIterated a = false → fin.trace.count a = 1) ∧
    (∀ it, c.isIterated a = true → c.iterationOf a = some it →
       1 ≤ fin.trace.count a ∧ fin.trace.count a ≤ max it.repetitions 1 ∧
       (a ∈ fin.stopped ∨ fin.trace.count a = max it.repetitions 1)) := by
  intro fin
  have hinv := (runLoop_inv c raised a fuel (initState order) hn (init_inv c order a ha)).2
  have hq : a ∉ fin.queue := by
    show a ∉ (runLoop c raised fuel (initState order)).queue
    rw [hdone]; simp
  unfold ActInv' at hinv
  constructor
  · intro hf
    simp only [hf] at hinv
    rcases hinv with ⟨h, _⟩ | ⟨_, h⟩
    · exact absurd h hq
    · exact h
  · intro it hit hio
    simp only [hit, hio] at hinv
    obtain ⟨htc, hd⟩ := hinv
    rcases hd with ⟨h, _⟩ | ⟨_, h1, h2, h3⟩
    · exact absurd h hq
    · show 1 ≤ fin.trace.count a ∧ fin.trace.count a ≤ max it.repetitions 1 ∧ _
      rw [htc]
      exact ⟨h1, h2, h3⟩

end Logica.Concertina

namespace Logica.Concertina

/-- every action that is scheduled on its own account (not as a follower inside an iteration) comes after
all the actions it waits for -/
def wp (c : Config) (done : List String) : List String → Bool
  | [] => true
  | a :: rest => (!isAtaman c a || subset (c.requiresOf a) done) && wp c (done ++ [a]) rest

theorem wp_append (c : Config) : ∀ (l m done : List String),
    wp c done (l ++ m) = (wp c done l && wp c (done ++ l) m)
  | [], m, done => by simp [wp]
  | a :: l, m, done => by
    simp only [List.cons_append, wp]
    rw [wp_append c l m (done ++ [a])]
    simp [Bool.and_assoc]

theorem wp_followers (c : Config) : ∀ (m done : List String), (∀ e ∈ m, isAtaman c e = false) → wp c done m = true
  | [], _, _ => rfl
  | a :: m, done, h => by
    simp only [wp, h a (by simp), Bool.not_false, Bool.true_or, Bool.true_and]
    exact wp_followers c m _ (fun e he => h e (by simp [he]))

theorem mem_union (a b : List String) (x : String) : x ∈ union a b ↔ x ∈ a ∨ x ∈ b := by
  unfold union
  simp only [List.mem_append, List.mem_filter]
  constructor
  · rintro (h | ⟨h, _⟩)
    · exact Or.inl h
    · exact Or.inr h
  · rintro (h | h)
    · exact Or.inl h
    · by_cases hm : x ∈ a
      · exact Or.inl hm
      · exact Or.inr ⟨h, by simpa using hm⟩

theorem mem_diff (a b : List String) (x : String) : x ∈ diff a b ↔ x ∈ a ∧ x ∉ b := by
  unfold diff
  simp [List.mem_filter]

theorem subset_iff (a b : List String) : subset a b = true ↔ ∀ x ∈ a, x ∈ b := by
  unfold subset
  simp [List.all_eq_true]

theorem subset_congr (a b b' : List String) (h : ∀ x, x ∈ b ↔ x ∈ b') : subset a b = subset a b' := by
  have : (subset a b = true) ↔ (subset a b' = true) := by
    rw [subset_iff, subset_iff]
    constructor
    · intro hh x hx; exact (h x).mp (hh x hx)
    · intro hh x hx; exact (h x).mpr (hh x hx)
  cases h1 : subset a b <;> cases h2 : subset a b' <;> simp_all

/-- iterations do not share members (two iterations naming the same action are the same list) -/
def WFIter (c : Config) : Prop :=
  ∀ i1 ∈ c.iterations, ∀ i2 ∈ c.iterations, ∀ e, e ∈ i1.predicates → e ∈ i2.predicates → i1.predicates = i2.predicates

theorem iterationOf_mem (c : Config) (a : String) (it : Iteration) (h : c.iterationOf a = some it) :
    it ∈ c.iterations ∧ a ∈ it.predicates ∧ a ∈ c.names := by
  unfold Config.iterationOf at h
  have hm := List.mem_of_find?_eq_some h
  have hp := List.find?_some h
  simp only [Bool.and_eq_true] at hp
  exact ⟨by simpa using hm, by simpa using hp.1, by simpa using hp.2⟩

theorem follower_not_ataman (c : Config) (hwf : WFIter c) (it : Iteration) (hit : it ∈ c.iterations)
    (e : String) (he : e ∈ it.predicates) (hn : e ∈ c.names) (hh : it.predicates.head? ≠ some e) :
    isAtaman c e = false := by
  unfold isAtaman
  cases hio : c.iterationOf e with
  | none =>
    exfalso
    unfold Config.iterationOf at hio
    rw [List.find?_eq_none] at hio
    have := hio it (by simpa using hit)
    simp [he, hn] at this
  | some it' =>
    obtain ⟨hit', he', _⟩ := iterationOf_mem c e it' hio
    have := hwf it' hit' it hit e he' he
    simp only [this]
    simpa using hh

structure SortInv (c : Config) (st : SortState) : Prop where
  complete_eq : ∀ x, x ∈ st.complete ↔ x ∈ st.result
  placed : wp c [] st.result = true
  names : ∀ x ∈ st.toAssign, x ∈ c.names
  assigning : ∀ it, st.assigning = some it →
    it ∈ c.iterations ∧ ∀ h, it.predicates.head? = some h → h ∉ st.toAssign

theorem forEligible_inv (c : Config) : ∀ (el : List String) (st : SortState),
    (∀ a ∈ el, isAtaman c a = true) → st.assigning = none → SortInv c st → SortInv c (forEligible c el st)
  | [], st, _, _, hinv => hinv
  | a :: rest, st, hel, hnone, hinv => by
    unfold forEligible
    by_cases hsub : subset (c.requiresOf a) st.complete = true
    · simp only [hsub, if_true]
      have hwp : wp c [] (st.result ++ [a]) = true := by
        rw [wp_append, hinv.placed]
        simp only [List.nil_append, wp, Bool.and_true, Bool.true_and]
        rw [subset_congr _ _ _ (fun x => (hinv.complete_eq x).symm), hsub]
        simp
      have hce : ∀ x, x ∈ union st.complete [a] ↔ x ∈ st.result ++ [a] := by
        intro x
        rw [mem_union, List.mem_append, hinv.complete_eq x]
      have hnm : ∀ x ∈ diff st.toAssign [a], x ∈ c.names := by
        intro x hx; exact hinv.names x ((mem_diff _ _ _).mp hx).1
      cases hio : c.iterationOf a with
      | none =>
        simp only
        refine forEligible_inv c rest _ (fun b hb => hel b (by simp [hb])) (by simpa using hnone) ?_
        exact ⟨hce, hwp, hnm, fun it h => by simp [hnone] at h⟩
      | some it =>
        simp only
        refine ⟨hce, hwp, hnm, ?_⟩
        intro it' hit'
        by_cases hr : (inter it.predicates (diff st.toAssign [a])).isEmpty = true
        · simp [hr] at hit'
        · simp only [hr] at hit'
          have hEq : it = it' := by simpa using hit'
          subst hEq
          obtain ⟨hmem, _, _⟩ := iterationOf_mem c a it hio
          refine ⟨hmem, ?_⟩
          intro h hh
          have hat := hel a (by simp)
          unfold isAtaman at hat
          simp only [hio] at hat
          have : it.predicates.head? = some a := by simpa using hat
          rw [this] at hh
          cases hh
          intro hmem'
          exact ((mem_diff _ _ _).mp hmem').2 (by simp)
    · simp only [hsub]
      exact forEligible_inv c rest st (fun b hb => hel b (by simp [hb])) hnone hinv

theorem mem_sortStrings (l : List String) (x : String) : x ∈ sortStrings l ↔ x ∈ l := by
  have hins : ∀ (a : String) (m : List String), x ∈ insertSorted a m ↔ x = a ∨ x ∈ m := by
    intro a m
    induction m with
    | nil => simp [insertSorted]
    | cons b m ih =>
      unfold insertSorted
      split
      · simp
      · simp [ih]; constructor
        · rintro (h | h | h) <;> simp [h]
        · rintro (h | h | h) <;> simp [h]
  induction l with
  | nil => simp [sortStrings]
  | cons a l ih =>
    show x ∈ insertSorted a (sortStrings l) ↔ _
    have h1 := hins a (sortStrings l)
    constructor
    · intro h
      rcases h1.mp h with h2 | h2
      · simp [h2]
      · simp [ih.mp h2]
    · intro h
      rcases List.mem_cons.mp h with h2 | h2
      · exact h1.mpr (Or.inl h2)
      · exact h1.mpr (Or.inr (ih.mpr h2))

theorem sortLoop_inv (c : Config) (hwf : WFIter c) : ∀ (fuel : Nat) (st : SortState) (order : List String),
    SortInv c st → sortLoop c fuel st = .ok order → wp c [] order = true
  | 0, _, _, _, h => by simp [sortLoop] at h
  | fuel + 1, st, order, hinv, h => by
    unfold sortLoop at h
    by_cases hemp : st.toAssign.isEmpty = true
    · simp only [hemp, if_true, SortResult.ok.injEq] at h
      rw [← h]; exact hinv.placed
    · simp only [hemp] at h
      cases hasg : st.assigning with
      | some it =>
        simp only [hasg] at h
        obtain ⟨hitm, hhead⟩ := hinv.assigning it hasg
        refine sortLoop_inv c hwf fuel _ order ?_ h
        have hfol : ∀ e ∈ it.predicates.filter (fun a => st.toAssign.contains a), isAtaman c e = false := by
          intro e he
          simp only [List.mem_filter, List.contains_iff_mem] at he
          apply follower_not_ataman c hwf it hitm e he.1 (hinv.names e he.2)
          intro hh
          exact hhead e hh he.2
        refine ⟨?_, ?_, ?_, ?_⟩
        · intro x
          simp only
          rw [mem_union, List.mem_append, hinv.complete_eq x]
        · simp only
          rw [wp_append, hinv.placed, Bool.true_and]
          exact wp_followers c _ _ hfol
        · intro x hx
          exact hinv.names x ((mem_diff _ _ _).mp hx).1
        · intro it' hh; simp at hh
      | none =>
        simp only [hasg] at h
        by_cases hl : ((forEligible c (sortStrings (List.filter (isAtaman c) st.toAssign)) st).toAssign.length ==
            st.toAssign.length) = true
        · simp [hl] at h
        · simp only [hl] at h
          refine sortLoop_inv c hwf fuel _ order ?_ h
          apply forEligible_inv c _ st _ hasg hinv
          intro a ha
          rw [mem_sortStrings] at ha
          exact (List.mem_filter.mp ha).2

/-- **The schedule respects the dependencies**: in the order `SortActions` returns, every action that is
scheduled on its own account — an action outside iterations or the first member of an iteration — comes after
every action it requires (after the propagation of `UnderstandIterations`: its own requirements, those of
its half-iteration, and for a first member the external requirements of all members). -/
theorem sort_respects_requirements (c : Config) (hwf : WFIter c) (order : List String)
    (h : sortActions c = .ok order) : wp c [] order = true := by
  unfold sortActions at h
  refine sortLoop_inv c hwf _ _ order ?_ h
  refine ⟨by simp, rfl, ?_, by simp⟩
  intro x hx
  have : x ∈ c.names := by
    have := List.mem_eraseDups.mp hx
    exact this
  exact this

end Logica.Concertina

namespace Logica.Concertina

theorem mem_foldl_keep {β : Type} (g : List String → β → List String)
    (hg : ∀ acc b x, x ∈ acc → x ∈ g acc b) : ∀ (l : List β) (init : List String) (x : String),
    x ∈ init → x ∈ l.foldl g init
  | [], _, _, h => h
  | b :: l, init, x, h => mem_foldl_keep g hg l (g init b) x (hg init b x h)

theorem mem_foldl_step {β : Type} (g : List String → β → List String)
    (hg : ∀ acc b x, x ∈ acc → x ∈ g acc b) (b : β) (x : String) (hb : ∀ acc, x ∈ g acc b) :
    ∀ (l : List β) (init : List String), b ∈ l → x ∈ l.foldl g init
  | y :: l, init, hm => by
    rcases List.mem_cons.mp hm with h | h
    · subst h
      exact mem_foldl_keep g hg l _ x (hb init)
    · exact mem_foldl_step g hg b x hb l (g init y) h

/-- own requirements are never lost by the propagation -/
theorem own_requirements_kept (c : Config) (a r : String) (h : r ∈ c.rawRequires a) : r ∈ c.requiresOf a := by
  unfold Config.requiresOf
  apply mem_foldl_keep
  · intro acc it x hx
    split
    · exact (mem_union _ _ _).mpr (Or.inl hx)
    · exact hx
  · unfold Config.requiresHalf
    apply mem_foldl_keep
    · intro acc hh x hx
      split
      · exact (mem_union _ _ _).mpr (Or.inl hx)
      · exact hx
    · exact h

/-- **The first member of an iteration waits for everything any member needs from outside the iteration**
(the content of the repair of finding F7). -/
theorem head_waits_for_members (c : Config) (it : Iteration) (hit : it ∈ c.iterations) (h p r : String)
    (hh : it.predicates.head? = some h) (hhn : h ∈ c.names)
    (hp : p ∈ it.predicates) (hpn : p ∈ c.names) (hr : r ∈ c.requiresHalf p) (hout : r ∉ it.predicates) :
    r ∈ c.requiresOf h := by
  unfold Config.requiresOf
  apply mem_foldl_step (b := it)
  · intro acc it' x hx
    split
    · exact (mem_union _ _ _).mpr (Or.inl hx)
    · exact hx
  · intro acc
    have hcond : (it.predicates.head? == some h && c.names.contains h) = true := by
      simp [hh, hhn]
    simp only [hcond, if_true]
    apply (mem_union _ _ _).mpr
    right
    apply (mem_diff _ _ _).mpr
    refine ⟨?_, hout⟩
    apply mem_foldl_step (g := fun r p => union r (c.requiresHalf p)) (b := p)
    · intro acc b x hx; exact (mem_union _ _ _).mpr (Or.inl hx)
    · intro acc; exact (mem_union _ _ _).mpr (Or.inr hr)
    · simp [List.mem_filter, hp, hpn]
  · exact hit

end Logica.Concertina
