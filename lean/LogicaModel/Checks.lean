/-
Decision logic of the compile-time checks that reject invalid programs:
`Annotations.CheckAnnotatedObjects`, `LogicaProgram.CheckDistinctConsistency`.
-/
namespace Logica.Checks

/-- annotations whose subject must be an existing predicate -/
def CHECKED : List String := ["@Limit", "@OrderBy", "@NoInject", "@CompileAsTvf", "@With", "@NoWith", "@CompileAsUdf"]

/-- `CheckAnnotatedObjects`: the first (annotation, predicate) whose predicate is not defined, if any.
`annotations` lists (annotation name, annotated predicate) in the iteration order of the code. -/
def checkAnnotated (allPreds : List String) : List (String × String) → Option (String × String)
  | [] => none
  | (a, p) :: rest =>
    if CHECKED.contains a && !allPreds.contains p then some (a, p) else checkAnnotated allPreds rest

/-- `CheckDistinctConsistency` over the (predicate, distinct?) pairs of the rules in order: the first
predicate with a rule that disagrees with the earlier rules of the same predicate.  (For programs coming from
text the parser's multi-body-aggregation rewrite performs a check of its own first when an earlier rule of the
predicate is distinct-denoted, and the annotation check runs before this one: the correspondence of C19
compares the existence of a report and the membership of the named predicate, not the choice among several.) -/
def checkDistinct : List (String × Bool) → List (String × Bool) → Option String
  | _, [] => none
  | seen, (p, d) :: rest =>
    match seen.find? (fun x => x.1 == p) with
    | some (_, d0) => if d0 != d then some p else checkDistinct seen rest
    | none => checkDistinct (seen ++ [(p, d)]) rest

end Logica.Checks
