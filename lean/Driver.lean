import Lean.Data.Json
import LogicaModel.Ops
/-!
Line-protocol driver: one JSON object per input line, one JSON object per output line.
Every request has an `"op"` field; the handlers live in `LogicaModel/Ops.lean`.
-/
open Lean

partial def loop (h : IO.FS.Stream) (out : IO.FS.Stream) : IO Unit := do
  let line ← h.getLine
  if line.isEmpty then return ()
  let resp : Json :=
    match Json.parse line with
    | .error e => Json.mkObj [("error", Json.str ("bad-json: " ++ e))]
    | .ok j =>
      match Logica.Ops.handle j with
      | .ok r => r
      | .error e => Json.mkObj [("error", Json.str e)]
  out.putStrLn resp.compress
  loop h out

def main : IO Unit := do
  let out ← IO.getStdout
  loop (← IO.getStdin) out
  out.flush
