import LogicaModel.Escape
import LogicaModel.EscapeLemmas
import LogicaModel.Ops
import LogicaModel.Props.C10
import LogicaModel.TypeAlg
import LogicaModel.TypeAlgLemmas
import LogicaModel.Props.C16
