import LogicaModel.Escape
import LogicaModel.EscapeLemmas
import LogicaModel.Ops
import LogicaModel.Props.C10
