#!/usr/bin/env python3
"""Writes /verif/MANIFEST.json from the table below (kept in one place so it stays valid)."""
import json, os
V = os.path.dirname(os.path.dirname(os.path.abspath(__file__)))
BASELINE = "cd /repo && /venv/bin/python -m pytest -ra -q -p no:cacheprovider --timeout=900 --continue-on-collection-errors"

CHECKS = {}
def add(pid, text, note, technique, design):
  CHECKS[pid] = dict(text=text, note=note, technique=technique, design=design)

add('C10',
    'Lean 4 theorems over the model of QL.StrLiteral and of each dialect family\'s literal lexing: lex_strLiteral proves, for all 8 dialects and all strings of any length over any alphabet, that the emitted text is read back as exactly the original string and ends where it should; flags theorems prove termination, fixed-point, user-overrides-default and rejection of undefined flags. The model is tied to /repo on every run by differential execution (real StrLiteral/UseFlagsAsParameters/BuildFlagValues vs the Lean driver) and the property is evaluated directly on the real code (SQLite returns the string from 9 positions; spec lexer applied to the real literal for every dialect; statement shape).',
    'Trusted: Lean kernel + 3 standard axioms; the lexical rules written for the 7 non-SQLite dialects (cannot be validated offline); correspondence harness; SQLite 3.40.1. Two recorded findings (newline re-indentation, ${ spanning a literal).',
    'Lean 4 proof (induction on the string, per literal family) + differential correspondence of model and code + spec-lexer oracle on real output',
    'DESIGN.md section 5 C10')

add('C16',
    'Lean 4 theorems over a pure model (TypeAlg.meet) of reference_algebra.Unify on views: symmetry for all type terms of any depth (clashing ones included), idempotence and absorption (repeating a unification changes nothing) for clash-free terms, record fields kept and none invented, clash generators. Tied to the code on every run by differential execution of Unify+VeryConcreteType on fresh reference trees against the Lean driver (exhaustive on depth<=1 pairs in thorough), and the property clauses are evaluated on the real references with an independent ground-instance semantics (same view on both sides, symmetry, idempotence, result below both inputs, no common instance lost, clash iff no common instance at depth<=1, order independence of clash-free triples).',
    'Trusted: Lean kernel + standard axioms; correspondence harness; BadType payloads erased; cyclic reference stores not modelled. Full clash<->no-common-instance and associativity theorems are stage 2 (checked by enumeration only, which is not counted as proof).',
    'Lean 4 proof (mutual well-founded induction over type terms) + differential correspondence + semantic oracle on real references',
    'DESIGN.md section 5 C16')

add('C18',
    'Lean 4 theorems over the model of OrderByClause/LimitClause/OkInjection and of the list semantics of ORDER BY..LIMIT: under a total order any sorted permutation of the rows is the same list (the ordered result is determined), every K including 0 is honoured, kept rows precede dropped rows, the consumer sees exactly the truncated rows, and a predicate with @OrderBy keys or @Limit (every K) is never injected; the pinned-commit counterexample for K=0 is proved as well. Tied to the code by differential execution of the real Annotations methods against the Lean driver and of SQLite row order against evalOrdered; the property is evaluated on generated programs (4 predicate shapes, annotation and denotation syntax, all DESC placements, K in 0..rows+1, 4 consumers incl. self-join) against an independent sort/take.',
    'Trusted: Lean kernel + standard axioms; SQLite ORDER BY/LIMIT validated by execution; integer rows only. One defect repaired (fix: honour @Limit(P, 0)).',
    'Lean 4 proof (sorted-permutation uniqueness, decision logic) + differential correspondence + reference sort/take oracle on SQLite',
    'DESIGN.md section 5 C18')

add('C14',
    'Lean 4 state-machine model of Concertina (UnderstandIterations requirement propagation, SortActions with its break/assigning logic, RunOneAction/UpdateStateForIterativeAction with re-queueing and an external monotone stop oracle). Proved: the run terminates for every configuration, queue and stop-oracle behaviour (a measure that strictly decreases with each executed action), each step executes exactly the queue head, a completed run is a fixed point. Order/count/round statements (sort is a dependency-respecting permutation, exact repetition counts, contiguous rounds) are not yet theorems: they are decided by the trace checker on the real code and by the model/implementation correspondence, which is not counted as proof. Tie: the real Concertina (silent display, recording engine, real stop-signal files) against the Lean driver on generated DAGs x iteration groups x stop schedules and on the configs of compiled plans (@Ground chains, @Recursive depth 21-30) executed on SQLite; oracle: dependencies, counts, rounds, termination, and equal final_result for every subset of requested predicates.',
    'Trusted: Lean kernel + standard axioms; correspondence harness; stop signal as monotone oracle; display code not modelled. One defect repaired (fix: iteration waits for requirements of all its actions).',
    'Lean 4 proof (termination measure over the run loop) + differential correspondence of the scheduler model + trace-checker oracle on real runs',
    'DESIGN.md section 5 C14')

add('C20',
    'Lean 4 theorems over models of the SQLite UDF aggregates and of the Range CTE: Range(n) is exactly 0..n-1 (empty for n<=0) for every integer n; ArgMinK returns the args of the k smallest rows in order for every input list without value ties and every k>=1, unlimited ArgMin (Array) for every list; both are invariant under every permutation of the input rows; a non-positive limit raises. ArgMax/ArgMaxK, the JSON-list built-ins and arithmetic are tied by correspondence/oracle only (not theorems yet). Tie: UDF classes called in-process after every prefix of every permutation vs the Lean driver, Range template on SQLite vs rangeCte. Oracle: every listed built-in through the real pipeline on SQLite vs independent Python one-liners over small domains (exhaustive in thorough), aggregates in-process, through SQL and through compiled rules over all permutations of the rows.',
    'Trusted: Lean kernel + standard axioms; SQLite JSON1/arithmetic validated by execution; heap layout abstracted to the kept multiset (root = extreme tuple), tied by prefix-wise correspondence. Negative list indices are outside the documented domain. One defect repaired (fix: Set aggregate sorted).',
    'Lean 4 proof (K-buffer invariant by induction over rows, sorted-permutation uniqueness, CTE unrolling) + differential correspondence + reference one-liner oracle on SQLite',
    'DESIGN.md section 5 C20')

add('C01',
    'Lean 4 theorems: a verified compiler for the conjunctive fragment (atoms over variables and constants, repeated variables, several rules): for every rule and every database, the bag semantics of the emitted SELECT/FROM/WHERE equals the nested-loop denotation of the rule (compile_correct_partial, exact even in row order); UNION ALL of the rules adds multiplicities (rules_add); conjunction multiplies them (solve_append, conjunction_multiplies). The model compiler is tied to /repo on every run: for random conjunctive rules the SELECT text the real compiler emits, parsed back, must be literally CQ.compile (same FROM items, same WHERE equalities in order and orientation, same SELECT list), and SQLite must return CQ.denote on random tables with duplicate rows. Beyond that fragment (disjunction, arithmetic, comparison, assignment, in, lists, records, if-then-else, functional and injectible predicates, named arguments) the statement is not a theorem: it is decided by the executable reference semantics Sem.denote against the rows and column names of the real pipeline on SQLite over type-directed generated programs and shape templates.',
    'Trusted: Lean kernel + standard axioms; partial: only the conjunctive fragment is proved, the rest is oracle; SQL text parser of the correspondence; Sem; SQLite 3.40.1. Known finding: unary minus directly before a call.',
    'Lean 4 proof (verified mini-compiler, simulation between unification environments and the column map) + structural correspondence with the emitted SQL + reference-evaluator oracle on SQLite',
    'DESIGN.md section 5 C01')

add('C05',
    'Lean 4 theorems on constraint solving over the scalar part of the type lattice (Any, Singular, Sequential, Num, Str, Bool, Time, clash; constraints "x has type t" and "x unified with y", applied by a schedule in any order, with any repetition): if some clash-free assignment satisfies the constraints, no schedule ever produces a clash (accepted whatever the order); two schedules that reached a fixed point inferred the same type for every variable, the greatest solution (exactly that signature, whatever the order); if no clash-free assignment satisfies them, every schedule at a fixed point reports a clash; a clash is never lost; the scalar meet is associative/commutative/idempotent and is the restriction of the structured meet of C16 (meet_toTy); the list solver the driver runs equals the functional solver of the theorems (toAsg_run). Lists, records and whole-program inference are not theorems (partial). Tie: random constraint systems rendered as rule bodies (x == literal, x == y) in 3 orders: verdict and signature of the real engine vs the fixed point of the model. Oracle on the real engine: generated typed programs are accepted with exactly the intended signatures; 9 single-point type corruptions x 3 orders of rules/conjuncts are rejected with TypeErrorCaughtException; values returned by SQLite inhabit the column types.',
    'Trusted: Lean kernel + standard axioms; partial: scalar lattice only, structured types via C16 correspondence and oracle; generator of intended types; SQLite. Known finding: colN access to positional predicate rejected by the type checker.',
    'Lean 4 proof (greatest-solution argument over a finite-height lattice) + differential correspondence of the solver + corruption oracle on the real type checker',
    'DESIGN.md section 5 C05')

add('C09',
    'Lean 4 theorems over Generated/Templates.lean, which a translator (tools/gen_templates.py) regenerates from the live dialect tables of /repo on every run: every template a built-in function call or infix operator can be formatted with (all 8 dialects, bulk functions included) is well-formed (one %s and no other conversion, or well-formed positional/named holes; brackets and quotes of the template balance; no hole inside a string literal) - checked by the kernel over the whole table (decide +kernel); and for every well-formed template and all argument texts whose brackets and string literals balance, QL.Function returns balanced text with every placeholder replaced or fails only for a missing positional argument (the arity diagnostic), %s templates never fail, and QL.Infix always returns balanced parenthesised text - by induction over the template, hence for expressions of any nesting depth. Alias scoping, WITH order, statement assembly and absence of internal errors elsewhere are not modelled (partial): they are decided by an independent static checker (comment- and dialect-aware lexing, bracket balance, alias scoping, WITH order, placeholder leaks) applied to the SQL the real compiler emits for generated programs on all eight dialects and for every non-bulk built-in called with 1-3 literal arguments; on SQLite the statements are also executed (calibration). Tie of the model: QL.Function / QL.Infix on every live template x argument texts vs the Lean driver.',
    'Trusted: Lean kernel + standard axioms; the translator (reads ql.built_in_functions / built_in_infix_operators of each dialect); partial as stated; the static checker; no engine but SQLite exists offline. Two defects repaired (Databricks Subscript arity, IndexError for too few arguments of a dialect rendering).',
    'Lean 4 proof over a model regenerated from the source (translator) + kernel-checked table + differential correspondence of the formatter + static SQL checker oracle',
    'DESIGN.md section 5 C09')

add('C06',
    'Lean 4 theorems on independent transcriptions of the two scanners every parsing function is built on (parse.py Traverse with its index jumps; logica_parse.cpp Traverser::Next, which keeps pending yields as \\x01 markers on its state stack, reports end-of-line-in-string instead of the character and goes on after an unmatched bracket): for every string, RemoveComments - the first thing both ParseFile implementations apply to a file - returns the same comment-free text or raises the same error at the same index (remove_comments_agree_partial), by a simulation between related configurations (scanners_simulate). The rule trees built afterwards (2-3k lines of splitting, operators and rewrites on each side) are not modelled (partial): equality of the trees and of acceptance is decided by differential execution of the two real parsers (shared object rebuilt from the current source) on the integration-test programs, every statement form of docs/syntax.md, generated programs, layout-noise variants and 4 single-token corruptions of each. Tie of the model: every (idx, state, status) parse.Traverse yields and what RemoveComments returns, on program texts, their variants and random strings over the special characters, against the Lean driver; the C++ transcription through the scanner error the real C++ parser reports for the same file.',
    'Trusted: Lean kernel + standard axioms; partial as stated; the C++ Traverser is not reachable through the C ABI, so its transcription is tied through ParseFile outcomes only; differential harness. Three defects repaired (empty array subscript, | adjacency, TOO_MUCH reset in C++).',
    'Lean 4 proof (simulation of two state machines) + differential correspondence of the scanner model + differential execution of both parsers',
    'DESIGN.md section 5 C06')
add('C11',
    'Lean 4 theorems on the bag semantics of propositions (environment -> list of extensions; conjunction = flatMap, disjunction = append, negation = no solution): ~P equals (Max{1 :- P} is null) under every environment; A => B, parsed as ~(A, ~B), holds exactly when every solution of A extends to a solution of B; x in [a, b] equals two alternatives (and in over any list the disjunction of its elements, with multiplicities); several rules equal one rule with |; disjunction distributes out of any context (the DNF rewrite) exactly on the right and as bags on the left. That the parser produces these long forms and the naming conventions (positional = colN, a: = a: a, F(x) = v, = vs ==, the three combine syntaxes, P(k) Op= e) are not theorems (partial): every occurrence of a shorthand in generated programs (heads, bodies, nested combines, negations, injected predicates) is rewritten into its long form at AST level and both programs are run on SQLite; multisets must be equal.',
    'Trusted: Lean kernel + standard axioms; partial as stated: the Sugar combinators are the reading Sem.solveI gives to conj/disj/neg/in (tied through the Sem correspondence of C01/C02, not separately); printer of both forms; SQLite. Known finding: positional vs colN on an injected predicate.',
    'Lean 4 proof (algebra of solution bags) + short-form/long-form oracle on SQLite',
    'DESIGN.md section 5 C11')
add('C15',
    'Lean 4 theorems on the model of the scanner (parse.py Traverse) through which RemoveComments, IsWhole and SplitRaw see a text - its view: the characters yielded, each with its bracket/string state, and the error events, never positions (positions_irrelevant): scanning is compositional at positions whose preceding character does not trigger look-ahead (go_prefix); a /* */ comment inserted where the scanner is outside strings and comments leaves the view unchanged, a # comment before a newline likewise (block_comment_insertion_partial, line_comment_insertion_partial); every character of a string literal - brackets, separators, comment markers, keywords - is yielded in one non-empty state and the text after the literal is scanned as if it were not there (string_literal_opaque_partial): string content is never split on, never counted as a bracket, never starts a comment. Whitespace between tokens, redundant parentheses, trailing semicolons and spans act above the scanner and are not theorems (partial): generated programs and all statement forms x layout noise at token boundaries (blanks, newlines, # and /* */ comments with tricky content), parenthesised variants, trailing/empty statements must parse to identical rules under both real parsers; string statements must parse to exactly the intended string values; every span must be the literal text at its position. Tie of the model: as for C06.',
    'Trusted: Lean kernel + standard axioms; partial as stated; tokenizer/noise inserter of the harness. Known finding: keyword separators need a literal blank.',
    'Lean 4 proof (compositionality of the scanner, comment/string lemmas by induction) + differential correspondence of the scanner model + layout-noise oracle under both parsers',
    'DESIGN.md section 5 C15')

SEM_TIE = ('Tie and oracle: type-directed generated programs (AST for the Lean reference evaluator Sem.denote, text for the real pipeline) run on every check; rows and column names from the `logica.py run` SQLite path are compared as multisets with Sem.denote; ')

add('C02',
    'Lean 4 theorems: built-in aggregates (Sum, Min, Max, Count as folds over nullable integers) ignore null inputs, yield null on no input, are invariant under every permutation of their input rows, Min is the minimum; negation holds exactly when the negated body has no solution (on the reference semantics Sem). The group-by / correlated sub-query compilation is not yet a theorem (decided by the oracle). ' + SEM_TIE + 'feature mask: predicate-level aggregation incl. multi-body, aggregating expressions correlated with outer variables, nested and sibling combines with clashing local names, negation of conjunctions, nested negation, shape templates (relational division, outer-only aggregated values).',
    'Trusted: Lean kernel + standard axioms; Sem (the formal reading of the documented semantics); generator/oracle harness; SQLite. Tied ArgMin/ArgMax programs are excluded as the property states. Known finding: List over nothing gives []. Two defects repaired (nested parenthesised conjunction, ArgMin/ArgMax null).',
    'Lean 4 proof (fold algebra, permutation invariance) + reference-evaluator oracle on SQLite',
    'DESIGN.md section 5 C02')
add('C03',
    'Lean 4 theorems on monotone operators over sets: bounded iteration is increasing, stays inside every set closed under the rules (hence inside the least fixpoint) for every depth, equals the least fixpoint as soon as one more application changes nothing, and is then independent of the depth; the executable Sem.iterate performs exactly n simultaneous applications. The equality of the compiled unfoldings (vertical, flat, iterative plan) with the iteration is decided by the oracle, not yet by theorem. Tie and oracle: recursion shapes (counter, TC as bag and set, Min= shortest paths, 2- and 3-cycles with and without a cutting member, self-loops, multi-body aggregation, depth-sensitive mutual counters) over random graphs and depths 0..30 executed on SQLite (single statement or concertina_lib for iterative plans) against Sem.iterate of depth+1 rounds; bounds (contains depth+1 rounds, inside the fixpoint, equal when converged) for cut covers.',
    'Trusted: Lean kernel + standard axioms; Sem; harness; SQLite; diamond mode not executable offline. Known finding: @Recursive(P, 0) rejected.',
    'Lean 4 proof (order-theoretic induction) + reference-iteration oracle on SQLite',
    'DESIGN.md section 5 C03')
add('C04',
    'Lean 4 theorems on rule bodies seen through their predicate names: substitution law (a clone with A replaced by sigma A means the original read through sigma), its lift to rules and to one application of the rules, only the bindings of occurring predicates matter (sharing a clone for equal restricted bindings is sound), the cache key determines the restricted bindings (different bindings never share), untouched bodies are unchanged, chained applications compose. MakeAll ordering and args_of closure are decided by the oracle. Tie and oracle: generated programs with 2-6 functor applications (chains of intermediates, several arguments, functors of made predicates, made predicates as arguments, equal / different bindings, constants, functors reaching made predicates through ordinary rules) on SQLite versus the program with the substitution done by hand at AST level (independent clone-and-rename) and versus Sem.denote of that program.',
    'Trusted: Lean kernel + standard axioms; hand substitution of the harness; Sem; SQLite.',
    'Lean 4 proof (structural induction on bodies) + hand-substitution oracle on SQLite',
    'DESIGN.md section 5 C04')
add('C07',
    'Lean 4 theorems on the reference semantics: permuting the rules / facts of a program permutes the rows of every non-aggregating predicate (same multiset; fails for one order iff for the other); Sum, Min, Max do not depend on row arrival order (ArgMin: Udf.argmin_perm). Conjunct / disjunct permutation and renaming are decided by the metamorphic oracle. Tie and oracle: every predicate of generated programs (full feature mask + shape templates) returns the same multiset on SQLite for 7 variants: rule/fact permutation, conjunct/disjunct permutation, variable renaming (SQL-keyword pool, tricky pool), alpha-renaming of combine-local variables, predicate renaming (keyword pool, tricky pool).',
    'Trusted: Lean kernel + standard axioms; Sem; metamorphic harness; SQLite. Known findings: SQL-keyword predicate names, identifier case collisions, denotation-keyword variable names.',
    'Lean 4 proof (permutation lemmas over the evaluator) + metamorphic oracle on SQLite',
    'DESIGN.md section 5 C07')
add('C08',
    'Lean 4 theorems on the script/store machine (predicates in dependency order, queries as functions of the relations read, grounded predicates read from their table when it exists): every plan (any choice of grounded predicates and creation order, from any faithful database) returns the same rows as the fully inlined plan, namely the denotation; OkInjection decision logic. WITH vs inline is the same semantic function; that the SQL text really differs is measured. Tie and oracle: generated programs (full mask, templates incl. injectible functions applied to themselves) under 6 annotation assignments of NoInject/With/NoWith/Ground each, every predicate compared with the unannotated plan and with Sem.denote (injectible calls hand-inlined).',
    'Trusted: Lean kernel + standard axioms; the abstraction of queries as functions (WF: reads only earlier predicates, checked on every generated program by construction); Sem; SQLite. Records holding lists across a table boundary are excluded (JSON subtype).',
    'Lean 4 proof (store-machine invariant) + plan-equivalence oracle on SQLite',
    'DESIGN.md section 5 C08')
add('C12',
    'Lean 4 theorems on the model of the file-prefix construction: the prefix given to a newly parsed file differs from every prefix in use, so an accepted import sequence gives pairwise different prefixes (same-named private predicates of different files never collide); the pinned loop rejected a shared base name (proved counterexample). Equality with the flattened program is decided by the oracle. Tie and oracle: import graphs written to a scratch directory (chains, diamonds, shared base names, deeper paths, aliases, two import roots, modules applying a predicate to its own result) under both parsers versus the program flattened at AST level and Sem.denote; cycle / undefined / unused / redefinition variants must raise ParsingException in both parsers.',
    'Trusted: Lean kernel + standard axioms; flattening by the harness; file system; both parsers built from the current source. One defect repaired (shared base names).',
    'Lean 4 proof (freshness invariant of the prefix loop) + flattening oracle under both parsers',
    'DESIGN.md section 5 C12')
add('C13',
    'Lean 4 theorems on the model of the process state and of set-order use: what a parse observes of the module state is independent of every history of earlier parses; the iteration closure is a function of the declared member list (no set enumeration enters); both pinned-commit counterexamples (sticky experimental-syntax flag, hash-order dependent closure) are proved. That CPython has no other hash- or history-dependent input is runtime behaviour the model cannot exhibit: it is decided by exploration. Tie and oracle: integration tests, generated programs, functor programs, every recursion shape incl. iterative plans and diamond mode, type-checked dialects compiled in fresh subprocesses under 5 hash seeds and under 3 histories (reversed, after an incantation program, after failing compiles and twice; re-use of the parsed rules object): SQL, export map, edges and iterations byte-identical after masking the stop-file time stamp.',
    'Trusted: Lean kernel + standard axioms; partial: runtime (hash seeds, other module state) covered by exploration only. Two defects repaired (sticky flag, set iteration).',
    'Lean 4 proof over the modelled state (partial: runtime by seed x history exploration)',
    'DESIGN.md section 5 C13')
add('C17',
    'Lean 4 theorems on the script/store machine: from a faithful database (e.g. a fresh file) a script leaves every created table equal to the denotation of its predicate, touches no other table and returns the denotation of the requested predicate; re-running returns the same rows and the same tables; any history of runs keeps the database faithful; a requested predicate that is not among the created tables is not written. Tie and oracle: generated programs with 1-3 grounded predicates (incl. flags inside grounded predicates and shared WITH helper chains) run in histories through the logica.py SQLite path against one database file; after every step the returned rows, the tables the run had to produce, repeated runs and the no-write rule (sentinel) are checked against Sem.denote.',
    'Trusted: Lean kernel + standard axioms; queries as functions (WF); SQLite DDL / ATTACH / persistence; the emitted script structure (which tables are created, in which order) is observed, not modelled.',
    'Lean 4 proof (store-machine invariant over histories) + run-history oracle on a persistent SQLite file',
    'DESIGN.md section 5 C17')
add('C19',
    'Lean 4 theorems (decision logic): an annotation of a missing predicate is always reported, wherever it stands among other annotations, and the report names a missing annotated predicate; programs whose annotated predicates exist pass; two rules of one predicate disagreeing on distinct are reported in every position. Range restriction, base cases, functor arguments and balance are decided by the oracle. Oracle (model-free): 11 corruption operators applied to generated valid programs (unbound head / comparison / negation / in-container / assignment variables, aggregation without distinct, inconsistent distinct, recursion without base case, functor on a non-dependency, annotation of a missing predicate after a valid one, unbalanced brackets and quotes): the outcome must be one of the four diagnostic exceptions naming the offender; SQL or any other exception is a violation.',
    'Trusted: Lean kernel + standard axioms; the corruption catalogue; classification of exceptions by the harness.',
    'Lean 4 proof (decision logic) + corruption-catalogue oracle',
    'DESIGN.md section 5 C19')

ALL = ['C%02d'
 % i for i in range(1, 21)]

def main():
  checks = []
  for pid in ALL:
    if pid not in CHECKS: continue
    c = CHECKS[pid]
    checks.append({
      'property_id': pid,
      'quick_cmd': './check %s --tier quick' % pid,
      'thorough_cmd': './check %s --tier thorough' % pid,
      'evidence_file': 'evidence/%s.json' % pid,
      'replay_cmd_template': './check %s --replay {path}' % pid,
      'engine': 'lean-model',
      'level_claimed': {'category': 'proof', 'text': c['text'], 'design_ref': c['design']},
      'level_note': c['note'],
      'technique': c['technique'],
    })
  na = [{'property_id': p, 'reason': 'check under construction in this round (framework per DESIGN.md section 10); not claimed until its Lean theorems, tie and oracle run'} for p in ALL if p not in CHECKS]
  m = {
    'version': 1,
    'setup_cmd': 'cd lean && lake build',
    'hooks': {'guard': 'LOGICA_VERIF', 'enable': 'no hooks are needed: every observation point is reachable in-process (see DESIGN.md 8.4)',
              'baseline_off_cmd': BASELINE, 'source_commits': [], 'add_only': True},
    'engines': [{'name': 'lean-model', 'path': 'lean/', 'serves_properties': [c['property_id'] for c in checks],
                 'kind_free_text': 'Lean 4.33 models + theorems (lean/LogicaModel), compiled line-protocol driver, Python correspondence harness (harness/)'}],
    'checks': checks,
    'notes': 'Every check: lake build of the property module + #print axioms audit + forbidden-construct grep, corpus replay, model/implementation correspondence, property-level oracle on the real code; known findings in known_findings.json.',
    'not_applicable': na,
  }
  with open(os.path.join(V, 'MANIFEST.json'), 'w') as f:
    json.dump(m, f, indent=1)
  print('wrote MANIFEST.json with %d checks, %d not claimed' % (len(checks), len(na)))

if __name__ == '__main__':
  main()
