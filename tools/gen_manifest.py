#!/usr/bin/env python3
"""Writes /verif/MANIFEST.json from the table below (kept in one place so it stays valid)."""
import json, os
V = os.path.dirname(os.path.dirname(os.path.abspath(__file__)))
BASELINE = "cd /repo && /venv/bin/python -m pytest -ra -q -p no:cacheprovider --timeout=900 --continue-on-collection-errors"

CHECKS = {}
def add(pid, text, note, technique, design):
  CHECKS[pid] = dict(text=text, note=note, technique=technique, design=design)

add('C10',
    'Lean 4 theorems over the model of QL.StrLiteral and of each dialect family\'s literal lexing: lex_strLiteral proves, for all 8 dialects and all strings of any length over any alphabet, that the emitted text is read back as exactly the original string and ends where it should; flags theorems prove termination, fixed-point, user-overrides-default and rejection of undefined flags. The model is tied to /repo on every run by differential execution (real StrLiteral/UseFlagsAsParameters/BuildFlagValues vs the Lean driver) and the property is evaluated directly on the real code (SQLite returns the string from 9 positions; spec lexer applied to the real literal for every dialect; statement shape).',
    'Trusted: Lean kernel + 3 standard axioms; the lexical rules written for the 7 non-SQLite dialects (cannot be validated offline); correspondence harness; SQLite 3.40.1. Two recorded findings (newline re-indentation, ${ spanning a literal).',
    'Lean 4 proof (induction on the string, per literal family) + differential correspondence of model and code + spec-lexer oracle on real output',
    'DESIGN.md section 5 C10')

add('C16',
    'Lean 4 theorems over a pure model (TypeAlg.meet) of reference_algebra.Unify on views: symmetry for all type terms of any depth (clashing ones included), idempotence and absorption (repeating a unification changes nothing) for clash-free terms, record fields kept and none invented, clash generators. Tied to the code on every run by differential execution of Unify+VeryConcreteType on fresh reference trees against the Lean driver (exhaustive on depth<=1 pairs in thorough), and the property clauses are evaluated on the real references with an independent ground-instance semantics (same view on both sides, symmetry, idempotence, result below both inputs, no common instance lost, clash iff no common instance at depth<=1, order independence of clash-free triples).',
    'Trusted: Lean kernel + standard axioms; correspondence harness; BadType payloads erased; cyclic reference stores not modelled. Full clash<->no-common-instance and associativity theorems are stage 2 (checked by enumeration only, which is not counted as proof).',
    'Lean 4 proof (mutual well-founded induction over type terms) + differential correspondence + semantic oracle on real references',
    'DESIGN.md section 5 C16')

add('C18',
    'Lean 4 theorems over the model of OrderByClause/LimitClause/OkInjection and of the list semantics of ORDER BY..LIMIT: under a total order any sorted permutation of the rows is the same list (the ordered result is determined), every K including 0 is honoured, kept rows precede dropped rows, the consumer sees exactly the truncated rows, and a predicate with @OrderBy keys or @Limit (every K) is never injected; the pinned-commit counterexample for K=0 is proved as well. Tied to the code by differential execution of the real Annotations methods against the Lean driver and of SQLite row order against evalOrdered; the property is evaluated on generated programs (4 predicate shapes, annotation and denotation syntax, all DESC placements, K in 0..rows+1, 4 consumers incl. self-join) against an independent sort/take.',
    'Trusted: Lean kernel + standard axioms; SQLite ORDER BY/LIMIT validated by execution; integer rows only. One defect repaired (fix: honour @Limit(P, 0)).',
    'Lean 4 proof (sorted-permutation uniqueness, decision logic) + differential correspondence + reference sort/take oracle on SQLite',
    'DESIGN.md section 5 C18')

add('C14',
    'Lean 4 state-machine model of Concertina (UnderstandIterations requirement propagation, SortActions with its break/assigning logic, RunOneAction/UpdateStateForIterativeAction with re-queueing and an external monotone stop oracle). Proved: the run terminates for every configuration, queue and stop-oracle behaviour (a measure that strictly decreases with each executed action), each step executes exactly the queue head, a completed run is a fixed point. Order/count/round statements (sort is a dependency-respecting permutation, exact repetition counts, contiguous rounds) are not yet theorems: they are decided by the trace checker on the real code and by the model/implementation correspondence, which is not counted as proof. Tie: the real Concertina (silent display, recording engine, real stop-signal files) against the Lean driver on generated DAGs x iteration groups x stop schedules and on the configs of compiled plans (@Ground chains, @Recursive depth 21-30) executed on SQLite; oracle: dependencies, counts, rounds, termination, and equal final_result for every subset of requested predicates.',
    'Trusted: Lean kernel + standard axioms; correspondence harness; stop signal as monotone oracle; display code not modelled. One defect repaired (fix: iteration waits for requirements of all its actions).',
    'Lean 4 proof (termination measure over the run loop) + differential correspondence of the scheduler model + trace-checker oracle on real runs',
    'DESIGN.md section 5 C14')

add('C20',
    'Lean 4 theorems over models of the SQLite UDF aggregates and of the Range CTE: Range(n) is exactly 0..n-1 (empty for n<=0) for every integer n; ArgMinK returns the args of the k smallest rows in order for every input list without value ties and every k>=1, unlimited ArgMin (Array) for every list; both are invariant under every permutation of the input rows; a non-positive limit raises. ArgMax/ArgMaxK, the JSON-list built-ins and arithmetic are tied by correspondence/oracle only (not theorems yet). Tie: UDF classes called in-process after every prefix of every permutation vs the Lean driver, Range template on SQLite vs rangeCte. Oracle: every listed built-in through the real pipeline on SQLite vs independent Python one-liners over small domains (exhaustive in thorough), aggregates in-process, through SQL and through compiled rules over all permutations of the rows.',
    'Trusted: Lean kernel + standard axioms; SQLite JSON1/arithmetic validated by execution; heap layout abstracted to the kept multiset (root = extreme tuple), tied by prefix-wise correspondence. Negative list indices are outside the documented domain. One defect repaired (fix: Set aggregate sorted).',
    'Lean 4 proof (K-buffer invariant by induction over rows, sorted-permutation uniqueness, CTE unrolling) + differential correspondence + reference one-liner oracle on SQLite',
    'DESIGN.md section 5 C20')

ALL = ['C%02d' % i for i in range(1, 21)]

def main():
  checks = []
  for pid in ALL:
    if pid not in CHECKS: continue
    c = CHECKS[pid]
    checks.append({
      'property_id': pid,
      'quick_cmd': './check %s --tier quick' % pid,
      'thorough_cmd': './check %s --tier thorough' % pid,
      'evidence_file': 'evidence/%s.json' % pid,
      'replay_cmd_template': './check %s --replay {path}' % pid,
      'engine': 'lean-model',
      'level_claimed': {'category': 'proof', 'text': c['text'], 'design_ref': c['design']},
      'level_note': c['note'],
      'technique': c['technique'],
    })
  na = [{'property_id': p, 'reason': 'check under construction in this round (framework per DESIGN.md section 10); not claimed until its Lean theorems, tie and oracle run'} for p in ALL if p not in CHECKS]
  m = {
    'version': 1,
    'setup_cmd': 'cd lean && lake build',
    'hooks': {'guard': 'LOGICA_VERIF', 'enable': 'no hooks are needed: every observation point is reachable in-process (see DESIGN.md 8.4)',
              'baseline_off_cmd': BASELINE, 'source_commits': [], 'add_only': True},
    'engines': [{'name': 'lean-model', 'path': 'lean/', 'serves_properties': [c['property_id'] for c in checks],
                 'kind_free_text': 'Lean 4.33 models + theorems (lean/LogicaModel), compiled line-protocol driver, Python correspondence harness (harness/)'}],
    'checks': checks,
    'notes': 'Every check: lake build of the property module + #print axioms audit + forbidden-construct grep, corpus replay, model/implementation correspondence, property-level oracle on the real code; known findings in known_findings.json.',
    'not_applicable': na,
  }
  with open(os.path.join(V, 'MANIFEST.json'), 'w') as f:
    json.dump(m, f, indent=1)
  print('wrote MANIFEST.json with %d checks, %d not claimed' % (len(checks), len(na)))

if __name__ == '__main__':
  main()
