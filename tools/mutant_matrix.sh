#!/bin/bash
# For every seeded change: apply it to /repo, run the check of its own property (quick tier), undo.
# Usage: tools/mutant_matrix.sh [ids...]   env EXTRA="--no-lean" to skip the Lean obligations
cd /verif
ids=${@:-$(ls seeded | sort)}
for id in $ids; do
  c=${id%%_*}
  if ! git -C /repo diff --quiet; then echo "/repo has local changes; refusing"; exit 2; fi
  git -C /repo apply /verif/seeded/$id/patch.diff || { echo "$id: patch does not apply"; continue; }
  out=$(timeout 1800 ./check $c --tier quick $EXTRA 2>&1); rc=$?
  git -C /repo checkout -- .
  echo "$id on $c: exit $rc  $(echo "$out" | grep -E "^VIOLATION" | head -1 | cut -c1-220)"
done
