#!/bin/bash
# run every check under several seeds on the clean tree (no Lean rebuild): any VIOLATION / rc!=0 is a flaky alarm to fix
cd /verif
for s in ${SEEDS:-1 2 3}; do
  for c in ${CHECKS:-C01 C02 C03 C04 C05 C06 C07 C08 C09 C10 C11 C12 C13 C14 C15 C16 C17 C18 C19 C20}; do
    out=$(VERIF_SEED=$s timeout 1500 ./check $c --tier ${TIER:-quick} --no-lean 2>&1); rc=$?
    echo "seed=$s $c rc=$rc $(echo "$out" | grep "^$c " | cut -c1-150)"
    echo "$out" | grep "^VIOLATION" | head -3 | cut -c1-260
    if [ $rc -ne 0 ]; then mkdir -p /tmp/seedm; cp -r replays/$c /tmp/seedm/${c}_seed$s 2>/dev/null; echo "$out" | tail -20 > /tmp/seedm/${c}_seed$s.out; fi
  done
done
