#!/bin/bash
# tools/try_mutant.sh <seeded-id> <Cxx> [<Cyy> ...] : apply a seeded change to /repo, run the quick checks, undo.
id=$1; shift
cd /verif
if ! git -C /repo diff --quiet; then echo "/repo has local changes; refusing"; exit 2; fi
git -C /repo apply /verif/seeded/$id/patch.diff || { echo "patch does not apply"; exit 2; }
for c in "$@"; do
  out=$(timeout 1800 ./check $c --tier quick $EXTRA 2>&1); rc=$?
  echo "== $id on $c: exit $rc"; echo "$out" | grep -E "^VIOLATION|^KNOWN|^$c " | cut -c1-300 | head -8
done
git -C /repo checkout -- .
git -C /repo status --short | grep -v '^??' 
