#!/bin/bash
# run every claimed check once (quick tier) and summarise
cd /verif
for c in $(python3 -c "import json; print(' '.join(x['property_id'] for x in json.load(open('MANIFEST.json'))['checks']))"); do
  out=$(timeout 1500 ./check $c --tier ${1:-quick} 2>&1); rc=$?; echo "$out" > /tmp/run_all_$c.out
  echo "$c rc=$rc $(echo "$out" | grep "^$c " | sed 's/evaluations/ev/; s/distinct/di/' | cut -c1-160)"
  echo "$out" | grep "^VIOLATION" | head -3 | cut -c1-200
done
